package wgen

import (
	"fmt"
	"strings"

	"pgregory.net/rapid"
)

// TypeCase is a generated host-shareable type tree placed in an address space
// (C07).
type TypeCase struct {
	Space   string // "storage" | "uniform" | "workgroup"
	T       *Type
	Decls   string // struct / const declarations needed by T (WGSL text)
	Enables string // "enable f16;\n" or ""
	RtLen   int    // element count used for the trailing runtime array (0 if none)
	Classes []string
	Structs []*Struct
}

type tgen struct {
	t       *rapid.T
	space   string
	f16     bool
	structs []*Struct
	consts  []string
	n       int
	classes map[string]bool
	off     func(string) bool
}

func (g *tgen) intn(n int, label string) int {
	if n <= 1 {
		return 0
	}
	return rapid.IntRange(0, n-1).Draw(g.t, label)
}
func (g *tgen) chance(p int, label string) bool { return g.intn(100, label) < p }
func (g *tgen) name(p string) string            { g.n++; return fmt.Sprintf("%s%d", p, g.n) }
func (g *tgen) is(tag string) bool              { return g.off != nil && g.off(tag) }

func (g *tgen) scalarKind() Kind {
	ks := []Kind{I32, U32, F32}
	if g.f16 {
		ks = append(ks, F16)
	}
	return ks[g.intn(len(ks), "sk")]
}

func (g *tgen) floatKind() Kind {
	if g.f16 && g.chance(35, "fk16") {
		return F16
	}
	return F32
}

// uniformOK reports whether t can be the element type of an array / a member
// in the uniform address space without further attributes.
func uniformElemOK(t *Type) bool {
	return StrideOf(Array(t, 1))%16 == 0 && AlignOf(t)%16 == 0
}

func (g *tgen) leafType() *Type {
	switch g.intn(10, "lt") {
	case 0, 1, 2:
		return Scalar(g.scalarKind())
	case 3, 4, 5, 6:
		return Vec(2+g.intn(3, "lvn"), g.scalarKind())
	case 7, 8:
		g.classes["matrix"] = true
		return Mat(2+g.intn(3, "lmc"), 2+g.intn(3, "lmr"), g.floatKind())
	default:
		if g.space != "uniform" && !g.is("types.atomic") {
			g.classes["atomic"] = true
			return Atomic([]Kind{I32, U32}[g.intn(2, "ak")])
		}
		return Scalar(g.scalarKind())
	}
}

func (g *tgen) typ(depth int) *Type {
	if depth <= 0 {
		return g.leafType()
	}
	switch r := g.intn(100, "tt"); {
	case r < 40:
		return g.leafType()
	case r < 65:
		elem := g.typ(depth - 1)
		n := 1 + g.intn(4, "an")
		if g.space == "uniform" && !uniformElemOK(elem) {
			// wrap the element so that the stride becomes a multiple of 16
			elem = g.wrapAligned(elem)
		}
		g.classes["array"] = true
		if elem.K == TStruct {
			g.classes["array-of-struct"] = true
		}
		return Array(elem, n)
	default:
		return StructT(g.structOf(depth-1, false))
	}
}

// wrapAligned returns a struct { @align(16) m: elem } whose size is a multiple of 16.
func (g *tgen) wrapAligned(elem *Type) *Type {
	if elem.K == TVec && elem.N == 4 && elem.S != F16 {
		return elem
	}
	s := &Struct{Name: g.name("W")}
	s.Members = []*Member{{Name: g.name("m"), T: elem, Align: 16}}
	g.attrText(s.Members[0])
	g.structs = append(g.structs, s)
	return StructT(s)
}

func (g *tgen) attrText(m *Member) {
	spell := func(v int) string {
		switch g.intn(4, "spell") {
		case 0:
			if !g.is("types.attr.hex") {
				g.classes["attr:hex"] = true
				return fmt.Sprintf("0x%x", v)
			}
		case 1:
			if !g.is("types.attr.const") {
				g.classes["attr:const"] = true
				n := g.name("K")
				g.consts = append(g.consts, fmt.Sprintf("const %s = %d;", n, v))
				return n
			}
		case 2:
			if !g.is("types.attr.suffix") {
				g.classes["attr:suffix"] = true
				return fmt.Sprintf("%du", v)
			}
		}
		return ""
	}
	if m.Align > 0 {
		m.AlignText = spell(m.Align)
	}
	if m.Size > 0 {
		m.SizeText = spell(m.Size)
	}
}

func (g *tgen) structOf(depth int, allowRuntimeTail bool) *Struct {
	s := &Struct{Name: g.name("T")}
	n := 1 + g.intn(6, "sn")
	for i := 0; i < n; i++ {
		m := &Member{Name: g.name("m"), T: g.typ(depth)}
		if m.T.K == TStruct {
			g.classes["nested-struct"] = true
		}
		nat := AlignOf(m.T)
		req := nat
		if g.space == "uniform" && (m.T.K == TStruct || m.T.K == TArray) && req < 16 {
			req = 16
		}
		if req > nat || (g.chance(20, "al") && !g.is("types.attr.align")) {
			a := req
			for k := g.intn(3, "alk"); k > 0; k-- {
				a *= 2
			}
			m.Align = a
			g.classes["@align"] = true
		}
		if g.chance(20, "sz") && !g.is("types.attr.size") {
			sz := SizeOf(m.T)
			m.Size = sz + 4*g.intn(5, "szk")
			if m.T.S == F16 || sz%4 != 0 {
				m.Size = sz + 2*g.intn(5, "szk2")
			}
			g.classes["@size"] = true
		}
		if m.Align > 0 || m.Size > 0 {
			g.attrText(m)
		}
		if i > 0 && s.Members[i-1].T.K == TVec && s.Members[i-1].T.N == 3 && m.T.K == TScalar {
			g.classes["vec3-then-scalar"] = true
		}
		s.Members = append(s.Members, m)
	}
	if g.space == "uniform" {
		// a member following a struct-typed member must start at a multiple of 16
		for i := 1; i < len(s.Members); i++ {
			if s.Members[i-1].T.K == TStruct && MemberAlign(s.Members[i]) < 16 {
				s.Members[i].Align = 16
				s.Members[i].AlignText = ""
			}
		}
	}
	if allowRuntimeTail && g.chance(40, "rt") && !g.is("types.runtime-tail") {
		elem := g.typ(1)
		if elem.HasAtomic() && g.chance(50, "rtna") {
			elem = Scalar(g.scalarKind())
		}
		s.Members = append(s.Members, &Member{Name: g.name("m"), T: Array(elem, 0)})
		g.classes["runtime-tail"] = true
	}
	g.structs = append(g.structs, s)
	return s
}

// GenTypeCase draws a type tree for C07.
func GenTypeCase(t *rapid.T, f16 bool, off func(string) bool) *TypeCase {
	g := &tgen{t: t, f16: f16, classes: map[string]bool{}, off: off}
	g.space = []string{"storage", "storage", "uniform", "workgroup"}[g.intn(4, "space")]
	if g.f16 {
		g.classes["f16"] = true
	}
	var top *Type
	if g.space == "storage" && g.chance(15, "toparr") {
		top = Array(g.typ(2), 0)
		g.classes["runtime-binding"] = true
	} else {
		top = StructT(g.structOf(2, g.space == "storage"))
	}
	c := &TypeCase{Space: g.space, T: top, Structs: g.structs}
	if top.HasRuntimeArray() {
		c.RtLen = 1 + g.intn(3, "rtlen")
	}
	var b strings.Builder
	for _, k := range g.consts {
		b.WriteString(k + "\n")
	}
	for _, s := range g.structs {
		b.WriteString(s.DeclString())
	}
	c.Decls = b.String()
	if f16 {
		c.Enables = "enable f16;\n"
	}
	for k := range g.classes {
		c.Classes = append(c.Classes, k)
	}
	sortStrings(c.Classes)
	return c
}

func sortStrings(s []string) {
	for i := 1; i < len(s); i++ {
		for j := i; j > 0 && s[j] < s[j-1]; j-- {
			s[j], s[j-1] = s[j-1], s[j]
		}
	}
}

// WGSLPath turns a Leaf path (".m1[2].x", "[1][0]") into an expression rooted at base.
func WGSLPath(base string, l Leaf) string { return base + l.Path }
