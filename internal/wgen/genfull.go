package wgen

// GenFull: generator of the "full" profile — WGSL modules that are valid by
// construction and exercise what the exec profile cannot: vertex / fragment /
// compute entry points (1–4, mixed stages) with IO structs and bare
// parameters, @location / @builtin / @interpolate / @invariant, textures
// (sampled, depth, storage, multisampled), samplers and texture builtins,
// entry points sharing a binding, different variables on the same
// @group/@binding used by different entry points, discard, derivatives,
// shadowing, forward references (declaration order is shuffled), alias,
// const_assert, override with defaults, atomics on workgroup and storage
// memory, workgroupUniformLoad, literal spellings.
//
// The programs are not executed, so run-time domains are irrelevant; what must
// hold is static validity:
//   * every expression is built type-directed from builtin signatures copied
//     from the WGSL specification (section "Built-in Functions");
//   * constant expressions cannot fail: literals are small and non-negative,
//     and every operator other than + * comparisons and constructors gets at
//     least one operand that is not a constant expression;
//   * builtins that need uniform control flow (implicit-derivative sampling,
//     dpdx…, barriers, workgroupUniformLoad) are only called in the prologue of
//     an entry point, before any control flow, and never from helpers;
//   * a resource is only used from stages where WebGPU allows it, and no entry
//     point statically uses two variables with the same @group/@binding.
//
// Text based (no AST): only the check of C08-like acceptance properties needs it.

import (
	"fmt"
	"sort"
	"strings"

	"pgregory.net/rapid"
)

// FullFeatures configures GenFull.
type FullFeatures struct {
	Off func(tag string) bool // construct switched off (known finding / undocumented feature)
}

// FullEntry describes one entry point (the generator's own knowledge of the
// interface it wrote; used as the expectation of C17).
type FullEntry struct {
	Stage         string // "vertex" | "fragment" | "compute"
	Name          string
	WorkgroupSize [3]int   // compute only
	Inputs        []FullIO // in declaration order (struct members flattened)
	Outputs       []FullIO
}

// FullIO is one entry-point input or output.
type FullIO struct {
	Name      string // parameter / member name ("" for a bare return value)
	Type      string // WGSL type
	Location  int    // -1 when bound to a builtin
	Builtin   string // "" when bound to a location
	Interp    string // "" (default) | "perspective" | "linear" | "flat"
	Sampling  string // "" (default) | "center" | "centroid" | "sample" | "first" | "either"
	Invariant bool
	Struct    string // name of the IO struct the member belongs to; "" for a bare parameter / return
}

// FullResource is one resource variable of the module.
type FullResource struct {
	Name    string
	Group   int
	Binding int
	// Kind: uniform | storage_ro | storage_rw | sampler | sampler_comparison |
	// texture | texture_depth | texture_multisampled | storage_texture
	Kind string
	Decl string // WGSL type as written (texture_2d<f32>, texture_storage_2d<r32uint, read_write>, Params, …)
	// UsedBy lists the entry points that statically use the variable (directly
	// or through the helper functions they call), in declaration order.
	UsedBy []string
}

// FullCase is a generated full-profile module.
type FullCase struct {
	Src         string
	Classes     []string
	Entries     []FullEntry
	Helpers     int
	MaxNesting  int
	UsesTexture bool
	UsesAtomic  bool
	StructIO    bool
	UsesStorage bool // declares a storage buffer or storage texture (GLSL >= 4.30 / ES 3.10)
	Resources   []FullResource
	// Workgroup lists, per entry-point name, whether it statically uses workgroup variables.
	UsesWorkgroup map[string]bool
}

type fres struct {
	name    string
	kind    string // uniform, storage-r, storage-rw, atomic, tex, depth, ms, stex-w, stex-r, stex-rw, samp, samp-cmp
	decl    string
	group   int
	binding int
	stages  string // subset of "vfc"
	// texture details
	dim     string // 1d 2d 2d_array 3d cube cube_array
	sty     string // f32 i32 u32 (sampled / storage channel type)
	aliasOf int    // index of the resource whose binding this one duplicates (-1: none)
}

type fval struct {
	expr string
	rt   bool // not a constant expression
}

type fscope struct {
	vals map[string][]fval
	vars map[string][]string // assignable (function / private) by type
}

type fgen struct {
	t            *rapid.T
	off          func(string) bool
	n            int
	classes      map[string]bool
	decls        []string
	res          []fres
	consts       []fval // module consts by type via constsT
	constsT      []string
	scopes       []*fscope
	helpers      []fhelper
	depth        int
	maxNest      int
	useTex       bool
	useAt        bool
	stage        string
	used         map[int]bool // resources used by the current entry point
	globals      []string     // module-scope value names (for shadowing)
	hidden       []string     // module-scope names shadowed in the current block
	needWg       bool         // workgroup variables are referenced
	hstages      string       // stages the helper being generated may be called from
	hasTexHelper bool
	hres         map[int]bool // resources used by the helper being generated
	noMustUse    bool
	localOnly    bool // leaves must not name module-scope declarations (guard for tag forward-reference.bitcast)
	c            *FullCase
	vouts        []fio
	structItems  map[string][]string // IO struct name -> member items ("@attr… name: type")
	fnText       map[string]string   // function name -> text of its declaration
}

type fhelper struct {
	name    string
	params  []string // types
	ret     string
	res     []int // resources it uses
	stages  string
	mustUse bool
}

func (g *fgen) is(tag string) bool { return g.off != nil && g.off(tag) }
func (g *fgen) class(s string)     { g.classes[s] = true }
func (g *fgen) intn(n int, l string) int {
	if n <= 1 {
		return 0
	}
	return rapid.IntRange(0, n-1).Draw(g.t, l)
}
func (g *fgen) chance(p int, l string) bool { return rapid.IntRange(0, 99).Draw(g.t, l) < p }
func (g *fgen) pick(l string, v ...string) string {
	return v[g.intn(len(v), l)]
}
func (g *fgen) name(p string) string { g.n++; return fmt.Sprintf("%s%d", p, g.n) }

// ---------------------------------------------------------------------------
// types are plain strings

func fscalar(ty string) string {
	if i := strings.IndexByte(ty, '<'); i >= 0 {
		return ty[i+1 : len(ty)-1]
	}
	return ty
}
func fwidth(ty string) int {
	if strings.HasPrefix(ty, "vec") {
		return int(ty[3] - '0')
	}
	return 1
}
func fvec(n int, s string) string {
	if n == 1 {
		return s
	}
	return fmt.Sprintf("vec%d<%s>", n, s)
}

// ---------------------------------------------------------------------------
// scopes

func (g *fgen) push() {
	g.scopes = append(g.scopes, &fscope{vals: map[string][]fval{}, vars: map[string][]string{}})
}
func (g *fgen) pop() { g.scopes = g.scopes[:len(g.scopes)-1] }
func (g *fgen) addVal(ty, expr string, rt bool) {
	s := g.scopes[len(g.scopes)-1]
	s.vals[ty] = append(s.vals[ty], fval{expr, rt})
}
func (g *fgen) addVar(ty, name string) {
	s := g.scopes[len(g.scopes)-1]
	s.vars[ty] = append(s.vars[ty], name)
	s.vals[ty] = append(s.vals[ty], fval{name, true})
}
func (g *fgen) valsOf(ty string) []fval {
	var out []fval
	for i, s := range g.scopes {
		for _, v := range s.vals[ty] {
			if i == 0 && (g.localOnly || g.hiddenIn(v.expr)) {
				continue // module-scope name currently shadowed by a local
			}
			out = append(out, v)
		}
	}
	return out
}
func (g *fgen) varsOf(ty string) []string {
	var out []string
	for i, s := range g.scopes {
		for _, v := range s.vars[ty] {
			if i == 0 && g.hiddenIn(v) {
				continue
			}
			out = append(out, v)
		}
	}
	return out
}

// hiddenIn reports whether expr mentions a module-scope name that is shadowed.
func (g *fgen) hiddenIn(expr string) bool {
	for _, h := range g.hidden {
		for i := 0; i+len(h) <= len(expr); i++ {
			if expr[i:i+len(h)] == h && (i == 0 || !identByte(expr[i-1])) && (i+len(h) == len(expr) || !identByte(expr[i+len(h)])) {
				return true
			}
		}
	}
	return false
}

func identByte(c byte) bool {
	return c == '_' || c >= 'a' && c <= 'z' || c >= 'A' && c <= 'Z' || c >= '0' && c <= '9'
}

func (g *fgen) isVarName(n string) bool {
	for _, s := range g.scopes {
		for _, l := range s.vars {
			for _, v := range l {
				if v == n {
					return true
				}
			}
		}
	}
	return false
}

// ---------------------------------------------------------------------------
// literals (small, non-negative; several spellings)

func (g *fgen) lit(s string) string {
	v := g.intn(10, "litv")
	switch s {
	case "bool":
		return g.pick("litb", "true", "false")
	case "i32":
		switch g.intn(4, "liti") {
		case 0:
			return fmt.Sprintf("%di", v)
		case 1:
			return fmt.Sprintf("0x%xi", v)
		case 2:
			return fmt.Sprintf("i32(%d)", v)
		}
		return fmt.Sprintf("%di", v)
	case "u32":
		switch g.intn(4, "litu") {
		case 0:
			return fmt.Sprintf("0x%Xu", v)
		case 1:
			return fmt.Sprintf("u32(%d)", v)
		}
		return fmt.Sprintf("%du", v)
	case "f32":
		frac := []string{"0", "5", "25", "125"}[g.intn(4, "litfr")]
		switch g.intn(9, "litf") {
		case 0:
			return fmt.Sprintf("%d.%sf", v, frac)
		case 1:
			return fmt.Sprintf("%df", v)
		case 2:
			return fmt.Sprintf("f32(%d.%s)", v, frac)
		case 3:
			return fmt.Sprintf("%d.%se0f", v, frac)
		case 4:
			return fmt.Sprintf("%de-1f", v)
		case 5:
			if !g.is("literal.hexfloat") {
				g.class("literal:hexfloat")
				return g.pick("hexf", "0x1p0f", "0x1.8p1f", "0x3p-1f", "0xAp0f", "0x.8p1f")
			}
		case 6:
			if !g.is("literal.leading-dot") {
				g.class("literal:leading-dot")
				return fmt.Sprintf(".%sf", frac)
			}
		case 7:
			if !g.is("literal.trailing-dot-suffix") {
				g.class("literal:trailing-dot-suffix")
				return fmt.Sprintf("%d.f", v)
			}
		}
		return fmt.Sprintf("%d.%s", v, frac) + "f"
	}
	panic("lit " + s)
}

// runtime leaf of scalar type s (module-scope private variables)
func rtLeaf(s string) string {
	switch s {
	case "f32":
		return "gpf"
	case "i32":
		return "gpi"
	case "u32":
		return "gpu"
	case "bool":
		return "(gpu != 0u)"
	}
	panic("rtLeaf " + s)
}

func (g *fgen) rt(ty string) string {
	if fwidth(ty) == 1 {
		return rtLeaf(ty)
	}
	return ty + "(" + rtLeaf(fscalar(ty)) + ")"
}

// ---------------------------------------------------------------------------
// expressions: returns text and whether it is NOT a constant expression

func (g *fgen) leaf(ty string) fval {
	vs := g.valsOf(ty)
	if len(vs) > 0 && g.chance(75, "leafv") {
		return vs[g.intn(len(vs), "leafi")]
	}
	if g.chance(30, "leafrt") && !g.localOnly {
		return fval{g.rt(ty), true}
	}
	n := fwidth(ty)
	if n == 1 {
		return fval{g.lit(ty), false}
	}
	if g.chance(30, "splat") {
		return fval{ty + "(" + g.lit(fscalar(ty)) + ")", false}
	}
	parts := make([]string, n)
	for i := range parts {
		parts[i] = g.lit(fscalar(ty))
	}
	return fval{ty + "(" + strings.Join(parts, ", ") + ")", false}
}

// bitcastArg: operand of a bitcast.  Known finding (tag
// forward-reference.bitcast): names used only inside bitcast<T>(…) are
// invisible to naga's declaration ordering, so with the tag on the operand
// names function-scope values only.
func (g *fgen) bitcastArg(ty string) fval {
	if g.is("forward-reference.bitcast") {
		g.localOnly = true
		defer func() { g.localOnly = false }()
		return g.leaf(ty) // a local, or a small literal (its bit pattern is a finite value of either type)
	}
	a := g.leaf(ty)
	if !a.rt && g.chance(50, "bcrt") {
		a = fval{g.rt(ty), true}
	}
	return a
}

// need makes sure at least one operand is a run-time value.
func (g *fgen) need(ty string, a *fval) {
	if !a.rt {
		*a = fval{g.rt(ty), true}
	}
}

func (g *fgen) expr(ty string, d int) fval {
	if d <= 0 {
		return g.leaf(ty)
	}
	s, n := fscalar(ty), fwidth(ty)
	r := g.intn(100, "ex")
	switch s {
	case "bool":
		if n > 1 {
			// vecN<bool>: comparison of vectors or constructor
			if r < 60 {
				k := g.pick("bvk", "f32", "i32", "u32")
				a, b := g.expr(fvec(n, k), d-1), g.expr(fvec(n, k), d-1)
				return fval{"(" + a.expr + " " + g.pick("cmp", "<", "<=", "==", "!=", ">", ">=") + " " + b.expr + ")", a.rt || b.rt}
			}
			return g.leaf(ty)
		}
		switch {
		case r < 45:
			k := g.pick("bk", "f32", "i32", "u32")
			a, b := g.expr(k, d-1), g.expr(k, d-1)
			g.class("expr:compare")
			return fval{"(" + a.expr + " " + g.pick("cmp", "<", "<=", "==", "!=", ">", ">=") + " " + b.expr + ")", a.rt || b.rt}
		case r < 65:
			a, b := g.expr("bool", d-1), g.expr("bool", d-1)
			g.class("expr:logic")
			return fval{"(" + a.expr + " " + g.pick("lop", "&&", "||") + " " + b.expr + ")", a.rt || b.rt}
		case r < 75:
			a := g.expr("bool", d-1)
			return fval{"(!" + a.expr + ")", a.rt}
		case r < 85 && !g.is("builtin.relational"):
			a := g.expr(fvec(2+g.intn(3, "aan"), "bool"), d-1)
			g.class("expr:all-any")
			return fval{g.pick("aa", "all", "any") + "(" + a.expr + ")", a.rt}
		}
		return g.leaf(ty)
	case "f32":
		switch {
		case r < 30:
			a, b := g.expr(ty, d-1), g.expr(ty, d-1)
			g.class("expr:float-arith")
			return fval{"(" + a.expr + " " + g.pick("fop", "+", "*") + " " + b.expr + ")", a.rt || b.rt}
		case r < 38:
			a, b := g.expr(ty, d-1), g.expr(ty, d-1)
			g.need(ty, &a)
			return fval{"(" + a.expr + " " + g.pick("fop2", "-", "/") + " " + b.expr + ")", true}
		case r < 43 && n > 1:
			// vector * scalar, scalar * vector
			a, b := g.expr(ty, d-1), g.expr("f32", d-1)
			g.need(ty, &a)
			if g.chance(50, "vs") {
				return fval{"(" + a.expr + " * " + b.expr + ")", true}
			}
			return fval{"(" + b.expr + " * " + a.expr + ")", true}
		case r < 62:
			a := g.expr(ty, d-1)
			g.need(ty, &a)
			fn := g.pick("f1", "abs", "floor", "ceil", "fract", "sin", "cos", "exp2", "sign", "saturate", "trunc", "round", "tanh", "sqrt", "inverseSqrt", "log2", "degrees", "radians")
			g.class("builtin:" + fn)
			return fval{fn + "(" + a.expr + ")", true}
		case r < 72:
			a, b := g.expr(ty, d-1), g.expr(ty, d-1)
			g.need(ty, &a)
			fn := g.pick("f2", "min", "max", "pow", "step", "atan2")
			g.class("builtin:" + fn)
			return fval{fn + "(" + a.expr + ", " + b.expr + ")", true}
		case r < 79:
			a, b, c := g.expr(ty, d-1), g.expr(ty, d-1), g.expr(ty, d-1)
			g.need(ty, &a)
			fn := g.pick("f3", "mix", "fma", "smoothstep", "clamp")
			g.class("builtin:" + fn)
			if fn == "clamp" || fn == "smoothstep" {
				// keep low <= high syntactically irrelevant: operands are run-time values
				g.need(ty, &b)
			}
			return fval{fn + "(" + a.expr + ", " + b.expr + ", " + c.expr + ")", true}
		case r < 84 && n == 1:
			// geometric reductions
			m := 2 + g.intn(3, "gn")
			a, b := g.expr(fvec(m, "f32"), d-1), g.expr(fvec(m, "f32"), d-1)
			g.need(fvec(m, "f32"), &a)
			fn := g.pick("geo", "dot", "distance", "length")
			g.class("builtin:" + fn)
			if fn == "length" {
				return fval{"length(" + a.expr + ")", true}
			}
			return fval{fn + "(" + a.expr + ", " + b.expr + ")", true}
		case r < 88 && n == 1:
			k := g.pick("cvk", "i32", "u32")
			a := g.expr(k, d-1)
			g.need(k, &a)
			g.class("expr:convert")
			return fval{"f32(" + a.expr + ")", true}
		case r < 91 && n == 1:
			a := g.bitcastArg(g.pick("bck", "i32", "u32"))
			g.class("expr:bitcast")
			return fval{"bitcast<f32>(" + a.expr + ")", a.rt}
		case r < 94 && n == 3:
			a, b := g.expr(ty, d-1), g.expr(ty, d-1)
			g.need(ty, &a)
			g.class("builtin:cross")
			return fval{"cross(" + a.expr + ", " + b.expr + ")", true}
		case r < 97 && n > 1:
			a := g.expr(ty, d-1)
			g.need(ty, &a)
			g.class("builtin:normalize")
			return fval{"normalize(" + a.expr + ")", true}
		}
	case "i32", "u32":
		switch {
		case r < 25:
			a, b := g.expr(ty, d-1), g.expr(ty, d-1)
			g.class("expr:int-arith")
			return fval{"(" + a.expr + " " + g.pick("iop", "+", "*") + " " + b.expr + ")", a.rt || b.rt}
		case r < 40:
			a, b := g.expr(ty, d-1), g.expr(ty, d-1)
			g.need(ty, &a)
			return fval{"(" + a.expr + " " + g.pick("iop2", "-", "&", "|", "^") + " " + b.expr + ")", true}
		case r < 48:
			a := g.expr(ty, d-1)
			g.need(ty, &a)
			dv := fmt.Sprintf("%d", 1+g.intn(9, "dv"))
			if s == "u32" {
				dv += "u"
			}
			if n > 1 {
				dv = ty + "(" + dv + ")"
			}
			return fval{"(" + a.expr + " " + g.pick("iop3", "/", "%") + " " + dv + ")", true}
		case r < 54:
			a := g.expr(ty, d-1)
			g.need(ty, &a)
			sh := fmt.Sprintf("%du", g.intn(32, "sh"))
			if n > 1 {
				sh = fvec(n, "u32") + "(" + sh + ")"
			}
			g.class("expr:shift")
			return fval{"(" + a.expr + " " + g.pick("shop", "<<", ">>") + " " + sh + ")", true}
		case r < 66:
			a := g.expr(ty, d-1)
			g.need(ty, &a)
			fns := []string{"countOneBits", "reverseBits", "countLeadingZeros", "countTrailingZeros", "firstLeadingBit", "firstTrailingBit"}
			if s == "i32" {
				fns = append(fns, "abs")
			}
			fn := fns[g.intn(len(fns), "i1")]
			g.class("builtin:" + fn)
			return fval{fn + "(" + a.expr + ")", true}
		case r < 74:
			a, b := g.expr(ty, d-1), g.expr(ty, d-1)
			g.need(ty, &a)
			fn := g.pick("i2", "min", "max")
			return fval{fn + "(" + a.expr + ", " + b.expr + ")", true}
		case r < 80 && n == 1:
			o := "u32"
			if s == "u32" {
				o = "i32"
			}
			a := g.expr(g.pick("icv", o, "f32"), d-1)
			if !a.rt {
				a = fval{"gpu", true}
			}
			g.class("expr:convert")
			return fval{s + "(" + a.expr + ")", true}
		case r < 84 && n == 1:
			a := g.bitcastArg("f32")
			g.class("expr:bitcast")
			return fval{"bitcast<" + s + ">(" + a.expr + ")", a.rt}
		case r < 88 && n == 1 && s == "u32":
			a := g.expr("vec4<f32>", d-1)
			g.need("vec4<f32>", &a)
			g.class("builtin:pack")
			return fval{g.pick("pk", "pack4x8unorm", "pack4x8snorm") + "(" + a.expr + ")", true}
		}
	}
	// generic productions
	r = g.intn(100, "exg")
	switch {
	case r < 18:
		c := g.expr("bool", d-1)
		a, b := g.expr(ty, d-1), g.expr(ty, d-1)
		g.need("bool", &c)
		g.class("builtin:select")
		return fval{"select(" + a.expr + ", " + b.expr + ", " + c.expr + ")", true}
	case r < 40 && n > 1:
		// constructor from scalars / smaller vectors
		var parts []string
		rt := false
		for left := n; left > 0; {
			w := 1
			if left >= 2 && n > 2 && g.chance(35, "chunk") {
				w = 2
			}
			a := g.expr(fvec(w, s), d-1)
			rt = rt || a.rt
			parts = append(parts, a.expr)
			left -= w
		}
		g.class("expr:vec-construct")
		ctor := ty
		if g.chance(20, "infer") && s != "bool" {
			ctor = fmt.Sprintf("vec%d", n) // inferred from concrete arguments
			g.class("expr:vec-construct-inferred")
		}
		return fval{ctor + "(" + strings.Join(parts, ", ") + ")", rt}
	case r < 55 && n == 1:
		// component of a vector value
		m := 2 + g.intn(3, "cn")
		a := g.expr(fvec(m, s), d-1)
		g.class("expr:component")
		if g.chance(70, "cswz") {
			return fval{a.expr + "." + string(g.pick("cset", "xyzw", "rgba")[g.intn(m, "ci")]), a.rt}
		}
		return fval{a.expr + fmt.Sprintf("[%d]", g.intn(m, "ci2")), a.rt}
	case r < 55 && n > 1:
		m := n + g.intn(5-n, "swm")
		a := g.expr(fvec(m, s), d-1)
		set := g.pick("sset", "xyzw", "rgba")
		sw := ""
		for i := 0; i < n; i++ {
			sw += string(set[g.intn(m, "swi")])
		}
		g.class("expr:swizzle")
		return fval{a.expr + "." + sw, a.rt}
	case r < 70:
		// helper call returning ty
		var c []fhelper
		for _, h := range g.helpers {
			if h.ret == ty && g.canCall(h) && !(h.mustUse && g.noMustUse) {
				c = append(c, h)
			}
		}
		if len(c) > 0 {
			return fval{g.call(c[g.intn(len(c), "hc")], d), true}
		}
	}
	return g.leaf(ty)
}

func (g *fgen) canCall(h fhelper) bool {
	if g.stage != "" && !strings.Contains(h.stages, g.stage[:1]) {
		return false
	}
	if g.stage == "" {
		// helper calling a helper: the callee must serve every stage of the caller
		for _, st := range g.hstages {
			if !strings.ContainsRune(h.stages, st) {
				return false
			}
		}
	}
	for _, r := range h.res {
		if !g.canUse(r) {
			return false
		}
	}
	return true
}

func (g *fgen) call(h fhelper, d int) string {
	g.class("call:helper")
	for _, r := range h.res {
		g.use(r)
	}
	args := make([]string, len(h.params))
	for i, p := range h.params {
		args[i] = g.expr(p, d-1).expr
	}
	return h.name + "(" + strings.Join(args, ", ") + ")"
}

// canUse: resource i may be used by the current entry point / helper.
func (g *fgen) canUse(i int) bool {
	r := g.res[i]
	if g.stage != "" && !strings.Contains(r.stages, g.stage[:1]) {
		return false
	}
	if g.used == nil {
		// helpers stay away from aliased bindings and only use what every stage they serve may use
		if r.aliasOf >= 0 || g.isAliased(i) {
			return false
		}
		for _, st := range g.hstages {
			if !strings.ContainsRune(r.stages, st) {
				return false
			}
		}
		for j := range g.hres {
			if j != i && g.res[j].group == r.group && g.res[j].binding == r.binding {
				return false
			}
		}
		return true
	}
	for j := range g.used {
		if j != i && g.res[j].group == r.group && g.res[j].binding == r.binding {
			return false
		}
	}
	return true
}

func (g *fgen) isAliased(i int) bool {
	for _, r := range g.res {
		if r.aliasOf == i {
			return true
		}
	}
	return false
}

func (g *fgen) use(i int) {
	if g.used != nil {
		g.used[i] = true
	}
	if g.hres != nil {
		g.hres[i] = true
	}
}

// ---------------------------------------------------------------------------
// statements

var fValTypes = []string{"f32", "f32", "i32", "u32", "bool", "vec2<f32>", "vec3<f32>", "vec4<f32>", "vec4<f32>", "vec2<i32>", "vec3<u32>", "vec4<i32>", "vec2<u32>"}

func (g *fgen) valType() string { return fValTypes[g.intn(len(fValTypes), "vty")] }

type fw struct {
	b   strings.Builder
	ind int
}

func (w *fw) line(f string, a ...any) {
	w.b.WriteString(strings.Repeat("  ", w.ind))
	fmt.Fprintf(&w.b, f, a...)
	w.b.WriteByte('\n')
}

func (g *fgen) exprDepth() int { return 1 + g.intn(3, "xd") }

func (g *fgen) stmts(w *fw, n int, nest int, inLoop bool, ret string) {
	for i := 0; i < n; i++ {
		g.stmt(w, nest, inLoop, ret)
	}
}

func (g *fgen) stmt(w *fw, nest int, inLoop bool, ret string) {
	if nest > g.maxNest {
		g.maxNest = nest
	}
	r := g.intn(100, "st")
	switch {
	case r < 22:
		ty := g.valType()
		nm := g.name("l")
		e := g.expr(ty, g.exprDepth())
		if g.chance(50, "ltyped") {
			w.line("let %s: %s = %s;", nm, ty, e.expr)
		} else {
			w.line("let %s = %s;", nm, e.expr)
		}
		g.addVal(ty, nm, true)
		g.class("stmt:let")
	case r < 36:
		ty := g.valType()
		nm := g.name("v")
		switch g.intn(3, "vk") {
		case 0:
			w.line("var %s: %s;", nm, ty)
		case 1:
			w.line("var %s: %s = %s;", nm, ty, g.expr(ty, g.exprDepth()).expr)
		default:
			w.line("var %s = %s;", nm, g.expr(ty, g.exprDepth()).expr)
		}
		g.addVar(ty, nm)
		g.class("stmt:var")
	case r < 50:
		ty := g.valType()
		vs := g.varsOf(ty)
		if len(vs) == 0 {
			g.stmtDecl(w)
			return
		}
		v := vs[g.intn(len(vs), "av")]
		if fscalar(ty) != "bool" && g.chance(35, "cmpd") {
			op := g.pick("cop", "+=", "-=", "*=")
			w.line("%s %s %s;", v, op, g.expr(ty, 2).expr)
			g.class("stmt:compound-assign")
		} else if fwidth(ty) > 1 && g.chance(30, "compw") {
			w.line("%s.%s = %s;", v, string("xyzw"[g.intn(fwidth(ty), "cw")]), g.expr(fscalar(ty), 2).expr)
			g.class("stmt:component-assign")
		} else {
			w.line("%s = %s;", v, g.expr(ty, g.exprDepth()).expr)
			g.class("stmt:assign")
		}
	case r < 60 && nest < 3:
		g.class("stmt:if")
		w.line("if %s {", g.expr("bool", g.exprDepth()).expr)
		g.block(w, 1+g.intn(3, "ifn"), nest+1, inLoop, ret)
		switch g.intn(3, "els") {
		case 1:
			w.line("} else {")
			g.block(w, 1+g.intn(2, "eln"), nest+1, inLoop, ret)
		case 2:
			w.line("} else if %s {", g.expr("bool", 1).expr)
			g.block(w, 1+g.intn(2, "ein"), nest+1, inLoop, ret)
		}
		w.line("}")
	case r < 67 && nest < 3:
		g.class("stmt:switch")
		k := g.pick("swk", "i32", "u32")
		suf := map[string]string{"i32": "i", "u32": "u"}[k]
		w.line("switch %s {", g.expr(k, 2).expr)
		w.ind++
		nc := 1 + g.intn(3, "swn")
		v := 0
		for c := 0; c < nc; c++ {
			sels := fmt.Sprintf("%d%s", v, suf)
			v++
			if g.chance(30, "sw2") {
				sels += fmt.Sprintf(", %d%s", v, suf)
				v++
			}
			w.line("case %s: {", sels)
			g.block(w, g.intn(3, "swb"), nest+1, inLoop, ret)
			if g.chance(35, "swbrk") {
				// break inside switch (exits the switch, also inside helpers)
				g.class("stmt:switch-break")
				w.ind++
				w.line("if %s { break; }", g.expr("bool", 1).expr)
				g.block2(w, 1, nest+1, inLoop, ret)
				w.ind--
			}
			w.line("}")
		}
		w.line("default: {")
		g.block(w, g.intn(2, "swd"), nest+1, inLoop, ret)
		w.line("}")
		w.ind--
		w.line("}")
	case r < 77 && nest < 3:
		ctr := g.name("it")
		bound := 1 + g.intn(4, "lb")
		switch g.intn(3, "lk") {
		case 0:
			g.class("stmt:for")
			w.line("for (var %s = 0u; %s < %du; %s++) {", ctr, ctr, bound, ctr)
			g.loopBody(w, ctr, nest, ret)
			w.line("}")
		case 1:
			g.class("stmt:while")
			w.line("var %s = 0i;", ctr)
			w.line("while %s < %di {", ctr, bound)
			w.ind++
			w.line("%s += 1i;", ctr)
			w.ind--
			g.loopBody(w, "", nest, ret)
			w.line("}")
		default:
			g.class("stmt:loop")
			w.line("var %s: u32 = 0u;", ctr)
			w.line("loop {")
			w.ind++
			w.line("if %s >= %du { break; }", ctr, bound)
			w.ind--
			g.loopBody(w, "", nest, ret)
			w.ind++
			w.line("continuing {")
			w.ind++
			w.line("%s = %s + 1u;", ctr, ctr)
			if g.chance(40, "bif") {
				g.class("stmt:break-if")
				w.line("break if %s == %du;", ctr, bound+1)
			}
			w.ind--
			w.line("}")
			w.ind--
			w.line("}")
		}
	case r < 81 && inLoop:
		g.class("stmt:break-continue")
		w.line("if %s { %s; }", g.expr("bool", 2).expr, g.pick("bc", "break", "continue"))
	case r < 84 && ret != "" && nest > 0:
		g.class("stmt:early-return")
		if ret == "-" {
			w.line("if %s { return; }", g.expr("bool", 2).expr)
		} else {
			w.line("if %s { return %s; }", g.expr("bool", 2).expr, g.expr(ret, 2).expr)
		}
	case r < 88 && nest < 3:
		// nested block shadowing an outer local or a module-scope name
		g.class("stmt:block-shadow")
		w.line("{")
		w.ind++
		g.push()
		ty := g.valType()
		vs := g.valsOf(ty)
		var cand []string
		for _, v := range vs {
			// an outer `let` / parameter / loop counter of this type (not an assignable variable, not a module-scope name)
			if isIdent(v.expr) && !g.isVarName(v.expr) && !g.isGlobalName(v.expr) && !strings.HasPrefix(v.expr, "gp") && !strings.HasPrefix(v.expr, "ov_") {
				cand = append(cand, v.expr)
			}
		}
		mark := len(g.hidden)
		if len(cand) > 0 && g.chance(60, "shl") {
			nm := cand[g.intn(len(cand), "shn")]
			w.line("let %s = %s;", nm, g.expr(ty, 2).expr) // the initialiser still sees the outer declaration
			g.class("shadow:local")
		} else if len(g.globals) > 0 && !g.is("shadow.module-scope") {
			nm := g.globals[g.intn(len(g.globals), "shg")]
			// prefer a module-scope value of type ty: its shadowing declaration can then be
			// initialised from the very name it shadows (let x = x; var x = x;)
			var same []string
			for _, v := range vs {
				if isIdent(v.expr) && g.isGlobalName(v.expr) && !g.hiddenIn(v.expr) {
					same = append(same, v.expr)
				}
			}
			self := false
			if len(same) > 0 && g.chance(60, "shself") {
				nm, self = same[g.intn(len(same), "shsn")], true
			}
			if !g.hiddenIn(nm) {
				kw := "let"
				if g.chance(50, "shvar") {
					kw = "var"
				}
				if self {
					g.class("shadow:module-scope:init-reads-shadowed-name")
					w.line("%s %s = %s;", kw, nm, nm)
				} else {
					w.line("%s %s = %s;", kw, nm, g.expr(ty, 2).expr)
				}
				g.hidden = append(g.hidden, nm)
				g.addVal(ty, nm, true)
				g.class("shadow:module-scope")
			}
		}
		g.stmts(w, 1+g.intn(2, "bsn"), nest, inLoop, ret)
		g.pop()
		g.hidden = g.hidden[:mark]
		w.ind--
		w.line("}")
	case r < 92:
		g.class("stmt:phony")
		w.line("_ = %s;", g.expr(g.valType(), g.exprDepth()).expr)
	case r < 96:
		// call statement of a helper (value discarded through phony when it returns one)
		if len(g.helpers) > 0 {
			h := g.helpers[g.intn(len(g.helpers), "hs")]
			if g.canCall(h) {
				if h.ret == "" {
					g.noMustUse = g.is("must_use.call-arg")
					w.line("%s;", g.call(h, 2))
					g.noMustUse = false
				} else {
					w.line("_ = %s;", g.call(h, 2))
				}
				return
			}
		}
		g.stmtDecl(w)
	default:
		g.resourceStmt(w)
	}
}

func isIdent(s string) bool {
	for _, r := range s {
		if !(r == '_' || r >= 'a' && r <= 'z' || r >= 'A' && r <= 'Z' || r >= '0' && r <= '9') {
			return false
		}
	}
	return s != ""
}

func (g *fgen) isGlobalName(n string) bool {
	for _, x := range g.globals {
		if x == n {
			return true
		}
	}
	return false
}

func (g *fgen) stmtDecl(w *fw) {
	ty := g.valType()
	nm := g.name("l")
	w.line("let %s = %s;", nm, g.expr(ty, g.exprDepth()).expr)
	g.addVal(ty, nm, true)
}

func (g *fgen) block(w *fw, n, nest int, inLoop bool, ret string) {
	w.ind++
	g.block2(w, n, nest, inLoop, ret)
	w.ind--
}

func (g *fgen) block2(w *fw, n, nest int, inLoop bool, ret string) {
	g.push()
	g.stmts(w, n, nest, inLoop, ret)
	g.pop()
}

func (g *fgen) loopBody(w *fw, ctr string, nest int, ret string) {
	w.ind++
	g.push()
	if ctr != "" {
		g.addVal("u32", ctr, true)
	}
	g.stmts(w, 1+g.intn(3, "lbn"), nest+1, true, ret)
	g.pop()
	w.ind--
}

// ---------------------------------------------------------------------------
// resources

func (g *fgen) addRes(r fres) int {
	r.aliasOf = -1
	g.res = append(g.res, r)
	return len(g.res) - 1
}

func (g *fgen) resDecl(r fres) string {
	switch r.kind {
	case "uniform":
		return fmt.Sprintf("@group(%d) @binding(%d) var<uniform> %s: %s;", r.group, r.binding, r.name, r.decl)
	case "storage-r":
		return fmt.Sprintf("@group(%d) @binding(%d) var<storage, read> %s: %s;", r.group, r.binding, r.name, r.decl)
	case "storage-rw", "atomic":
		return fmt.Sprintf("@group(%d) @binding(%d) var<storage, read_write> %s: %s;", r.group, r.binding, r.name, r.decl)
	}
	return fmt.Sprintf("@group(%d) @binding(%d) var %s: %s;", r.group, r.binding, r.name, r.decl)
}

func (g *fgen) makeResources() {
	g.decls = append(g.decls,
		"struct Params {\n  f: f32,\n  i: i32,\n  u: u32,\n  v: Vec4,\n  m: mat4x4<f32>,\n  arr: array<vec4<u32>, 3>,\n}",
		"struct SOut {\n  a: vec4<f32>,\n  n: u32,\n  arr: array<f32, 4>,\n}",
		"struct Counters {\n  a: atomic<u32>,\n  b: atomic<i32>,\n  arr: array<atomic<u32>, 4>,\n}",
		"struct RTail {\n  count: u32,\n  items: array<vec2<f32>>,\n}")
	b := 0
	nb := func() int { b++; return b - 1 }
	g.addRes(fres{name: "params", kind: "uniform", decl: "Params", group: 0, binding: nb(), stages: "vfc"})
	if g.chance(60, "r-sr") {
		if g.chance(50, "r-srk") {
			g.addRes(fres{name: "sdata", kind: "storage-r", decl: "array<vec4<f32>>", group: 0, binding: nb(), stages: "vfc"})
		} else {
			g.addRes(fres{name: "sdata", kind: "storage-r", decl: "RTail", dim: "tail", group: 0, binding: nb(), stages: "vfc"})
		}
	}
	if g.chance(60, "r-srw") {
		g.addRes(fres{name: "sout", kind: "storage-rw", decl: "SOut", group: 0, binding: nb(), stages: "fc"})
	}
	if g.chance(50, "r-at") && !g.is("atomics") {
		g.addRes(fres{name: "counters", kind: "atomic", decl: "Counters", group: 0, binding: nb(), stages: "fc"})
	}
	if g.is("textures") {
		return
	}
	b = 0
	g.addRes(fres{name: "samp", kind: "samp", decl: "sampler", group: 1, binding: nb(), stages: "vfc"})
	if g.chance(50, "r-s2") && !g.is("sampler.second") {
		// a second sampler of the same kind: one texture may then be sampled through both
		g.addRes(fres{name: "samp_b", kind: "samp", decl: "sampler", group: 1, binding: nb(), stages: "vfc"})
	}
	if g.chance(50, "r-sc") {
		g.addRes(fres{name: "samp_cmp", kind: "samp-cmp", decl: "sampler_comparison", group: 1, binding: nb(), stages: "vfc"})
	}
	tex := func(p int, l string, r fres) {
		if g.chance(p, l) && !g.is("texture."+r.kind+"."+r.dim) {
			r.group, r.binding = 1, nb()
			g.addRes(r)
		}
	}
	tex(70, "r-t2", fres{name: "tex2d", kind: "tex", dim: "2d", sty: "f32", decl: "texture_2d<f32>", stages: "vfc"})
	it := g.pick("r-t2ik", "i32", "u32")
	tex(40, "r-t2i", fres{name: "tex2di", kind: "tex", dim: "2d", sty: it, decl: "texture_2d<" + it + ">", stages: "vfc"})
	tex(35, "r-t2a", fres{name: "tex2da", kind: "tex", dim: "2d_array", sty: "f32", decl: "texture_2d_array<f32>", stages: "vfc"})
	tex(35, "r-t3", fres{name: "tex3d", kind: "tex", dim: "3d", sty: "f32", decl: "texture_3d<f32>", stages: "vfc"})
	tex(35, "r-tc", fres{name: "texcube", kind: "tex", dim: "cube", sty: "f32", decl: "texture_cube<f32>", stages: "vfc"})
	tex(25, "r-t1", fres{name: "tex1d", kind: "tex", dim: "1d", sty: "f32", decl: "texture_1d<f32>", stages: "vfc"})
	tex(40, "r-td", fres{name: "texdepth", kind: "depth", dim: "2d", sty: "f32", decl: "texture_depth_2d", stages: "vfc"})
	tex(25, "r-tda", fres{name: "texdeptha", kind: "depth", dim: "2d_array", sty: "f32", decl: "texture_depth_2d_array", stages: "vfc"})
	tex(25, "r-tdc", fres{name: "texdepthc", kind: "depth", dim: "cube", sty: "f32", decl: "texture_depth_cube", stages: "vfc"})
	tex(35, "r-tms", fres{name: "texms", kind: "ms", dim: "2d", sty: "f32", decl: "texture_multisampled_2d<f32>", stages: "vfc"})
	tex(25, "r-tdms", fres{name: "texdepthms", kind: "ms", dim: "depth", sty: "f32", decl: "texture_depth_multisampled_2d", stages: "vfc"})
	fmts := [][2]string{{"rgba8unorm", "f32"}, {"rgba32float", "f32"}, {"r32uint", "u32"}, {"rgba16sint", "i32"}, {"r32float", "f32"}, {"rgba8uint", "u32"}}
	f1 := fmts[g.intn(len(fmts), "r-sf")]
	tex(45, "r-stw", fres{name: "stex_w", kind: "stex-w", dim: "2d", sty: f1[1], decl: "texture_storage_2d<" + f1[0] + ", write>", stages: "fc"})
	f2 := fmts[g.intn(len(fmts), "r-sf2")]
	sd := g.pick("r-sdim", "1d", "2d_array", "3d")
	tex(30, "r-stw2", fres{name: "stex_w2", kind: "stex-w", dim: sd, sty: f2[1], decl: "texture_storage_" + sd + "<" + f2[0] + ", write>", stages: "fc"})
	f3 := [][2]string{{"r32uint", "u32"}, {"r32float", "f32"}, {"r32sint", "i32"}}[g.intn(3, "r-sf3")]
	tex(30, "r-strw", fres{name: "stex_rw", kind: "stex-rw", dim: "2d", sty: f3[1], decl: "texture_storage_2d<" + f3[0] + ", read_write>", stages: "fc"})
	f4 := fmts[g.intn(len(fmts), "r-sf4")]
	tex(30, "r-str", fres{name: "stex_r", kind: "stex-r", dim: "2d", sty: f4[1], decl: "texture_storage_2d<" + f4[0] + ", read>", stages: "fc"})
}

// makeAliases adds variables that reuse the @group/@binding of another
// resource; no entry point uses both (enforced by canUse).
func (g *fgen) makeAliases() {
	if g.is("binding.alias-across-entry-points") {
		return
	}
	n := len(g.res)
	for i := 0; i < n; i++ {
		if !g.chance(20, "alias") {
			continue
		}
		r := g.res[i]
		a := fres{group: r.group, binding: r.binding, aliasOf: i}
		switch g.intn(4, "aliask") {
		case 0:
			a.name, a.kind, a.decl, a.stages = g.name("alt_u"), "uniform", "Params", "vfc"
		case 1:
			a.name, a.kind, a.decl, a.stages = g.name("alt_s"), "storage-r", "array<vec4<f32>>", "vfc"
		case 2:
			a.name, a.kind, a.decl, a.stages = g.name("alt_w"), "storage-rw", "SOut", "fc"
		default:
			if g.is("textures") {
				continue
			}
			a.name, a.kind, a.dim, a.sty, a.decl, a.stages = g.name("alt_t"), "tex", "2d", "f32", "texture_2d<f32>", "vfc"
		}
		g.res = append(g.res, a)
		g.class("binding:aliased-across-entry-points")
	}
}

// usable lists the resources of the given kinds the current function may use.
func (g *fgen) usable(kinds ...string) []int {
	var out []int
	for i, r := range g.res {
		for _, k := range kinds {
			if r.kind == k && g.canUse(i) {
				out = append(out, i)
			}
		}
	}
	return out
}

func (g *fgen) pickRes(l string, kinds ...string) int {
	c := g.usable(kinds...)
	if len(c) == 0 {
		return -1
	}
	i := c[g.intn(len(c), l)]
	g.use(i)
	return i
}

func (g *fgen) coordF(dim string) string {
	switch dim {
	case "1d":
		return g.expr("f32", 2).expr
	case "3d", "cube", "cube_array":
		return g.expr("vec3<f32>", 2).expr
	}
	return g.expr("vec2<f32>", 2).expr
}

func (g *fgen) coordI(dim string) string {
	k := g.pick("cik", "i32", "u32")
	switch dim {
	case "1d":
		return g.expr(k, 2).expr
	case "3d":
		return g.expr(fvec(3, k), 2).expr
	}
	return g.expr(fvec(2, k), 2).expr
}

func (g *fgen) intArg() string { return g.expr(g.pick("iak", "i32", "u32"), 1).expr }

func dimsType(dim string) string {
	switch dim {
	case "1d":
		return "u32"
	case "3d":
		return "vec3<u32>"
	}
	return "vec2<u32>"
}

// resourceStmt emits one statement using a resource (stage rules respected;
// nothing here needs uniform control flow).
func (g *fgen) resourceStmt(w *fw) {
	let := func(ty, e string) {
		nm := g.name("r")
		w.line("let %s = %s;", nm, e)
		g.addVal(ty, nm, true)
	}
	switch g.intn(12, "rs") {
	case 0:
		if i := g.pickRes("ru", "uniform"); i >= 0 {
			n := g.res[i].name
			g.class("resource:uniform")
			switch g.intn(5, "ruk") {
			case 0:
				let("vec4<f32>", n+".v")
			case 1:
				let("vec4<f32>", "("+n+".m * "+g.expr("vec4<f32>", 2).expr+")")
			case 2:
				let("u32", n+".arr["+fmt.Sprint(g.intn(3, "rua"))+"]."+g.pick("ruc", "x", "y", "z", "w"))
			case 3:
				let("f32", "("+n+".f + f32("+n+".i))")
			default:
				let("vec4<u32>", n+".arr["+g.expr("u32", 1).expr+" % 3u]")
			}
			return
		}
	case 1:
		if i := g.pickRes("rsr", "storage-r"); i >= 0 {
			r := g.res[i]
			g.class("resource:storage-read")
			if r.dim == "tail" {
				let("vec2<f32>", fmt.Sprintf("%s.items[%s %% max(arrayLength(&%s.items), 1u)]", r.name, g.expr("u32", 1).expr, r.name))
				let("u32", r.name+".count")
			} else {
				let("vec4<f32>", fmt.Sprintf("%s[%s %% max(arrayLength(&%s), 1u)]", r.name, g.expr("u32", 1).expr, r.name))
			}
			return
		}
	case 2:
		if i := g.pickRes("rsw", "storage-rw"); i >= 0 {
			n := g.res[i].name
			g.class("resource:storage-write")
			switch g.intn(4, "rswk") {
			case 0:
				w.line("%s.a = %s;", n, g.expr("vec4<f32>", 2).expr)
			case 1:
				w.line("%s.n += %s;", n, g.expr("u32", 1).expr)
			case 2:
				w.line("%s.arr[%d] = %s;", n, g.intn(4, "rswi"), g.expr("f32", 2).expr)
			default:
				w.line("%s.arr[%s %% 4u] *= %s;", n, g.expr("u32", 1).expr, g.expr("f32", 1).expr)
			}
			return
		}
	case 3:
		if i := g.pickRes("rat", "atomic"); i >= 0 {
			n := g.res[i].name
			g.useAt = true
			g.atomicStmt(w, "&"+n+".a", "&"+n+".b", fmt.Sprintf("&%s.arr[%d]", n, g.intn(4, "rati")), "storage")
			return
		}
	case 4, 5:
		if g.textureStmt(w) {
			return
		}
	case 6:
		if g.stage == "compute" || (g.stage == "" && g.hstages == "c") {
			if !g.is("atomics") {
				g.useAt = true
				g.needWg = true
				g.atomicStmt(w, "&wg_counter", "&wg_signed", fmt.Sprintf("&wg_arr[%d]", g.intn(4, "wati")), "workgroup")
				return
			}
		}
	case 7:
		if g.stage == "compute" {
			g.needWg = true
			g.class("resource:workgroup-var")
			w.line("wg_data[%s %% 8u] = %s;", g.expr("u32", 1).expr, g.expr("f32", 2).expr)
			return
		}
	case 8:
		// texture / sampler passed to a helper as parameters
		if !g.is("fn.handle-param") && g.hasTexHelper {
			t, s := g.usable("tex"), g.usable("samp")
			var t2 []int
			for _, i := range t {
				if g.res[i].dim == "2d" && g.res[i].sty == "f32" {
					t2 = append(t2, i)
				}
			}
			if len(t2) > 0 && len(s) > 0 {
				ti, si := t2[g.intn(len(t2), "thp")], s[0]
				// a texture and a sampler on distinct bindings
				g.use(ti)
				if g.canUse(si) {
					g.use(si)
					g.useTex = true
					g.class("call:handle-params")
					let("vec4<f32>", fmt.Sprintf("sample_lod(%s, %s, %s)", g.res[ti].name, g.res[si].name, g.expr("vec2<f32>", 2).expr))
					return
				}
			}
		}
	}
	g.stmtDecl(w)
}

func (g *fgen) atomicStmt(w *fw, pu, pi, parr, space string) {
	g.class("atomic:" + space)
	g.noMustUse = g.is("must_use.call-arg") // results of the call statements below are discarded
	defer func() { g.noMustUse = false }()
	switch g.intn(7, "atk") {
	case 0:
		w.line("atomicAdd(%s, %s);", pu, g.expr("u32", 1).expr)
	case 1:
		nm := g.name("a")
		w.line("let %s = atomicLoad(%s);", nm, pi)
		g.addVal("i32", nm, true)
	case 2:
		w.line("atomicStore(%s, %s);", parr, g.expr("u32", 1).expr)
	case 3:
		nm := g.name("a")
		w.line("let %s = %s(%s, %s);", nm, g.pick("atf", "atomicMax", "atomicMin", "atomicAnd", "atomicOr", "atomicXor", "atomicSub", "atomicExchange"), pi, g.expr("i32", 1).expr)
		g.addVal("i32", nm, true)
	case 4:
		w.line("%s(%s, %s);", g.pick("atf2", "atomicMax", "atomicMin", "atomicAnd", "atomicOr", "atomicXor", "atomicSub"), parr, g.expr("u32", 1).expr)
	case 5:
		if !g.is("atomic.compare-exchange") {
			nm := g.name("a")
			g.class("atomic:compare-exchange")
			w.line("let %s = atomicCompareExchangeWeak(%s, %s, %s);", nm, pu, g.expr("u32", 1).expr, g.expr("u32", 1).expr)
			g.addVal("u32", nm+".old_value", true)
			g.addVal("bool", nm+".exchanged", true)
			return
		}
		fallthrough
	default:
		nm := g.name("a")
		w.line("let %s = atomicAdd(%s, %s);", nm, pu, g.expr("u32", 1).expr)
		g.addVal("u32", nm, true)
	}
}

// textureStmt emits a texture builtin that is valid in any stage and any control flow.
func (g *fgen) textureStmt(w *fw) bool {
	let := func(ty, e string) {
		nm := g.name("t")
		w.line("let %s = %s;", nm, e)
		g.addVal(ty, nm, true)
		g.useTex = true
	}
	ti := g.pickRes("tx", "tex", "depth", "ms", "stex-w", "stex-r", "stex-rw")
	if ti < 0 {
		return false
	}
	t := g.res[ti]
	vt := "vec4<" + t.sty + ">"
	g.class("texture:" + t.kind + ":" + t.dim)
	arr := strings.HasSuffix(t.dim, "_array")
	switch t.kind {
	case "stex-w", "stex-rw", "stex-r":
		if t.kind != "stex-w" && g.chance(50, "stld") {
			g.class("texture-builtin:textureLoad(storage)")
			let(vt, fmt.Sprintf("textureLoad(%s, %s)", t.name, g.coordI(t.dim)))
			return true
		}
		if t.kind == "stex-r" || g.chance(25, "stdim") {
			g.class("texture-builtin:textureDimensions")
			let(dimsType(t.dim), "textureDimensions("+t.name+")")
			return true
		}
		g.class("texture-builtin:textureStore")
		g.useTex = true
		g.noMustUse = g.is("must_use.call-arg")
		defer func() { g.noMustUse = false }()
		if arr {
			w.line("textureStore(%s, %s, %s, %s);", t.name, g.coordI(t.dim), g.intArg(), g.expr(vt, 2).expr)
		} else {
			w.line("textureStore(%s, %s, %s);", t.name, g.coordI(t.dim), g.expr(vt, 2).expr)
		}
		return true
	case "ms":
		switch g.intn(3, "msk") {
		case 0:
			g.class("texture-builtin:textureLoad(ms)")
			if t.dim == "depth" {
				let("f32", fmt.Sprintf("textureLoad(%s, %s, %s)", t.name, g.coordI("2d"), g.intArg()))
			} else {
				let(vt, fmt.Sprintf("textureLoad(%s, %s, %s)", t.name, g.coordI("2d"), g.intArg()))
			}
		case 1:
			g.class("texture-builtin:textureNumSamples")
			let("u32", "textureNumSamples("+t.name+")")
		default:
			g.class("texture-builtin:textureDimensions")
			let("vec2<u32>", "textureDimensions("+t.name+")")
		}
		return true
	}
	// sampled / depth textures: queries, loads, explicit-LOD sampling, gathers
	k := g.intn(8, "txk")
	switch {
	case k == 0:
		g.class("texture-builtin:textureDimensions")
		if g.chance(50, "dimlvl") {
			let(dimsType(t.dim), fmt.Sprintf("textureDimensions(%s, %s)", t.name, g.intArg()))
		} else {
			let(dimsType(t.dim), "textureDimensions("+t.name+")")
		}
		return true
	case k == 1:
		g.class("texture-builtin:textureNumLevels")
		let("u32", "textureNumLevels("+t.name+")")
		return true
	case k == 2 && arr:
		g.class("texture-builtin:textureNumLayers")
		let("u32", "textureNumLayers("+t.name+")")
		return true
	case k <= 3 && t.dim != "cube":
		g.class("texture-builtin:textureLoad")
		rt := vt
		if t.kind == "depth" {
			rt = "f32"
		}
		if arr {
			let(rt, fmt.Sprintf("textureLoad(%s, %s, %s, %s)", t.name, g.coordI("2d"), g.intArg(), g.intArg()))
		} else {
			let(rt, fmt.Sprintf("textureLoad(%s, %s, %s)", t.name, g.coordI(t.dim), g.intArg()))
		}
		return true
	}
	if t.sty != "f32" {
		// integer textures cannot be sampled; gather works with a sampler
		si := g.pickRes("txs", "samp")
		if si < 0 || t.dim != "2d" {
			return false
		}
		g.class("texture-builtin:textureGather")
		let(vt, fmt.Sprintf("textureGather(%d, %s, %s, %s)", g.intn(4, "gc"), t.name, g.res[si].name, g.coordF("2d")))
		return true
	}
	off := ""
	if (t.dim == "2d" || t.dim == "2d_array") && g.chance(30, "off") {
		off = fmt.Sprintf(", vec2<i32>(%d, %d)", g.intn(8, "ox"), g.intn(16, "oy")-8)
		g.class("texture:const-offset")
	}
	ai := ""
	if arr {
		ai = ", " + g.intArg()
	}
	if t.kind == "depth" {
		if g.chance(50, "dcmp") {
			si := g.pickRes("txsc", "samp-cmp")
			if si < 0 {
				return false
			}
			if t.dim == "2d" && g.chance(40, "dgc") {
				g.class("texture-builtin:textureGatherCompare")
				let("vec4<f32>", fmt.Sprintf("textureGatherCompare(%s, %s, %s, %s%s)", t.name, g.res[si].name, g.coordF(t.dim), g.expr("f32", 1).expr, off))
				return true
			}
			g.class("texture-builtin:textureSampleCompareLevel")
			let("f32", fmt.Sprintf("textureSampleCompareLevel(%s, %s, %s%s, %s%s)", t.name, g.res[si].name, g.coordF(t.dim), ai, g.expr("f32", 1).expr, off))
			return true
		}
		si := g.pickRes("txs", "samp")
		if si < 0 {
			return false
		}
		if t.dim == "2d" && g.chance(40, "dg") {
			g.class("texture-builtin:textureGather(depth)")
			let("vec4<f32>", fmt.Sprintf("textureGather(%s, %s, %s%s)", t.name, g.res[si].name, g.coordF(t.dim), off))
			return true
		}
		g.class("texture-builtin:textureSampleLevel(depth)")
		let("f32", fmt.Sprintf("textureSampleLevel(%s, %s, %s%s, %s%s)", t.name, g.res[si].name, g.coordF(t.dim), ai, g.intArg(), off))
		return true
	}
	si := g.pickRes("txs", "samp")
	if si < 0 {
		return false
	}
	s := g.res[si].name
	if t.dim == "1d" {
		g.class("texture-builtin:textureSampleLevel")
		let(vt, fmt.Sprintf("textureSampleLevel(%s, %s, %s, %s)", t.name, s, g.coordF("1d"), g.expr("f32", 1).expr))
		return true
	}
	switch g.intn(4, "smk") {
	case 0:
		g.class("texture-builtin:textureSampleGrad")
		d := "vec2<f32>"
		if t.dim == "3d" || t.dim == "cube" {
			d = "vec3<f32>"
			off = ""
		}
		let(vt, fmt.Sprintf("textureSampleGrad(%s, %s, %s%s, %s, %s%s)", t.name, s, g.coordF(t.dim), ai, g.expr(d, 1).expr, g.expr(d, 1).expr, off))
	case 1:
		if t.dim == "2d" || t.dim == "2d_array" || t.dim == "cube" {
			g.class("texture-builtin:textureGather")
			let(vt, fmt.Sprintf("textureGather(%d, %s, %s, %s%s%s)", g.intn(4, "gc"), t.name, s, g.coordF(t.dim), ai, off))
			return true
		}
		fallthrough
	case 2:
		if t.dim == "2d" && !g.is("texture.sample-base-clamp-to-edge") && g.chance(50, "bcte") {
			g.class("texture-builtin:textureSampleBaseClampToEdge")
			let(vt, fmt.Sprintf("textureSampleBaseClampToEdge(%s, %s, %s)", t.name, s, g.coordF("2d")))
			return true
		}
		fallthrough
	default:
		g.class("texture-builtin:textureSampleLevel")
		let(vt, fmt.Sprintf("textureSampleLevel(%s, %s, %s%s, %s%s)", t.name, s, g.coordF(t.dim), ai, g.expr("f32", 1).expr, off))
	}
	return true
}

// fragPrologue: builtins that need uniform control flow, fragment stage only.
func (g *fgen) fragPrologue(w *fw) {
	let := func(ty, e string) {
		nm := g.name("q")
		w.line("let %s = %s;", nm, e)
		g.addVal(ty, nm, true)
	}
	for i, n := 0, g.intn(4, "fpn"); i < n; i++ {
		switch g.intn(5, "fpk") {
		case 0:
			if g.is("derivatives") {
				continue
			}
			ty := g.pick("dty", "f32", "vec2<f32>", "vec3<f32>", "vec4<f32>")
			a := g.expr(ty, 2)
			g.need(ty, &a)
			fn := g.pick("dfn", "dpdx", "dpdy", "fwidth", "dpdxCoarse", "dpdyCoarse", "fwidthCoarse", "dpdxFine", "dpdyFine", "fwidthFine")
			g.class("derivative:" + fn)
			let(ty, fn+"("+a.expr+")")
		default:
			c := g.usable("tex", "depth")
			var cand []int
			for _, i := range c {
				if g.res[i].sty == "f32" && g.res[i].dim != "1d" || g.res[i].kind == "depth" {
					cand = append(cand, i)
				}
			}
			if len(cand) == 0 {
				continue
			}
			ti := cand[g.intn(len(cand), "fpt")]
			t := g.res[ti]
			g.use(ti)
			ai := ""
			if strings.HasSuffix(t.dim, "_array") {
				ai = ", " + g.intArg()
			}
			off := ""
			if (t.dim == "2d" || t.dim == "2d_array") && g.chance(25, "fpoff") {
				off = fmt.Sprintf(", vec2<i32>(%d, %d)", g.intn(8, "ox"), g.intn(16, "oy")-8)
			}
			g.useTex = true
			if t.kind == "depth" && g.chance(50, "fpcmp") {
				si := g.pickRes("fpsc", "samp-cmp")
				if si < 0 {
					continue
				}
				g.class("texture-builtin:textureSampleCompare")
				let("f32", fmt.Sprintf("textureSampleCompare(%s, %s, %s%s, %s%s)", t.name, g.res[si].name, g.coordF(t.dim), ai, g.expr("f32", 1).expr, off))
				continue
			}
			si := g.pickRes("fps", "samp")
			if si < 0 {
				continue
			}
			rt := "vec4<f32>"
			if t.kind == "depth" {
				rt = "f32"
			}
			if t.kind == "tex" && g.chance(30, "fpbias") {
				g.class("texture-builtin:textureSampleBias")
				let(rt, fmt.Sprintf("textureSampleBias(%s, %s, %s%s, %s%s)", t.name, g.res[si].name, g.coordF(t.dim), ai, g.expr("f32", 1).expr, off))
				continue
			}
			g.class("texture-builtin:textureSample")
			let(rt, fmt.Sprintf("textureSample(%s, %s, %s%s%s)", t.name, g.res[si].name, g.coordF(t.dim), ai, off))
		}
	}
}

func (g *fgen) computePrologue(w *fw) {
	for i, n := 0, g.intn(3, "cpn"); i < n; i++ {
		switch g.intn(4, "cpk") {
		case 0:
			g.class("barrier:workgroup")
			w.line("workgroupBarrier();")
		case 1:
			g.class("barrier:storage")
			w.line("storageBarrier();")
		case 2:
			if !g.is("workgroupUniformLoad") {
				g.needWg = true
				g.class("builtin:workgroupUniformLoad")
				nm := g.name("wul")
				w.line("let %s = workgroupUniformLoad(&wg_flag);", nm)
				g.addVal("u32", nm, true)
			}
		default:
			if !g.is("barrier.texture") && len(g.usable("stex-rw")) > 0 {
				g.class("barrier:texture")
				w.line("textureBarrier();")
			}
		}
	}
}

// ---------------------------------------------------------------------------
// helpers

func (g *fgen) helper() {
	h := fhelper{name: g.name("helper_")}
	g.hstages = g.pick("hst", "vfc", "vfc", "fc", "c", "f")
	h.stages = g.hstages
	g.stage, g.used, g.hres = "", nil, map[int]bool{}
	np := g.intn(4, "hnp")
	var ps []string
	g.push()
	for i := 0; i < np; i++ {
		ty := g.valType()
		nm := g.name("p")
		h.params = append(h.params, ty)
		ps = append(ps, nm+": "+ty)
		g.addVal(ty, nm, true)
	}
	if g.chance(80, "hret") {
		h.ret = g.valType()
	}
	w := &fw{ind: 1}
	ret := h.ret
	if ret == "" {
		ret = "-"
	}
	g.stmts(w, 1+g.intn(5, "hn"), 0, false, ret)
	if h.ret != "" {
		w.line("return %s;", g.expr(h.ret, g.exprDepth()).expr)
	}
	g.pop()
	for i := range g.hres {
		h.res = append(h.res, i)
	}
	sort.Ints(h.res)
	g.hres = nil
	sig := "fn " + h.name + "(" + strings.Join(ps, ", ") + ")"
	if h.ret != "" {
		if g.chance(20, "hmu") && !g.is("must_use") {
			sig = "@must_use " + sig
			h.mustUse = true
		}
		sig += " -> " + h.ret
	}
	g.decls = append(g.decls, sig+" {\n"+w.b.String()+"}")
	g.fnText[h.name] = sig + " {\n" + w.b.String() + "}"
	g.helpers = append(g.helpers, h)
	g.c.Helpers++
}

// ---------------------------------------------------------------------------
// entry points

var fIOTypes = []string{"f32", "vec2<f32>", "vec3<f32>", "vec4<f32>", "i32", "u32", "vec2<u32>", "vec4<i32>", "vec3<f32>", "vec4<f32>"}

func (g *fgen) interp(ty string, output bool) string {
	isInt := fscalar(ty) != "f32"
	if isInt {
		if g.chance(40, "flat2") {
			if g.is("interpolate.flat-first") || g.chance(60, "fle") {
				return "@interpolate(flat, either) "
			}
			g.class("interpolate:flat-first")
			return "@interpolate(flat, first) "
		}
		return "@interpolate(flat) "
	}
	switch g.intn(8, "interp") {
	case 0:
		return "@interpolate(perspective) "
	case 1:
		return "@interpolate(linear) "
	case 2:
		return "@interpolate(perspective, " + g.pick("isamp", "center", "centroid", "sample") + ") "
	case 3:
		return "@interpolate(linear, " + g.pick("isamp", "center", "centroid", "sample") + ") "
	case 4:
		return "@interpolate(flat) "
	}
	return ""
}

// ioMembers draws n location-bound members; returns "attr name: type" items and registers values.
func (g *fgen) ioMembers(prefix string, n int, interp bool, startLoc int) (items []string, names []string, types []string) {
	loc := startLoc
	for i := 0; i < n; i++ {
		ty := fIOTypes[g.intn(len(fIOTypes), "ioty")]
		nm := g.name(prefix)
		attr := fmt.Sprintf("@location(%d) ", loc)
		loc += 1 + g.intn(2, "locgap")
		if interp {
			if ia := g.interp(ty, true); ia != "" && g.chance(50, "attrorder") {
				// attributes may come in any order
				g.class("io:interpolate-before-location")
				attr = ia + attr
			} else {
				attr += ia
			}
		}
		items = append(items, attr+nm+": "+ty)
		names = append(names, nm)
		types = append(types, ty)
	}
	return
}

func (g *fgen) entry(stage string, idx int) {
	name := fmt.Sprintf("%s_main%d", stage[:1], idx)
	g.stage, g.used, g.hres, g.hstages = stage, map[int]bool{}, nil, ""
	g.push()
	w := &fw{ind: 1}
	var params []string
	retDecl, retExpr := "", ""
	structIn := g.chance(50, "sin")
	switch stage {
	case "vertex":
		items, names, types := g.ioMembers("a", g.intn(4, "vin"), false, g.intn(10, "vloc"))
		if g.chance(50, "vi") {
			items, names, types = append(items, "@builtin(vertex_index) vidx: u32"), append(names, "vidx"), append(types, "u32")
		}
		if g.chance(40, "ii") {
			items, names, types = append(items, "@builtin(instance_index) iidx: u32"), append(names, "iidx"), append(types, "u32")
		}
		params = g.bindInputs("VIn", items, names, types, structIn)
		// outputs
		if g.chance(60, "vso") {
			g.c.StructIO = true
			sn := g.name("VOut")
			pos := "@builtin(position) pos: vec4<f32>"
			if g.chance(30, "inv") && !g.is("invariant") {
				pos = "@builtin(position) @invariant pos: vec4<f32>"
				g.class("io:invariant")
			}
			its, nms, tys := g.ioMembers("o", g.intn(4, "von"), true, g.intn(10, "oloc"))
			its = append(its, pos)
			nms, tys = append(nms, "pos"), append(tys, "vec4<f32>")
			g.shuffle(its, nms, tys)
			g.decls = append(g.decls, "struct "+sn+" {\n  "+strings.Join(its, ",\n  ")+",\n}")
			g.structItems[sn] = its
			g.vouts = append(g.vouts, fio{sn, nms, tys})
			retDecl = " -> " + sn
			retExpr = "out"
			w.line("var out: %s;", sn)
			g.body(w, stage)
			for i, n := range nms {
				w.line("out.%s = %s;", n, g.expr(tys[i], 2).expr)
			}
			g.class("io:vertex-struct-output")
		} else {
			retDecl = " -> @builtin(position) vec4<f32>"
			if g.chance(25, "inv2") && !g.is("invariant") {
				retDecl = " -> @invariant @builtin(position) vec4<f32>"
				g.class("io:invariant")
			}
			g.body(w, stage)
			retExpr = g.expr("vec4<f32>", 2).expr
			g.class("io:vertex-bare-output")
		}
	case "fragment":
		var items, names, types []string
		if len(g.vouts) > 0 && g.chance(40, "fvo") {
			// a vertex output struct reused as the fragment input
			v := g.vouts[g.intn(len(g.vouts), "fvoi")]
			params = append(params, "fin: "+v.name)
			for i, n := range v.names {
				g.addVal(v.types[i], "fin."+n, true)
			}
			g.c.StructIO = true
			g.class("io:fragment-input-is-vertex-output")
		} else {
			items, names, types = g.ioMembers("b", g.intn(4, "fin"), true, g.intn(10, "floc"))
			if g.chance(40, "fpos") {
				items, names, types = append(items, "@builtin(position) fpos: vec4<f32>"), append(names, "fpos"), append(types, "vec4<f32>")
			}
			params = g.bindInputs("FIn", items, names, types, structIn)
		}
		if g.chance(35, "ff") {
			params = append(params, "@builtin(front_facing) ff: bool")
			g.addVal("bool", "ff", true)
		}
		if g.chance(25, "si") && !g.is("builtin.sample_index") {
			params = append(params, "@builtin(sample_index) sidx: u32")
			g.addVal("u32", "sidx", true)
		}
		if g.chance(25, "smi") && !g.is("builtin.sample_mask") {
			params = append(params, "@builtin(sample_mask) smask: u32")
			g.addVal("u32", "smask", true)
		}
		g.fragPrologue(w)
		switch g.intn(4, "fout") {
		case 0:
			g.body(w, stage)
			g.class("io:fragment-no-output")
		case 1, 2:
			retDecl = " -> @location(0) vec4<f32>"
			g.body(w, stage)
			retExpr = g.expr("vec4<f32>", 2).expr
			g.class("io:fragment-bare-output")
		default:
			g.c.StructIO = true
			sn := g.name("FOut")
			its := []string{"@location(0) c0: vec4<f32>"}
			nms, tys := []string{"c0"}, []string{"vec4<f32>"}
			if g.chance(40, "fo1") {
				ty := g.pick("fo1t", "vec4<u32>", "vec4<i32>", "vec2<f32>", "f32", "u32")
				its, nms, tys = append(its, fmt.Sprintf("@location(%d) c1: %s", 1+g.intn(7, "c1loc"), ty)), append(nms, "c1"), append(tys, ty)
			}
			if g.chance(40, "fod") && !g.is("builtin.frag_depth") {
				its, nms, tys = append(its, "@builtin(frag_depth) depth: f32"), append(nms, "depth"), append(tys, "f32")
				g.class("io:frag_depth")
			}
			if g.chance(25, "fom") && !g.is("builtin.sample_mask") {
				its, nms, tys = append(its, "@builtin(sample_mask) omask: u32"), append(nms, "omask"), append(tys, "u32")
				g.class("io:sample_mask-output")
			}
			g.shuffle(its, nms, tys)
			g.decls = append(g.decls, "struct "+sn+" {\n  "+strings.Join(its, ",\n  ")+",\n}")
			g.structItems[sn] = its
			retDecl = " -> " + sn
			g.body(w, stage)
			var args []string
			for _, t := range tys {
				args = append(args, g.expr(t, 2).expr)
			}
			retExpr = sn + "(" + strings.Join(args, ", ") + ")"
			g.class("io:fragment-struct-output")
		}
	case "compute":
		bi := [][2]string{{"global_invocation_id", "vec3<u32>"}, {"local_invocation_id", "vec3<u32>"}, {"local_invocation_index", "u32"},
			{"workgroup_id", "vec3<u32>"}, {"num_workgroups", "vec3<u32>"}}
		var items, names, types []string
		for _, b := range bi {
			if g.chance(35, "cbi") {
				nm := g.name("b")
				items, names, types = append(items, "@builtin("+b[0]+") "+nm+": "+b[1]), append(names, nm), append(types, b[1])
			}
		}
		params = g.bindInputs("CIn", items, names, types, structIn && len(items) > 0)
		g.computePrologue(w)
		g.body(w, stage)
	}
	if retExpr != "" {
		w.line("return %s;", retExpr)
	}
	g.pop()
	attr := "@" + stage
	wgs := [3]int{}
	if stage == "compute" {
		wgs = [3]int{1, 1, 1}
		switch g.intn(4, "wgs") {
		case 0:
			wgs[0] = 1 + g.intn(8, "wx")
			attr += fmt.Sprintf(" @workgroup_size(%d)", wgs[0])
		case 1:
			wgs[0], wgs[1] = 1+g.intn(4, "wx"), 1+g.intn(4, "wy")
			attr += fmt.Sprintf(" @workgroup_size(%d, %d)", wgs[0], wgs[1])
		case 2:
			wgs = [3]int{1 + g.intn(4, "wx"), 1 + g.intn(2, "wy"), 1 + g.intn(2, "wz")}
			attr += fmt.Sprintf(" @workgroup_size(%d, %d, %d)", wgs[0], wgs[1], wgs[2])
		default:
			wgs[0] = 2
			if g.is("workgroup-size.const") {
				attr += " @workgroup_size(2)"
			} else {
				g.class("workgroup-size:const-name")
				attr += " @workgroup_size(WG_X, 1u)" // WG_X = 2u
			}
		}
	}
	text := fmt.Sprintf("%s\nfn %s(%s)%s {\n%s}", attr, name, strings.Join(params, ", "), retDecl, w.b.String())
	g.decls = append(g.decls, text)
	g.fnText[name] = text
	fe := FullEntry{Stage: stage, Name: name, WorkgroupSize: wgs}
	for _, p := range params {
		if !strings.HasPrefix(p, "@") {
			sn := strings.TrimSpace(p[strings.IndexByte(p, ':')+1:])
			for _, it := range g.structItems[sn] {
				fe.Inputs = append(fe.Inputs, parseFullIO(it, sn))
			}
			continue
		}
		fe.Inputs = append(fe.Inputs, parseFullIO(p, ""))
	}
	if rd := strings.TrimPrefix(retDecl, " -> "); rd != "" {
		if its, ok := g.structItems[rd]; ok {
			for _, it := range its {
				fe.Outputs = append(fe.Outputs, parseFullIO(it, rd))
			}
		} else {
			// "@attr… type": a bare return value has no name
			i := strings.LastIndex(rd, ") ")
			fe.Outputs = append(fe.Outputs, parseFullIO(rd[:i+2]+": "+rd[i+2:], ""))
		}
	}
	g.c.Entries = append(g.c.Entries, fe)
	g.class("entry:" + stage)
	g.stage, g.used = "", nil
}

type fio struct {
	name  string
	names []string
	types []string
}

// parseFullIO reads back one IO item written by the generator:
// "@location(3) @interpolate(linear, centroid) a5: vec2<f32>".
func parseFullIO(item, structName string) FullIO {
	io := FullIO{Location: -1, Struct: structName}
	rest := item
	for strings.HasPrefix(rest, "@") {
		end := strings.IndexByte(rest, ' ')
		a := rest[:end]
		// attribute arguments may contain ", " — extend to the closing parenthesis
		if strings.Contains(a, "(") && !strings.Contains(a, ")") {
			end = strings.IndexByte(rest, ')') + 1
			a = rest[:end]
		}
		rest = strings.TrimSpace(rest[end:])
		name, arg := a[1:], ""
		if i := strings.IndexByte(a, '('); i >= 0 {
			name, arg = a[1:i], a[i+1:len(a)-1]
		}
		switch name {
		case "location":
			fmt.Sscanf(arg, "%d", &io.Location)
		case "builtin":
			io.Builtin = arg
		case "invariant":
			io.Invariant = true
		case "interpolate":
			parts := strings.Split(arg, ",")
			io.Interp = strings.TrimSpace(parts[0])
			if len(parts) > 1 {
				io.Sampling = strings.TrimSpace(parts[1])
			}
		}
	}
	i := strings.IndexByte(rest, ':')
	io.Name, io.Type = strings.TrimSpace(rest[:i]), strings.TrimSpace(rest[i+1:])
	return io
}

func (g *fgen) shuffle(a, b, c []string) {
	for i := len(a) - 1; i > 0; i-- {
		j := g.intn(i+1, "shuf")
		a[i], a[j] = a[j], a[i]
		b[i], b[j] = b[j], b[i]
		c[i], c[j] = c[j], c[i]
	}
}

// bindInputs turns IO items into either one struct parameter or bare parameters.
func (g *fgen) bindInputs(sprefix string, items, names, types []string, asStruct bool) []string {
	if len(items) == 0 {
		return nil
	}
	if asStruct {
		g.c.StructIO = true
		sn := g.name(sprefix)
		g.decls = append(g.decls, "struct "+sn+" {\n  "+strings.Join(items, ",\n  ")+",\n}")
		g.structItems[sn] = items
		for i, n := range names {
			g.addVal(types[i], "input."+n, true)
		}
		g.class("io:struct-input")
		return []string{"input: " + sn}
	}
	for i, n := range names {
		g.addVal(types[i], n, true)
	}
	g.class("io:bare-input")
	return items
}

func (g *fgen) body(w *fw, stage string) {
	n := 2 + g.intn(8, "bn")
	for i := 0; i < n; i++ {
		if g.chance(25, "bres") {
			g.resourceStmt(w)
		} else {
			g.stmt(w, 0, false, "")
		}
		if stage == "fragment" && g.chance(10, "disc") && !g.is("discard") {
			g.class("stmt:discard")
			w.line("if %s { discard; }", g.expr("bool", 2).expr)
		}
	}
	if g.chance(20, "fca") {
		g.class("stmt:const_assert")
		w.line("const_assert %s;", g.pick("fcae", "1 + 1 == 2", "WG_X > 0u", "K_F < 10.0", "true"))
	}
}

// GenFull draws a full-profile module.
func GenFull(t *rapid.T, f FullFeatures) *FullCase {
	g := &fgen{t: t, off: f.Off, classes: map[string]bool{}, c: &FullCase{}, structItems: map[string][]string{}, fnText: map[string]string{}}
	g.push() // module scope
	g.decls = append(g.decls, "alias Vec4 = vec4<f32>;", "var<private> gpf: f32;", "var<private> gpi: i32 = 3;", "var<private> gpu: u32 = 2u;",
		"const WG_X: u32 = 2u;", "const K_F = 0.5;")
	// module constants and privates that locals may shadow
	for i, n := 0, 1+g.intn(3, "nk"); i < n; i++ {
		ty := g.valType()
		nm := g.name("K")
		e := g.leafConst(ty)
		if g.chance(50, "ktyped") {
			g.decls = append(g.decls, fmt.Sprintf("const %s: %s = %s;", nm, ty, e))
		} else {
			g.decls = append(g.decls, fmt.Sprintf("const %s = %s;", nm, e))
		}
		g.addVal(ty, nm, false)
		g.globals = append(g.globals, nm)
	}
	for i, n := 0, g.intn(3, "npv"); i < n; i++ {
		ty := g.valType()
		nm := g.name("pv")
		if g.chance(50, "pvi") {
			g.decls = append(g.decls, fmt.Sprintf("var<private> %s: %s = %s;", nm, ty, g.leafConst(ty)))
		} else {
			g.decls = append(g.decls, fmt.Sprintf("var<private> %s: %s;", nm, ty))
		}
		g.addVar(ty, nm)
		g.globals = append(g.globals, nm)
	}
	if !g.is("override") && g.chance(60, "ov") {
		g.class("override")
		g.decls = append(g.decls, "@id(7) override ov_f: f32 = 1.5;", "override ov_u: u32 = 4u;", "override ov_b: bool = true;")
		g.addVal("f32", "ov_f", true)
		g.addVal("u32", "ov_u", true)
		g.addVal("bool", "ov_b", true)
	}
	if g.chance(50, "mca") {
		g.class("module:const_assert")
		g.decls = append(g.decls, "const_assert WG_X == 2u;")
	}
	g.makeResources()
	g.makeAliases()
	if !g.is("textures") && !g.is("fn.handle-param") && g.chance(40, "texh") {
		g.hasTexHelper = true
		g.decls = append(g.decls, "fn sample_lod(t: texture_2d<f32>, s: sampler, uv: vec2<f32>) -> Vec4 {\n  return textureSampleLevel(t, s, uv, 0.0);\n}")
		g.fnText["sample_lod"] = "fn sample_lod(t: texture_2d<f32>, s: sampler, uv: vec2<f32>) -> Vec4 {\n  return textureSampleLevel(t, s, uv, 0.0);\n}"
		g.c.Helpers++
	}
	for i, n := 0, g.intn(4, "nh"); i < n; i++ {
		g.helper()
	}
	ne := 1 + g.intn(4, "ne")
	for i := 0; i < ne; i++ {
		g.entry(g.pick("stage", "vertex", "fragment", "compute", "fragment", "compute"), i)
	}
	for _, r := range g.res {
		g.decls = append(g.decls, g.resDecl(r))
		if strings.HasPrefix(r.kind, "storage") || strings.HasPrefix(r.kind, "stex") || r.kind == "atomic" {
			g.c.UsesStorage = true
		}
	}
	if g.needWg {
		g.decls = append(g.decls, "var<workgroup> wg_counter: atomic<u32>;", "var<workgroup> wg_signed: atomic<i32>;",
			"var<workgroup> wg_arr: array<atomic<u32>, 4>;", "var<workgroup> wg_data: array<f32, 8>;", "var<workgroup> wg_flag: u32;")
	}
	// forward references: module-scope declarations may appear in any order
	if !g.is("forward-reference") {
		for i := len(g.decls) - 1; i > 0; i-- {
			j := g.intn(i+1, "dshuf")
			g.decls[i], g.decls[j] = g.decls[j], g.decls[i]
		}
		g.class("forward-reference:shuffled-declarations")
	}
	// known finding C17-1 (tag workgroup-size.const.forward-reference): @workgroup_size(NAME) with NAME
	// declared later in the file is silently read as 1; with the tag on the constant is declared first.
	if g.is("workgroup-size.const.forward-reference") {
		for i, d := range g.decls {
			if strings.HasPrefix(d, "const WG_X") {
				copy(g.decls[1:i+1], g.decls[:i])
				g.decls[0] = d
				break
			}
		}
	}
	g.resourceMetadata()
	c := g.c
	c.Src = strings.Join(g.decls, "\n") + "\n"
	c.MaxNesting = g.maxNest
	c.UsesTexture, c.UsesAtomic = g.useTex, g.useAt
	for k := range g.classes {
		c.Classes = append(c.Classes, k)
	}
	sort.Strings(c.Classes)
	return c
}

// leafConst: literal-only value of type ty.
func (g *fgen) leafConst(ty string) string {
	n := fwidth(ty)
	if n == 1 {
		return g.lit(ty)
	}
	parts := make([]string, n)
	for i := range parts {
		parts[i] = g.lit(fscalar(ty))
	}
	return ty + "(" + strings.Join(parts, ", ") + ")"
}

// mentions reports whether text names identifier id (as a whole token).
func mentions(text, id string) bool {
	for i := 0; i+len(id) <= len(text); i++ {
		if text[i:i+len(id)] == id && (i == 0 || !identByte(text[i-1])) && (i+len(id) == len(text) || !identByte(text[i+len(id)])) {
			return true
		}
	}
	return false
}

// resourceMetadata fills FullCase.Resources / UsesWorkgroup from the text the
// generator wrote: a function uses a variable when its text names it, an entry
// point uses what the functions it (transitively) calls use.  Resource,
// workgroup-variable and function names are never shadowed by locals.
func (g *fgen) resourceMetadata() {
	names := g.sortedFnNames()
	reach := func(entry string) []string {
		seen := map[string]bool{entry: true}
		order := []string{entry}
		for i := 0; i < len(order); i++ {
			for _, h := range names {
				if !seen[h] && mentions(g.fnText[order[i]], h) {
					seen[h] = true
					order = append(order, h)
				}
			}
		}
		return order
	}
	g.c.UsesWorkgroup = map[string]bool{}
	used := map[string]map[string]bool{} // entry -> variable names
	for _, e := range g.c.Entries {
		used[e.Name] = map[string]bool{}
		for _, fn := range reach(e.Name) {
			for _, r := range g.res {
				if mentions(g.fnText[fn], r.name) {
					used[e.Name][r.name] = true
				}
			}
			for _, wv := range []string{"wg_counter", "wg_signed", "wg_arr", "wg_data", "wg_flag"} {
				if mentions(g.fnText[fn], wv) {
					g.c.UsesWorkgroup[e.Name] = true
				}
			}
		}
	}
	for _, r := range g.res {
		fr := FullResource{Name: r.name, Group: r.group, Binding: r.binding, Decl: r.decl}
		switch r.kind {
		case "uniform":
			fr.Kind = "uniform"
		case "storage-r":
			fr.Kind = "storage_ro"
		case "storage-rw", "atomic":
			fr.Kind = "storage_rw"
		case "samp":
			fr.Kind = "sampler"
		case "samp-cmp":
			fr.Kind = "sampler_comparison"
		case "tex":
			fr.Kind = "texture"
		case "depth":
			fr.Kind = "texture_depth"
		case "ms":
			fr.Kind = "texture_multisampled"
		default:
			fr.Kind = "storage_texture"
		}
		for _, e := range g.c.Entries {
			if used[e.Name][r.name] {
				fr.UsedBy = append(fr.UsedBy, e.Name)
			}
		}
		g.c.Resources = append(g.c.Resources, fr)
	}
}

func (g *fgen) sortedFnNames() []string {
	var out []string
	for n := range g.fnText {
		out = append(out, n)
	}
	sort.Strings(out)
	return out
}
