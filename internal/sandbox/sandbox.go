// Package sandbox runs naga's public entry points in an isolated worker
// process (the test binary re-executed in worker mode) so that runtime fatal
// errors — stack overflow, out of memory — and hangs can be observed and
// attributed to the request in flight (property C10), and so that fresh
// processes can be used for determinism runs.
package sandbox

import (
	"bufio"
	"encoding/binary"
	"encoding/json"
	"fmt"
	"io"
	"os"
	"os/exec"
	"runtime"
	"runtime/debug"
	"strings"
	"sync"
	"syscall"
	"time"
)

// WorkerEnv switches a process into worker mode (see Serve).
const WorkerEnv = "VERIF_SANDBOX_WORKER"

// Request asks the worker to run one API on one source.
type Request struct {
	API  string `json:"api"`  // tokenize | parse | lower | validate | compile | spirv | hlsl | msl | glsl | dxil | all
	Src  string `json:"src"`  // source text (arbitrary bytes, carried base64-free: JSON-escaped)
	Opts string `json:"opts"` // option-set name understood by the handler
}

// Reply is the worker's answer.
type Reply struct {
	OK      bool    `json:"ok"`      // API returned a result
	Err     string  `json:"err"`     // ordinary error value (acceptable)
	Panic   string  `json:"panic"`   // recovered panic (violation)
	Stack   string  `json:"stack"`   // stack of the recovered panic
	Millis  float64 `json:"millis"`  // wall time inside the worker
	HeapMB  float64 `json:"heap_mb"` // heap in use after the call (before GC)
	AllocMB float64 `json:"alloc_mb"` // bytes allocated during the call (deterministic measure of work)
	Stage   string  `json:"stage"`   // last stage reached (for non-triviality)
	Decls   int     `json:"decls"`   // declarations parsed
}

// Handler executes a request inside the worker.
type Handler func(Request) Reply

// HeapLimitMB is the heap size at which the worker's watchdog kills the process.
var HeapLimitMB = 1536.0

// ExitHeap is the exit code used by the heap watchdog.
const ExitHeap = 97

// Serve runs the worker loop on stdin/stdout if the process is in worker
// mode; it never returns in that case.
func Serve(h Handler) {
	if os.Getenv(WorkerEnv) == "" {
		return
	}
	debug.SetMaxStack(256 << 20)
	// hard stop for runaway address-space use
	_ = syscall.Setrlimit(syscall.RLIMIT_AS, &syscall.Rlimit{Cur: 12 << 30, Max: 12 << 30})
	go func() {
		var ms runtime.MemStats
		for {
			time.Sleep(5 * time.Millisecond)
			runtime.ReadMemStats(&ms)
			if float64(ms.HeapAlloc)/(1<<20) > HeapLimitMB {
				fmt.Fprintf(os.Stderr, "SANDBOX: heap watchdog: %d MB in use\n", ms.HeapAlloc>>20)
				os.Exit(ExitHeap)
			}
		}
	}()
	in := bufio.NewReaderSize(os.Stdin, 1<<20)
	out := bufio.NewWriter(os.Stdout)
	for {
		var n uint32
		if err := binary.Read(in, binary.LittleEndian, &n); err != nil {
			os.Exit(0)
		}
		buf := make([]byte, n)
		if _, err := io.ReadFull(in, buf); err != nil {
			os.Exit(0)
		}
		var req Request
		if err := json.Unmarshal(buf, &req); err != nil {
			os.Exit(3)
		}
		rep := runGuarded(h, req)
		b, _ := json.Marshal(&rep)
		binary.Write(out, binary.LittleEndian, uint32(len(b)))
		out.Write(b)
		out.Flush()
		if rep.HeapMB > 256 {
			debug.FreeOSMemory()
		}
	}
}

func runGuarded(h Handler, req Request) (rep Reply) {
	start := time.Now()
	var ms0 runtime.MemStats
	runtime.ReadMemStats(&ms0)
	defer func() {
		if r := recover(); r != nil {
			rep = Reply{Panic: fmt.Sprint(r), Stack: string(debug.Stack())}
		}
		rep.Millis = float64(time.Since(start).Microseconds()) / 1000
		var ms runtime.MemStats
		runtime.ReadMemStats(&ms)
		rep.HeapMB = float64(ms.HeapAlloc) / (1 << 20)
		rep.AllocMB = float64(ms.TotalAlloc-ms0.TotalAlloc) / (1 << 20)
	}()
	return h(req)
}

// Outcome classifies what happened to a request.
type Outcome int

// Outcomes.
const (
	Answered Outcome = iota // Reply is valid (may hold an error or a recovered panic)
	Died                    // worker process died (fatal error, heap watchdog, signal)
	TimedOut                // no answer within the budget
)

// Result of Worker.Do.
type Result struct {
	Outcome Outcome
	Reply   Reply
	Stderr  string // tail of the worker's stderr when it died
	Exit    int
}

// Worker is a handle on one worker process.
type Worker struct {
	mu     sync.Mutex
	cmd    *exec.Cmd
	stdin  io.WriteCloser
	stdout *bufio.Reader
	stderr *tailBuf
	exe    string
	args   []string
}

type tailBuf struct {
	mu sync.Mutex
	b  []byte
}

func (t *tailBuf) Write(p []byte) (int, error) {
	t.mu.Lock()
	t.b = append(t.b, p...)
	if len(t.b) > 1<<16 {
		t.b = t.b[len(t.b)-1<<15:]
	}
	t.mu.Unlock()
	return len(p), nil
}

func (t *tailBuf) String() string {
	t.mu.Lock()
	defer t.mu.Unlock()
	s := string(t.b)
	// keep the head of a Go fatal error (the reason) and drop goroutine dumps
	if i := strings.Index(s, "\ngoroutine "); i > 0 && i < len(s) {
		end := i + 1500
		if end > len(s) {
			end = len(s)
		}
		s = s[:end]
	}
	if len(s) > 3000 {
		s = s[:3000]
	}
	return s
}

// NewWorker prepares a worker that re-executes the current binary with the
// given extra arguments (typically -test.run=^$ so that no test runs and
// TestMain calls sandbox.Serve).
func NewWorker(args ...string) (*Worker, error) {
	exe, err := os.Executable()
	if err != nil {
		return nil, err
	}
	return &Worker{exe: exe, args: args}, nil
}

func (w *Worker) start() error {
	cmd := exec.Command(w.exe, w.args...)
	cmd.Env = append(os.Environ(), WorkerEnv+"=1", "VERIF_OUT=", "GOTRACEBACK=single", "GOMAXPROCS=2")
	in, err := cmd.StdinPipe()
	if err != nil {
		return err
	}
	out, err := cmd.StdoutPipe()
	if err != nil {
		return err
	}
	w.stderr = &tailBuf{}
	cmd.Stderr = w.stderr
	if err := cmd.Start(); err != nil {
		return err
	}
	w.cmd, w.stdin, w.stdout = cmd, in, bufio.NewReaderSize(out, 1<<20)
	return nil
}

// Close stops the worker.
func (w *Worker) Close() {
	w.mu.Lock()
	defer w.mu.Unlock()
	w.kill()
}

func (w *Worker) kill() {
	if w.cmd != nil {
		w.stdin.Close()
		w.cmd.Process.Kill()
		w.cmd.Wait()
		w.cmd = nil
	}
}

// Do sends one request and waits for the reply within the budget.
func (w *Worker) Do(req Request, budget time.Duration) (Result, error) {
	w.mu.Lock()
	defer w.mu.Unlock()
	if w.cmd == nil {
		if err := w.start(); err != nil {
			return Result{}, err
		}
	}
	b, _ := json.Marshal(&req)
	var hdr [4]byte
	binary.LittleEndian.PutUint32(hdr[:], uint32(len(b)))
	if _, err := w.stdin.Write(append(hdr[:], b...)); err != nil {
		w.kill()
		return Result{}, fmt.Errorf("sandbox: write to worker: %v", err)
	}
	type rd struct {
		rep Reply
		err error
	}
	ch := make(chan rd, 1)
	stdout := w.stdout
	go func() {
		var n uint32
		if err := binary.Read(stdout, binary.LittleEndian, &n); err != nil {
			ch <- rd{err: err}
			return
		}
		buf := make([]byte, n)
		if _, err := io.ReadFull(stdout, buf); err != nil {
			ch <- rd{err: err}
			return
		}
		var rep Reply
		err := json.Unmarshal(buf, &rep)
		ch <- rd{rep, err}
	}()
	select {
	case r := <-ch:
		if r.err != nil {
			// worker died
			cmd := w.cmd
			w.stdin.Close()
			err := cmd.Wait()
			w.cmd = nil
			code := -1
			if ee, ok := err.(*exec.ExitError); ok {
				code = ee.ExitCode()
			}
			return Result{Outcome: Died, Stderr: w.stderr.String(), Exit: code}, nil
		}
		return Result{Outcome: Answered, Reply: r.rep}, nil
	case <-time.After(budget):
		w.kill()
		return Result{Outcome: TimedOut}, nil
	}
}
