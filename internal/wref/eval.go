package wref

import (
	"errors"
	"fmt"

	"verif/internal/wgen"
)

// Events records things that happened during a reference run which place
// the case outside a property's domain or matter for non-triviality.
type Events struct {
	NonFinite   int // a float operation produced NaN / infinity
	Subnormal   int // a float operation produced or consumed a subnormal
	FuzzyUse    int // an inexact float reached a discrete use (compare, convert, index, branch, bitcast)
	OOB         int // out-of-range index
	DivZero     int // integer division / remainder by zero
	DivOverflow int // INT_MIN / -1, INT_MIN % -1
	NegOverflow int // -INT_MIN, abs(INT_MIN)
	F2IRange    int // float -> int conversion of an out-of-range value
	F2INaN      int
	F2UNeg      int // f32 -> u32 of a negative value that truncates into range (WGSL: 0; GLSL leaves it undefined)
	ShiftWide   int // shift amount >= 32 at run time
	NotRepresentable int // abstract value converted to a concrete type that cannot hold it (shader-creation error)
	AbsOverflow int // abstract-int arithmetic overflowed 64 bits
	AbsWide     int // an abstract-int intermediate value lies outside the i32 range
	Cancel      int // float addition / subtraction with catastrophic cancellation (result depends on evaluation precision)
	ClampInv    int // integer clamp with low > high (WGSL: min(max(e,low),high))
	BitsClamp   int // extractBits / insertBits with offset + count > 32 (WGSL clamps)
	RoundTie    int // round() of an exact .5 tie (WGSL: ties to even)
	RemNeg      int // i32 % with a negative operand (WGSL: truncated remainder; GLSL: undefined)
	IntOverflow int // i32/u32 + - * << whose mathematical result does not fit (matters for const-expressions only)
	DotIntOverflow int // dot() of i32 vectors with a product or partial sum outside the i32 range (WGSL wraps; MSL's helper computes in signed int: C04-4)
	UndefBuiltin int // builtin called outside the domain where WGSL defines the result
	Imprecise   int // float operation whose WGSL accuracy bound is so loose here that any comparison would be unsound
	Loads       int // loads from storage / uniform buffers
	Stores      int // stores into read_write storage buffers
	Ops         map[string]int
}

// OutOfDomain reports whether the run left the domain on which WGSL (and the
// float policy of DESIGN §3.1) determines the result.
func (e *Events) OutOfDomain() string { return e.OutOfDomainPolicy(false) }

// OutOfDomainPolicy is OutOfDomain for runs under a bounds-check policy, where
// out-of-range indices have a defined outcome (allowOOB).
func (e *Events) OutOfDomainPolicy(allowOOB bool) string {
	switch {
	case e.NonFinite > 0:
		return "nonfinite"
	case e.Subnormal > 0:
		return "subnormal"
	case e.FuzzyUse > 0:
		return "fuzzy-use"
	case e.OOB > 0 && !allowOOB:
		return "oob"
	case e.UndefBuiltin > 0:
		return "undef-builtin"
	case e.Imprecise > 0:
		return "imprecise-float"
	}
	return ""
}

// ErrStepLimit is returned when the step budget is exhausted.
var ErrStepLimit = errors.New("wref: step limit")

// Config of a run.
type Config struct {
	Module        *wgen.Module
	Entry         *wgen.Func
	Buffers       map[[2]int][]byte // (group,binding) -> bytes; copied, not mutated
	NumWorkgroups [3]uint32
	StepLimit     int64
	Reverse       bool // run invocations in reverse order
	// Overrides gives values for `override` declarations by Var.
	Overrides map[*wgen.Var]Value
	// Policy for out-of-range indices: "" (count OOB event, clamp to stay alive),
	// "restrict" handled by callers through events.
	ZeroOOBReads bool
	// ClampOOB: "restrict" policy — an out-of-range index is clamped into the
	// object (unsigned interpretation: negative indices clamp to the last element,
	// or to the first one when ClampNegToZero is set).
	ClampOOB       bool
	ClampNegToZero bool
	// BufPolicy, when set ("restrict" or "rzsw"), replaces ClampOOB / ZeroOOBReads for
	// accesses through references rooted in a storage or uniform variable (backends with
	// separate buffer and index policies).
	BufPolicy string
}

// Result of a run.
type Result struct {
	Buffers map[[2]int][]byte // final contents
	Masks   map[[2]int][]byte // per byte: MaskPad / MaskExact / MaskFuzzy / MaskFloat (only for read_write buffers)
	Ev      Events
	Steps   int64
}

type ctl int

const (
	ctlNone ctl = iota
	ctlBreak
	ctlContinue
	ctlReturn
)

type frame struct {
	vars map[*wgen.Var]*Value
	ret  Value
}

type machine struct {
	cfg     Config
	ev      *Events
	steps   int64
	limit   int64
	globals map[*wgen.Var]*Value // storage, uniform, workgroup (current group), const, override
	private map[*wgen.Var]*Value // current invocation
	fr      *frame
	depth   int
	constMode bool
}

type evalPanic struct{ err error }

func (m *machine) fail(err error) { panic(evalPanic{err}) }

func (m *machine) step() {
	m.steps++
	if m.steps > m.limit {
		m.fail(ErrStepLimit)
	}
}

func (m *machine) op(class string) {
	if m.ev.Ops == nil {
		m.ev.Ops = map[string]int{}
	}
	m.ev.Ops[class]++
}

// Run executes the entry point for every invocation of the dispatch.
func Run(cfg Config) (res *Result, err error) {
	defer func() {
		if r := recover(); r != nil {
			if ep, ok := r.(evalPanic); ok {
				err = ep.err
				return
			}
			panic(r)
		}
	}()
	m := &machine{cfg: cfg, ev: &Events{}, limit: cfg.StepLimit, globals: map[*wgen.Var]*Value{}}
	if m.limit == 0 {
		m.limit = 1 << 22
	}
	res = &Result{Buffers: map[[2]int][]byte{}, Masks: map[[2]int][]byte{}}
	rtLens := map[*wgen.Var]int{}
	// module-scope constants, overrides and resources in declaration order
	for _, g := range cfg.Module.Globals() {
		switch g.Kind {
		case wgen.VStorage, wgen.VUniform:
			key := [2]int{g.Group, g.Binding}
			buf, ok := cfg.Buffers[key]
			if !ok {
				return nil, fmt.Errorf("wref: no buffer for %v", key)
			}
			rt := wgen.RuntimeLen(g.T, len(buf))
			rtLens[g] = rt
			v := Decode(g.T, buf, 0, rt)
			m.globals[g] = &v
		}
	}
	for _, g := range cfg.Module.Globals() {
		switch g.Kind {
		case wgen.VConst:
			m.fr = &frame{vars: map[*wgen.Var]*Value{}}
			v := m.eval(g.Init)
			v = m.convertTo(v, g.T)
			m.globals[g] = &v
		case wgen.VOverride:
			if ov, ok := cfg.Overrides[g]; ok {
				v := ov
				m.globals[g] = &v
			} else if g.Init != nil {
				m.fr = &frame{vars: map[*wgen.Var]*Value{}}
				v := m.convertTo(m.eval(g.Init), g.T)
				m.globals[g] = &v
			} else {
				return nil, fmt.Errorf("wref: override %s has no value", g.Name)
			}
		}
	}
	f := cfg.Entry
	wg := f.WG
	if len(f.WGExpr) > 0 {
		m.fr = &frame{vars: map[*wgen.Var]*Value{}}
		wg = [3]int{1, 1, 1}
		for i, e := range f.WGExpr {
			v := m.eval(e)
			wg[i] = int(toI64(v))
		}
	}
	// split the entry body into phases at top-level barriers
	var phases [][]wgen.Stmt
	cur := []wgen.Stmt{}
	for _, s := range f.Body {
		if _, ok := s.(*wgen.Barrier); ok {
			phases = append(phases, cur)
			cur = []wgen.Stmt{}
			continue
		}
		cur = append(cur, s)
	}
	phases = append(phases, cur)

	nwg := cfg.NumWorkgroups
	for gz := uint32(0); gz < nwg[2]; gz++ {
		for gy := uint32(0); gy < nwg[1]; gy++ {
			for gx := uint32(0); gx < nwg[0]; gx++ {
				// fresh workgroup memory
				for _, g := range cfg.Module.Globals() {
					if g.Kind == wgen.VWorkgroup {
						v := Zero(g.T, 0)
						m.globals[g] = &v
					}
				}
				n := wg[0] * wg[1] * wg[2]
				type inv struct {
					fr      *frame
					private map[*wgen.Var]*Value
					done    bool
				}
				invs := make([]*inv, n)
				for li := 0; li < n; li++ {
					lx := li % wg[0]
					ly := (li / wg[0]) % wg[1]
					lz := li / (wg[0] * wg[1])
					iv := &inv{fr: &frame{vars: map[*wgen.Var]*Value{}}, private: map[*wgen.Var]*Value{}}
					m.fr, m.private = iv.fr, iv.private
					for _, g := range cfg.Module.Globals() {
						if g.Kind == wgen.VPrivate {
							v := Zero(g.T, 0)
							if g.Init != nil {
								v = m.convertTo(m.eval(g.Init), g.T)
							}
							iv.private[g] = &v
						}
					}
					for _, p := range f.Params {
						var v Value
						u3 := func(a, b, c uint32) Value {
							return Value{T: wgen.Vec(3, wgen.U32), E: []Value{U32V(a), U32V(b), U32V(c)}}
						}
						switch p.Builtin {
						case "local_invocation_id":
							v = u3(uint32(lx), uint32(ly), uint32(lz))
						case "local_invocation_index":
							v = U32V(uint32(li))
						case "global_invocation_id":
							v = u3(gx*uint32(wg[0])+uint32(lx), gy*uint32(wg[1])+uint32(ly), gz*uint32(wg[2])+uint32(lz))
						case "workgroup_id":
							v = u3(gx, gy, gz)
						case "num_workgroups":
							v = u3(nwg[0], nwg[1], nwg[2])
						default:
							return nil, fmt.Errorf("wref: entry parameter %s without known builtin", p.Name)
						}
						iv.fr.vars[p] = &v
					}
					invs[li] = iv
				}
				for _, ph := range phases {
					for k := 0; k < n; k++ {
						li := k
						if cfg.Reverse {
							li = n - 1 - k
						}
						iv := invs[li]
						if iv.done {
							continue
						}
						m.fr, m.private = iv.fr, iv.private
						if c := m.execBlock(ph, false); c == ctlReturn {
							iv.done = true
						}
					}
				}
			}
		}
	}
	for _, g := range cfg.Module.Globals() {
		if g.Kind == wgen.VStorage || g.Kind == wgen.VUniform {
			key := [2]int{g.Group, g.Binding}
			out := append([]byte(nil), cfg.Buffers[key]...)
			var mask []byte
			if g.Kind == wgen.VStorage && g.Access == "read_write" {
				mask = make([]byte, len(out))
			}
			Encode(*m.globals[g], out, 0, mask)
			res.Buffers[key] = out
			if mask != nil {
				res.Masks[key] = mask
			}
		}
	}
	res.Ev = *m.ev
	res.Steps = m.steps
	return res, nil
}

// ---------------------------------------------------------------------------
// Statements

func (m *machine) execBlock(l []wgen.Stmt, scoped bool) ctl {
	for _, s := range l {
		if c := m.exec(s); c != ctlNone {
			return c
		}
	}
	return ctlNone
}

func (m *machine) exec(s wgen.Stmt) ctl {
	m.step()
	switch x := s.(type) {
	case *wgen.DeclStmt:
		v := x.V
		var val Value
		if v.Init != nil {
			val = m.eval(v.Init)
			val = m.convertTo(val, v.T)
		} else {
			val = Zero(v.T, 0)
		}
		cell := val.Clone()
		m.fr.vars[v] = &cell
	case *wgen.Assign:
		if x.L == nil {
			m.eval(x.R)
			return ctlNone
		}
		ref := m.ref(x.L)
		if x.Op == "" {
			val := m.convertTo(m.eval(x.R), x.L.Type())
			m.store(ref, val, x.L)
		} else {
			cur := ref.load()
			rhs := m.eval(x.R)
			val := m.binary(x.Op, cur, rhs, x.L.Type())
			m.store(ref, val, x.L)
		}
	case *wgen.IncDec:
		ref := m.ref(x.L)
		cur := ref.load()
		one := Value{T: cur.T, B: 1}
		op := "+"
		if !x.Inc {
			op = "-"
		}
		m.store(ref, m.binary(op, cur, one, cur.T), x.L)
	case *wgen.If:
		m.op("branch")
		c := m.eval(x.Cond)
		m.discrete(c)
		if c.Bool() {
			return m.execBlock(x.Then, true)
		}
		return m.execBlock(x.Else, true)
	case *wgen.Switch:
		m.op("switch")
		sel := m.eval(x.Sel)
		m.discrete(sel)
		var chosen, def *wgen.Case
		for _, c := range x.Cases {
			if c.Default {
				def = c
			}
			for _, e := range c.Sels {
				if e == nil {
					def = c
					continue
				}
				cv := m.convertTo(m.eval(e), sel.T)
				if cv.B == sel.B && chosen == nil {
					chosen = c
				}
			}
		}
		if chosen == nil {
			chosen = def
		}
		if chosen == nil {
			return ctlNone
		}
		c := m.execBlock(chosen.Body, true)
		if c == ctlBreak {
			return ctlNone
		}
		return c
	case *wgen.Loop:
		m.op("loop")
		for {
			m.step()
			c := m.execBlock(x.Body, true)
			if c == ctlBreak {
				return ctlNone
			}
			if c == ctlReturn {
				return c
			}
			if x.HasCont {
				if c2 := m.execBlock(x.Continuing, true); c2 == ctlReturn {
					return c2
				}
				if x.BreakIf != nil {
					b := m.eval(x.BreakIf)
					m.discrete(b)
					if b.Bool() {
						return ctlNone
					}
				}
			}
		}
	case *wgen.For:
		m.op("loop")
		if x.Init != nil {
			m.exec(x.Init)
		}
		for {
			m.step()
			if x.Cond != nil {
				c := m.eval(x.Cond)
				m.discrete(c)
				if !c.Bool() {
					return ctlNone
				}
			}
			c := m.execBlock(x.Body, true)
			if c == ctlBreak {
				return ctlNone
			}
			if c == ctlReturn {
				return c
			}
			if x.Update != nil {
				m.exec(x.Update)
			}
		}
	case *wgen.While:
		m.op("loop")
		for {
			m.step()
			c := m.eval(x.Cond)
			m.discrete(c)
			if !c.Bool() {
				return ctlNone
			}
			r := m.execBlock(x.Body, true)
			if r == ctlBreak {
				return ctlNone
			}
			if r == ctlReturn {
				return r
			}
		}
	case *wgen.Break:
		return ctlBreak
	case *wgen.Continue:
		return ctlContinue
	case *wgen.Return:
		if x.X != nil {
			m.fr.ret = m.eval(x.X)
		}
		return ctlReturn
	case *wgen.CallStmt:
		m.eval(x.Call)
	case *wgen.Block:
		return m.execBlock(x.Body, true)
	case *wgen.Barrier:
		// barriers below the top level of the entry point are not generated
		m.fail(fmt.Errorf("wref: nested barrier"))
	case *wgen.ConstAssert:
		v := m.eval(x.X)
		if !v.Bool() {
			m.fail(fmt.Errorf("wref: const_assert failed"))
		}
	default:
		m.fail(fmt.Errorf("wref: stmt %T", s))
	}
	return ctlNone
}

// discrete notes that v is used in a way that needs a bit-determined value.
func (m *machine) discrete(v Value) {
	if v.AnyFuzzy() {
		m.ev.FuzzyUse++
	}
}

// ---------------------------------------------------------------------------
// References

// ref is a resolved reference: a cell, or one component bit-field (none in
// WGSL) — always a cell here.
type refT struct {
	cell *Value
	root *wgen.Var
	oob  bool // reference produced by an out-of-range index
}

func (r refT) load() Value { return r.cell.Clone() }

func (m *machine) lookup(v *wgen.Var) *Value {
	if c, ok := m.fr.vars[v]; ok {
		return c
	}
	if c, ok := m.private[v]; ok {
		return c
	}
	if c, ok := m.globals[v]; ok {
		return c
	}
	if v.Kind == wgen.VOverride && v.Init != nil {
		// default initialiser of an override evaluated on demand
		val := m.convertTo(m.eval(v.Init), v.T)
		m.globals[v] = &val
		return &val
	}
	m.fail(fmt.Errorf("wref: unbound variable %s", v.Name))
	return nil
}

func (m *machine) ref(e wgen.Expr) refT {
	switch x := e.(type) {
	case *wgen.VarRef:
		return refT{cell: m.lookup(x.V), root: x.V}
	case *wgen.Paren:
		return m.ref(x.X)
	case *wgen.MemberE:
		r := m.ref(x.X)
		r.cell = &r.cell.E[x.Idx]
		return r
	case *wgen.Index:
		r := m.ref(x.X)
		iv := m.eval(x.I)
		m.discrete(iv)
		i, ok := indexOf(iv, len(r.cell.E))
		if clamp, _ := m.oobPolicy(r.root); !ok && clamp && len(r.cell.E) > 0 {
			m.ev.OOB++
			i, ok = m.clampIndex(iv, len(r.cell.E)), true
		}
		if !ok {
			m.ev.OOB++
			r.oob = true
			i = 0
			if len(r.cell.E) == 0 {
				// empty runtime array: give a scratch cell
				z := Zero(x.T, 0)
				r.cell = &z
				return r
			}
		}
		m.op("index")
		r.cell = &r.cell.E[i]
		return r
	case *wgen.Swizzle:
		r := m.ref(x.X)
		r.cell = &r.cell.E[x.Comps[0]]
		return r
	case *wgen.Deref:
		p := m.eval(x.X)
		return refT{cell: p.ptr(), root: nil}
	}
	m.fail(fmt.Errorf("wref: not a reference: %T", e))
	return refT{}
}

func (v Value) ptr() *Value { return v.pcell }

func indexOf(iv Value, n int) (int, bool) {
	var i int64
	switch iv.T.S {
	case wgen.I32:
		i = int64(int32(iv.B))
	case wgen.U32:
		i = int64(iv.B)
	case wgen.AbsInt:
		i = iv.I
	}
	if i < 0 || i >= int64(n) {
		return 0, false
	}
	return int(i), true
}

// oobPolicy gives the out-of-range policy (clamp / zero-read) that applies to an access
// rooted in variable root (nil: a by-value composite or a pointer parameter).
func (m *machine) oobPolicy(root *wgen.Var) (clamp, zero bool) {
	if m.cfg.BufPolicy != "" && root != nil && (root.Kind == wgen.VStorage || root.Kind == wgen.VUniform) {
		return m.cfg.BufPolicy == "restrict", m.cfg.BufPolicy == "rzsw"
	}
	return m.cfg.ClampOOB, m.cfg.ZeroOOBReads
}

func (m *machine) store(r refT, v Value, lhs wgen.Expr) {
	if r.oob {
		return
	}
	if r.root != nil && r.root.Kind == wgen.VStorage {
		m.ev.Stores++
	}
	r.cell.Assign(v)
}

// ConstOK evaluates a constant expression strictly: it reports false when
// WGSL would (or might) reject the expression at shader-creation time —
// integer division by zero or overflow, over-wide shifts, non-finite floats,
// builtins outside their domain.
func ConstOK(e wgen.Expr) (ok bool) {
	defer func() {
		if r := recover(); r != nil {
			ok = false
		}
	}()
	m := &machine{ev: &Events{}, limit: 100000, globals: map[*wgen.Var]*Value{}, private: map[*wgen.Var]*Value{}, constMode: true}
	m.fr = &frame{vars: map[*wgen.Var]*Value{}}
	m.eval(e)
	ev := m.ev
	return ev.NonFinite == 0 && ev.Subnormal == 0 && ev.DivZero == 0 && ev.DivOverflow == 0 && ev.NegOverflow == 0 &&
		ev.F2IRange == 0 && ev.F2INaN == 0 && ev.ShiftWide == 0 && ev.UndefBuiltin == 0 && ev.Imprecise == 0 && ev.BitsClamp == 0 && ev.ClampInv == 0 && ev.IntOverflow == 0 && ev.OOB == 0 && ev.FuzzyUse == 0
}

// AbsWideUnjudged makes ConstEval skip expressions with an abstract-int
// intermediate outside the i32 range (set by checks while the corresponding
// finding is open).
var AbsWideUnjudged bool

// ConstClass classifies a constant expression.
type ConstClass int

// Constant-expression classes.
const (
	ConstValue       ConstClass = iota // WGSL determines the value
	ConstMustReject                    // WGSL makes the expression a shader-creation error of a class the property names
	ConstUnspecified                   // outside what the check judges (concrete overflow, over-wide shift, non-finite float …)
)

// ConstEval evaluates a constant expression with WGSL's const-evaluation
// rules (abstract integers in 64 bits, abstract floats in binary64) and
// converts the result to dst (nil: keep / concretise by default rules).
// decls are module-scope constants the expression may refer to.
// LastConstRoundTies is the number of round() calls at an exact .5 tie met by the
// latest ConstEval (callers that build a run-time twin need it: targets with an
// implementation-defined tie direction cannot be compared there).
var LastConstRoundTies int

func ConstEval(e wgen.Expr, dst *wgen.Type, decls []*wgen.Var) (v Value, class ConstClass, why string) {
	m := &machine{ev: &Events{}, limit: 200000, globals: map[*wgen.Var]*Value{}, private: map[*wgen.Var]*Value{}, constMode: true}
	m.fr = &frame{vars: map[*wgen.Var]*Value{}}
	defer func() {
		if r := recover(); r != nil {
			if ep, ok := r.(evalPanic); ok {
				class, why = ConstUnspecified, ep.err.Error()
				return
			}
			panic(r)
		}
	}()
	for _, d := range decls {
		dv := m.eval(d.Init)
		if !d.NoType {
			dv = m.convertTo(dv, d.T)
		}
		cell := dv
		m.globals[d] = &cell
	}
	v = m.eval(e)
	if dst != nil {
		v = m.convertTo(v, dst)
	} else {
		v = m.concretizeDefault(v)
	}
	ev := m.ev
	LastConstRoundTies = ev.RoundTie
	switch {
	case ev.AbsWide > 0 && AbsWideUnjudged:
		return v, ConstUnspecified, "abstract-int intermediate outside the i32 range (open finding)"
	case (ev.NotRepresentable > 0 || ev.DivZero > 0) && ev.AbsOverflow+ev.IntOverflow+ev.ShiftWide+ev.NegOverflow+ev.DivOverflow > 0:
		// the error is only reached through a wrapped / overflowed concrete intermediate
		// (4294967295u + 1u, (-65536i) << 16u), whose own treatment is not judged
		return v, ConstUnspecified, "outside the judged domain"
	case ev.NotRepresentable > 0:
		return v, ConstMustReject, "value not representable in its type"
	case ev.DivZero > 0:
		return v, ConstMustReject, "integer division by zero"
	case ev.AbsOverflow > 0, ev.IntOverflow > 0, ev.DivOverflow > 0, ev.NegOverflow > 0, ev.ShiftWide > 0, ev.NonFinite > 0, ev.Subnormal > 0,
		ev.F2IRange > 0, ev.F2INaN > 0, ev.UndefBuiltin > 0, ev.Imprecise > 0, ev.Cancel > 0, ev.OOB > 0, ev.FuzzyUse > 0, ev.BitsClamp > 0, ev.ClampInv > 0:
		return v, ConstUnspecified, "outside the judged domain"
	}
	return v, ConstValue, ""
}

// concretizeDefault applies WGSL's default concretisation (abstract-int ->
// i32, abstract-float -> f32) to a value.
func (m *machine) concretizeDefault(v Value) Value {
	if v.T == nil {
		return v
	}
	switch v.T.K {
	case wgen.TScalar:
		switch v.T.S {
		case wgen.AbsInt:
			return m.convertTo(v, wgen.TI32)
		case wgen.AbsFloat:
			return m.convertTo(v, wgen.TF32)
		}
	case wgen.TVec:
		if v.T.S == wgen.AbsInt {
			return m.convertTo(v, wgen.Vec(v.T.N, wgen.I32))
		}
		if v.T.S == wgen.AbsFloat {
			return m.convertTo(v, wgen.Vec(v.T.N, wgen.F32))
		}
	}
	return v
}

// clampIndex implements the "restrict" bounds-check policy.
func (m *machine) clampIndex(iv Value, n int) int {
	var i int64
	switch iv.T.S {
	case wgen.I32:
		i = int64(int32(iv.B))
		if i < 0 {
			if m.cfg.ClampNegToZero {
				return 0
			}
			return n - 1
		}
	case wgen.U32:
		i = int64(iv.B)
	}
	if i >= int64(n) {
		return n - 1
	}
	return int(i)
}

// ConstEvalWith is ConstEval with override values bound.
func ConstEvalWith(e wgen.Expr, dst *wgen.Type, decls []*wgen.Var, overrides map[*wgen.Var]Value) (v Value, class ConstClass, why string) {
	m := &machine{ev: &Events{}, limit: 200000, globals: map[*wgen.Var]*Value{}, private: map[*wgen.Var]*Value{}, constMode: true}
	m.fr = &frame{vars: map[*wgen.Var]*Value{}}
	defer func() {
		if r := recover(); r != nil {
			if ep, ok := r.(evalPanic); ok {
				class, why = ConstUnspecified, ep.err.Error()
				return
			}
			panic(r)
		}
	}()
	for k, ov := range overrides {
		cell := ov
		m.globals[k] = &cell
	}
	for _, d := range decls {
		dv := m.eval(d.Init)
		if !d.NoType {
			dv = m.convertTo(dv, d.T)
		}
		cell := dv
		m.globals[d] = &cell
	}
	v = m.eval(e)
	if dst != nil {
		v = m.convertTo(v, dst)
	}
	if m.ev.DivZero+m.ev.NotRepresentable+m.ev.IntOverflow+m.ev.NonFinite > 0 {
		return v, ConstUnspecified, "outside the judged domain"
	}
	return v, ConstValue, ""
}
