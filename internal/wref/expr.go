package wref

import (
	"fmt"
	"math"

	"verif/internal/wgen"
)

func (m *machine) eval(e wgen.Expr) Value {
	m.step()
	switch x := e.(type) {
	case *wgen.Lit:
		return Value{T: x.T, B: x.Bits, I: x.I, F: x.F}
	case *wgen.Paren:
		return m.eval(x.X)
	case *wgen.VarRef:
		c := m.lookup(x.V)
		if x.V.Kind == wgen.VStorage || x.V.Kind == wgen.VUniform {
			m.ev.Loads++
		}
		return c.Clone()
	case *wgen.Unary:
		v := m.eval(x.X)
		return m.unary(x.Op, v)
	case *wgen.Binary:
		if x.Op == "&&" || x.Op == "||" {
			m.op("shortcircuit")
			l := m.eval(x.L)
			m.discrete(l)
			if x.Op == "&&" && !l.Bool() {
				return BoolV(false)
			}
			if x.Op == "||" && l.Bool() {
				return BoolV(true)
			}
			r := m.eval(x.R)
			m.discrete(r)
			return BoolV(r.Bool())
		}
		l := m.eval(x.L)
		r := m.eval(x.R)
		return m.binary(x.Op, l, r, x.T)
	case *wgen.CallE:
		return m.call(x)
	case *wgen.Builtin:
		return m.builtin(x)
	case *wgen.Construct:
		return m.construct(x)
	case *wgen.Index:
		if wgen.IsRef(x) {
			r := m.ref(x)
			m.noteLoad(r)
			if _, zero := m.oobPolicy(r.root); r.oob && zero {
				return Zero(x.T, 0)
			}
			return r.load()
		}
		base := m.eval(x.X)
		iv := m.eval(x.I)
		m.discrete(iv)
		m.op("index")
		i, ok := indexOf(iv, len(base.E))
		if !ok && m.cfg.ClampOOB && len(base.E) > 0 {
			m.ev.OOB++
			return base.E[m.clampIndex(iv, len(base.E))]
		}
		if !ok {
			m.ev.OOB++
			if m.cfg.ZeroOOBReads || len(base.E) == 0 {
				return Zero(x.T, 0)
			}
			i = 0
		}
		return base.E[i]
	case *wgen.MemberE:
		if wgen.IsRef(x) {
			r := m.ref(x)
			m.noteLoad(r)
			return r.load()
		}
		base := m.eval(x.X)
		return base.E[x.Idx]
	case *wgen.Swizzle:
		m.op("swizzle")
		if wgen.IsRef(x) {
			r := m.ref(x)
			m.noteLoad(r)
			return r.load()
		}
		base := m.eval(x.X)
		if len(x.Comps) == 1 {
			return base.E[x.Comps[0]]
		}
		out := Value{T: x.T, E: make([]Value, len(x.Comps))}
		for i, c := range x.Comps {
			out.E[i] = base.E[c]
		}
		return out
	case *wgen.AddrOf:
		r := m.ref(x.X)
		return Value{T: x.Type(), pcell: r.cell}
	case *wgen.Deref:
		p := m.eval(x.X)
		return p.ptr().Clone()
	}
	m.fail(fmt.Errorf("wref: expr %T", e))
	return Value{}
}

func (m *machine) noteLoad(r refT) {
	if r.root != nil && (r.root.Kind == wgen.VStorage || r.root.Kind == wgen.VUniform) {
		m.ev.Loads++
	}
}

func (m *machine) call(x *wgen.CallE) Value {
	m.op("call")
	f := x.Fn
	args := make([]Value, len(x.Args))
	for i, a := range x.Args {
		args[i] = m.convertTo(m.eval(a), f.Params[i].T)
	}
	m.depth++
	if m.depth > 64 {
		m.fail(fmt.Errorf("wref: call depth"))
	}
	saved := m.fr
	m.fr = &frame{vars: map[*wgen.Var]*Value{}}
	for i, p := range f.Params {
		c := args[i]
		m.fr.vars[p] = &c
	}
	m.execBlock(f.Body, true)
	ret := m.fr.ret
	m.fr = saved
	m.depth--
	if f.Ret != nil {
		return m.convertTo(ret, f.Ret)
	}
	return Value{}
}

// ---------------------------------------------------------------------------
// Conversions

func toI64(v Value) int64 {
	switch v.T.S {
	case wgen.I32:
		return int64(int32(v.B))
	case wgen.U32:
		return int64(v.B)
	case wgen.AbsInt:
		return v.I
	case wgen.Bool:
		return int64(v.B)
	}
	return 0
}

// convertTo applies WGSL's automatic conversions (abstract -> concrete) so
// that the value has type t; concrete values of the right type pass through.
func (m *machine) convertTo(v Value, t *wgen.Type) Value {
	if v.T == nil || t == nil {
		return v
	}
	switch t.K {
	case wgen.TScalar:
		if v.T.K != wgen.TScalar && v.T.K != wgen.TAtomic {
			return v
		}
		if v.T.S == t.S {
			v.T = t
			return v
		}
		switch v.T.S {
		case wgen.AbsInt:
			switch t.S {
			case wgen.I32:
				if v.I < math.MinInt32 || v.I > math.MaxInt32 {
					m.ev.NotRepresentable++
				}
				return Value{T: t, B: uint32(int32(v.I))}
			case wgen.U32:
				if v.I < 0 || v.I > math.MaxUint32 {
					m.ev.NotRepresentable++
				}
				return Value{T: t, B: uint32(v.I)}
			case wgen.F32:
				return Value{T: t, B: math.Float32bits(float32(v.I))}
			case wgen.AbsFloat:
				return Value{T: t, F: float64(v.I)}
			}
		case wgen.AbsFloat:
			if t.S == wgen.F32 {
				f := float32(v.F)
				if math.IsInf(float64(f), 0) && !math.IsInf(v.F, 0) {
					m.ev.NotRepresentable++
				}
				return Value{T: t, B: math.Float32bits(f)}
			}
		}
		return v
	case wgen.TVec, wgen.TMat, wgen.TArray, wgen.TStruct:
		if v.E == nil {
			return v
		}
		out := Value{T: t, E: make([]Value, len(v.E))}
		for i := range v.E {
			var et *wgen.Type
			switch t.K {
			case wgen.TVec:
				et = t.ScalarOf()
			case wgen.TMat:
				et = t.ColumnType()
			case wgen.TArray:
				et = t.Elem
			case wgen.TStruct:
				et = t.St.Members[i].T
			}
			out.E[i] = m.convertTo(v.E[i], et)
		}
		return out
	}
	return v
}

// ---------------------------------------------------------------------------
// Unary / binary operators

func (m *machine) mapN(rt *wgen.Type, f func(i int) Value, n int) Value {
	if rt.K == wgen.TScalar {
		v := f(0)
		v.T = rt
		return v
	}
	out := Value{T: rt, E: make([]Value, n)}
	for i := 0; i < n; i++ {
		out.E[i] = f(i)
		out.E[i].T = rt.ScalarOf()
	}
	return out
}

func comp(v Value, i int) Value {
	if v.E == nil {
		return v
	}
	return v.E[i]
}

func (m *machine) unary(op string, v Value) Value {
	m.op("unary" + op)
	if v.T.K == wgen.TMat {
		out := v.Clone()
		for c := range out.E {
			out.E[c] = m.unary(op, out.E[c])
		}
		return out
	}
	return m.mapN(v.T, func(i int) Value {
		a := comp(v, i)
		switch op {
		case "-":
			switch a.T.S {
			case wgen.I32:
				if int32(a.B) == math.MinInt32 {
					m.ev.NegOverflow++
				}
				return Value{B: uint32(-int32(a.B))}
			case wgen.F32, wgen.F16:
				return Value{B: a.B ^ 0x80000000, Fz: a.Fz}
			case wgen.AbsInt:
				return Value{I: -a.I}
			case wgen.AbsFloat:
				return Value{F: -a.F}
			}
		case "!":
			return Value{B: a.B ^ 1}
		case "~":
			if a.T.S == wgen.AbsInt {
				return Value{I: ^a.I}
			}
			return Value{B: ^a.B}
		}
		m.fail(fmt.Errorf("wref: unary %s on %s", op, v.T))
		return Value{}
	}, v.T.Width())
}

func isCmp(op string) bool {
	switch op {
	case "==", "!=", "<", "<=", ">", ">=":
		return true
	}
	return false
}

func (m *machine) binary(op string, a, b Value, rt *wgen.Type) Value {
	m.op("bin" + op)
	// unify abstract operands with the concrete side
	if a.T.K != wgen.TMat && b.T.K != wgen.TMat && a.T.S != b.T.S && op != "<<" && op != ">>" {
		if a.T.S.IsAbstract() && !b.T.S.IsAbstract() {
			a = m.convertTo(a, a.T.WithKind(b.T.S))
		} else if b.T.S.IsAbstract() && !a.T.S.IsAbstract() {
			b = m.convertTo(b, b.T.WithKind(a.T.S))
		} else if a.T.S == wgen.AbsInt && b.T.S == wgen.AbsFloat {
			a = m.convertTo(a, a.T.WithKind(wgen.AbsFloat))
		} else if b.T.S == wgen.AbsInt && a.T.S == wgen.AbsFloat {
			b = m.convertTo(b, b.T.WithKind(wgen.AbsFloat))
		}
	}
	if a.T.K == wgen.TMat || b.T.K == wgen.TMat {
		return m.matBinary(op, a, b, rt)
	}
	n := a.T.Width()
	if b.T.Width() > n {
		n = b.T.Width()
	}
	if rt == nil {
		// derive
		shape := a.T
		if b.T.Width() > a.T.Width() {
			shape = b.T
		}
		if isCmp(op) {
			rt = shape.WithKind(wgen.Bool)
		} else {
			rt = shape
		}
	}
	return m.mapN(rt, func(i int) Value { return m.scalarBinary(op, comp(a, i), comp(b, i)) }, n)
}

func (m *machine) fres(r64 float64, fz bool) Value {
	r := float32(r64)
	if math.IsNaN(float64(r)) || math.IsInf(float64(r), 0) {
		m.ev.NonFinite++
	}
	if IsSubnormal32(r) {
		m.ev.Subnormal++
	}
	if float64(r) != r64 {
		// rounding happened: the correctly rounded result is still determined for
		// + - * (WGSL: correctly rounded), so keep it exact unless fz says otherwise
	}
	return Value{B: math.Float32bits(r), Fz: fz}
}

func (m *machine) scalarBinary(op string, a, b Value) Value {
	r := m.scalarBinary0(op, a, b)
	if a.T.S == wgen.AbsInt && !isCmp(op) && (r.I > math.MaxInt32 || r.I < math.MinInt32) {
		m.ev.AbsWide++
	}
	if a.T.S.IsFloat() && (op == "+" || op == "-") && !m.constMode && (a.Fz || b.Fz) {
		x, y, z := math.Abs(float64(a.F32())), math.Abs(float64(b.F32())), math.Abs(float64(r.F32()))
		if x != 0 && y != 0 && z < 1e-3*math.Max(x, y) {
			m.ev.Imprecise++ // cancellation of inexact operands (see sumProducts)
		}
	}
	if a.T.S.IsFloat() && (op == "+" || op == "-") && m.constMode {
		x, y, z := math.Abs(float64(a.F32())), math.Abs(float64(b.F32())), math.Abs(float64(r.F32()))
		if a.T.S == wgen.AbsFloat {
			x, y, z = math.Abs(a.F), math.Abs(b.F), math.Abs(r.F)
		}
		if x != 0 && y != 0 && z < 1e-4*math.Max(x, y) {
			m.ev.Cancel++
		}
	}
	return r
}

func (m *machine) scalarBinary0(op string, a, b Value) Value {
	k := a.T.S
	if op == "<<" || op == ">>" {
		return m.shift(op, a, b)
	}
	switch k {
	case wgen.Bool:
		switch op {
		case "&", "&&":
			return Value{B: a.B & b.B}
		case "|", "||":
			return Value{B: a.B | b.B}
		case "==":
			return BoolV(a.B == b.B)
		case "!=":
			return BoolV(a.B != b.B)
		}
	case wgen.I32:
		x, y := int32(a.B), int32(b.B)
		switch op {
		case "+":
			if int64(x)+int64(y) != int64(x+y) {
				m.ev.IntOverflow++
			}
			return Value{B: uint32(x + y)}
		case "-":
			if int64(x)-int64(y) != int64(x-y) {
				m.ev.IntOverflow++
			}
			return Value{B: uint32(x - y)}
		case "*":
			if int64(x)*int64(y) != int64(x*y) {
				m.ev.IntOverflow++
			}
			return Value{B: uint32(x * y)}
		case "/":
			if y == 0 {
				m.ev.DivZero++
			} else if x == math.MinInt32 && y == -1 {
				m.ev.DivOverflow++
			}
			return Value{B: uint32(DivI32(x, y))}
		case "%":
			if y == 0 {
				m.ev.DivZero++
			} else if x == math.MinInt32 && y == -1 {
				m.ev.DivOverflow++
			}
			if x < 0 || y < 0 {
				m.ev.RemNeg++
			}
			return Value{B: uint32(RemI32(x, y))}
		case "&":
			return Value{B: a.B & b.B}
		case "|":
			return Value{B: a.B | b.B}
		case "^":
			return Value{B: a.B ^ b.B}
		case "==":
			return BoolV(x == y)
		case "!=":
			return BoolV(x != y)
		case "<":
			return BoolV(x < y)
		case "<=":
			return BoolV(x <= y)
		case ">":
			return BoolV(x > y)
		case ">=":
			return BoolV(x >= y)
		}
	case wgen.U32:
		x, y := a.B, b.B
		switch op {
		case "+":
			if uint64(x)+uint64(y) != uint64(x+y) {
				m.ev.IntOverflow++
			}
			return Value{B: x + y}
		case "-":
			if y > x {
				m.ev.IntOverflow++
			}
			return Value{B: x - y}
		case "*":
			if uint64(x)*uint64(y) != uint64(x*y) {
				m.ev.IntOverflow++
			}
			return Value{B: x * y}
		case "/":
			if y == 0 {
				m.ev.DivZero++
			}
			return Value{B: DivU32(x, y)}
		case "%":
			if y == 0 {
				m.ev.DivZero++
			}
			return Value{B: RemU32(x, y)}
		case "&":
			return Value{B: x & y}
		case "|":
			return Value{B: x | y}
		case "^":
			return Value{B: x ^ y}
		case "==":
			return BoolV(x == y)
		case "!=":
			return BoolV(x != y)
		case "<":
			return BoolV(x < y)
		case "<=":
			return BoolV(x <= y)
		case ">":
			return BoolV(x > y)
		case ">=":
			return BoolV(x >= y)
		}
	case wgen.F32, wgen.F16:
		x, y := float64(a.F32()), float64(b.F32())
		fz := a.Fz || b.Fz
		if IsSubnormal32(a.F32()) || IsSubnormal32(b.F32()) {
			m.ev.Subnormal++
		}
		switch op {
		case "+":
			return m.fres(x+y, fz)
		case "-":
			return m.fres(x-y, fz)
		case "*":
			return m.fres(x*y, fz)
		case "/":
			// WGSL: 2.5 ULP for |y| in [2^-126, 2^126]: never bit-determined
			return m.fres(x/y, true)
		case "%":
			// WGSL: accuracy inherited from x - y*trunc(x/y); when the quotient is
			// large that formula is far from the exact remainder and nothing can be compared
			exact := math.Mod(x, y)
			q := float32(x) / float32(y)
			formula := float64(float32(x) - float32(y)*float32(math.Trunc(float64(q))))
			if math.Abs(formula-exact) > 1e-4*math.Abs(y) {
				m.ev.Imprecise++
			}
			// an inexact operand: the remainder is a discontinuous function of x / y and
			// its absolute error is err(x) + |trunc(x/y)|*err(y), unbounded relative to the
			// (possibly tiny) result; only |x| safely below |y| (result = x) can be compared
			if fz && !(math.Abs(x) < math.Abs(y)*(1-1e-2)) {
				m.ev.Imprecise++
			}
			return m.fres(exact, true)
		}
		if isCmp(op) {
			if fz {
				m.ev.FuzzyUse++
			}
			switch op {
			case "==":
				return BoolV(x == y)
			case "!=":
				return BoolV(x != y)
			case "<":
				return BoolV(x < y)
			case "<=":
				return BoolV(x <= y)
			case ">":
				return BoolV(x > y)
			case ">=":
				return BoolV(x >= y)
			}
		}
	case wgen.AbsInt:
		x, y := a.I, b.I
		switch op {
		case "+":
			r := x + y
			if (x > 0 && y > 0 && r < 0) || (x < 0 && y < 0 && r >= 0) {
				m.ev.AbsOverflow++
			}
			return Value{I: r}
		case "-":
			r := x - y
			if (x >= 0 && y < 0 && r < 0) || (x < 0 && y > 0 && r >= 0) {
				m.ev.AbsOverflow++
			}
			return Value{I: r}
		case "*":
			r := x * y
			if x != 0 && (r/x != y || (x == -1 && y == math.MinInt64)) {
				m.ev.AbsOverflow++
			}
			return Value{I: r}
		case "/":
			if y == 0 {
				m.ev.DivZero++
				return Value{I: 0}
			}
			if x == math.MinInt64 && y == -1 {
				m.ev.AbsOverflow++
				return Value{I: x}
			}
			return Value{I: x / y}
		case "%":
			if y == 0 {
				m.ev.DivZero++
				return Value{I: 0}
			}
			if y == -1 {
				return Value{I: 0}
			}
			return Value{I: x % y}
		case "&":
			return Value{I: x & y}
		case "|":
			return Value{I: x | y}
		case "^":
			return Value{I: x ^ y}
		case "==":
			return BoolV(x == y)
		case "!=":
			return BoolV(x != y)
		case "<":
			return BoolV(x < y)
		case "<=":
			return BoolV(x <= y)
		case ">":
			return BoolV(x > y)
		case ">=":
			return BoolV(x >= y)
		}
	case wgen.AbsFloat:
		x, y := a.F, b.F
		absf := func(r float64) Value {
			// an abstract-float result that is not finite is a shader-creation error
			if math.IsNaN(r) || math.IsInf(r, 0) {
				m.ev.NonFinite++
			}
			return Value{F: r}
		}
		switch op {
		case "+":
			return absf(x + y)
		case "-":
			return absf(x - y)
		case "*":
			return absf(x * y)
		case "/":
			return absf(x / y)
		case "==":
			return BoolV(x == y)
		case "!=":
			return BoolV(x != y)
		case "<":
			return BoolV(x < y)
		case "<=":
			return BoolV(x <= y)
		case ">":
			return BoolV(x > y)
		case ">=":
			return BoolV(x >= y)
		}
	}
	m.fail(fmt.Errorf("wref: binary %s on %s", op, a.T))
	return Value{}
}

func (m *machine) shift(op string, a, b Value) Value {
	n := b.B
	if b.T.S == wgen.AbsInt {
		n = uint32(b.I)
	}
	if n >= 32 && a.T.S != wgen.AbsInt {
		m.ev.ShiftWide++
	}
	n &= 31
	switch a.T.S {
	case wgen.I32:
		if op == "<<" {
			if int64(int32(a.B))<<n != int64(int32(a.B<<n)) {
				m.ev.IntOverflow++
			}
			return Value{B: a.B << n}
		}
		return Value{B: uint32(int32(a.B) >> n)}
	case wgen.U32:
		if op == "<<" {
			if uint64(a.B)<<n != uint64(a.B<<n) {
				m.ev.IntOverflow++
			}
			return Value{B: a.B << n}
		}
		return Value{B: a.B >> n}
	case wgen.AbsInt:
		// abstract shifts are not reduced modulo 32
		big := b.B
		if b.T.S == wgen.AbsInt {
			big = uint32(b.I)
		}
		if big >= 63 {
			m.ev.AbsOverflow++
			big = 62
		}
		if op == "<<" {
			r := a.I << big
			if r>>big != a.I {
				m.ev.AbsOverflow++
			}
			return Value{I: r}
		}
		return Value{I: a.I >> big}
	}
	m.fail(fmt.Errorf("wref: shift on %s", a.T))
	return Value{}
}

// sumProducts computes sum_i x[i]*y[i] in binary32, left to right, and flags
// the result fuzzy unless every product and partial sum is exact under any
// association (grid rule, DESIGN §3.1).
func (m *machine) sumProducts(xs, ys []Value) Value {
	fz := false
	abs := 0.0
	var acc float32
	for i := range xs {
		x, y := float64(xs[i].F32()), float64(ys[i].F32())
		fz = fz || xs[i].Fz || ys[i].Fz
		p := x * y
		if !onGrid(p) {
			fz = true
		}
		abs += math.Abs(p)
		if i == 0 {
			acc = float32(p)
		} else {
			acc = float32(float64(acc) + float64(float32(p)))
		}
	}
	if abs >= 2048 {
		fz = true
	}
	if fz && math.Abs(float64(acc)) < 1e-3*abs {
		// inexact terms that cancel: the error of the sum is of the order of the terms, not of the
		// result, and no relative tolerance makes the comparison sound
		m.ev.Imprecise++
	}
	return m.fres(float64(acc), fz)
}

func (m *machine) matBinary(op string, a, b Value, rt *wgen.Type) Value {
	switch {
	case a.T.K == wgen.TMat && b.T.K == wgen.TMat && (op == "+" || op == "-"):
		out := Value{T: a.T, E: make([]Value, len(a.E))}
		for c := range a.E {
			out.E[c] = m.binary(op, a.E[c], b.E[c], a.E[c].T)
		}
		return out
	case a.T.K == wgen.TMat && b.T.K == wgen.TScalar && op == "*":
		out := Value{T: a.T, E: make([]Value, len(a.E))}
		for c := range a.E {
			out.E[c] = m.binary(op, a.E[c], b, a.E[c].T)
		}
		return out
	case a.T.K == wgen.TScalar && b.T.K == wgen.TMat && op == "*":
		out := Value{T: b.T, E: make([]Value, len(b.E))}
		for c := range b.E {
			out.E[c] = m.binary(op, a, b.E[c], b.E[c].T)
		}
		return out
	case a.T.K == wgen.TMat && b.T.K == wgen.TVec && op == "*":
		// (C cols x R rows) * vecC -> vecR
		C, R := a.T.N, a.T.R
		out := Value{T: wgen.Vec(R, a.T.S), E: make([]Value, R)}
		for r := 0; r < R; r++ {
			xs := make([]Value, C)
			for c := 0; c < C; c++ {
				xs[c] = a.E[c].E[r]
			}
			out.E[r] = m.sumProducts(xs, b.E)
			out.E[r].T = wgen.Scalar(a.T.S)
		}
		return out
	case a.T.K == wgen.TVec && b.T.K == wgen.TMat && op == "*":
		// vecR * (C x R) -> vecC
		C := b.T.N
		out := Value{T: wgen.Vec(C, b.T.S), E: make([]Value, C)}
		for c := 0; c < C; c++ {
			out.E[c] = m.sumProducts(a.E, b.E[c].E)
			out.E[c].T = wgen.Scalar(b.T.S)
		}
		return out
	case a.T.K == wgen.TMat && b.T.K == wgen.TMat && op == "*":
		// a: K cols x R rows ; b: C cols x K rows -> C cols x R rows
		K, R, C := a.T.N, a.T.R, b.T.N
		out := Value{T: wgen.Mat(C, R, a.T.S), E: make([]Value, C)}
		for c := 0; c < C; c++ {
			col := Value{T: wgen.Vec(R, a.T.S), E: make([]Value, R)}
			for r := 0; r < R; r++ {
				xs := make([]Value, K)
				for k := 0; k < K; k++ {
					xs[k] = a.E[k].E[r]
				}
				col.E[r] = m.sumProducts(xs, b.E[c].E)
				col.E[r].T = wgen.Scalar(a.T.S)
			}
			out.E[c] = col
		}
		return out
	}
	m.fail(fmt.Errorf("wref: matrix op %s on %s, %s", op, a.T, b.T))
	return Value{}
}

// ---------------------------------------------------------------------------
// Constructors

func flatten(v Value, out *[]Value) {
	if v.E == nil {
		*out = append(*out, v)
		return
	}
	for i := range v.E {
		flatten(v.E[i], out)
	}
}

func (m *machine) construct(x *wgen.Construct) Value {
	m.op("construct")
	t := x.T
	if len(x.Args) == 0 {
		return Zero(t, 0)
	}
	args := make([]Value, len(x.Args))
	for i, a := range x.Args {
		args[i] = m.eval(a)
	}
	switch t.K {
	case wgen.TScalar:
		return m.convScalar(args[0], t.S)
	case wgen.TVec:
		if len(args) == 1 && args[0].T.K == wgen.TScalar {
			s := m.convScalar(args[0], t.S)
			out := Value{T: t, E: make([]Value, t.N)}
			for i := range out.E {
				out.E[i] = s
			}
			return out
		}
		var flat []Value
		for _, a := range args {
			flatten(a, &flat)
		}
		if len(flat) != t.N {
			m.fail(fmt.Errorf("wref: vec constructor arity"))
		}
		out := Value{T: t, E: make([]Value, t.N)}
		for i := range flat {
			out.E[i] = m.convScalar(flat[i], t.S)
		}
		return out
	case wgen.TMat:
		if len(args) == 1 && args[0].T.K == wgen.TMat {
			return m.convertTo(args[0], t)
		}
		var flat []Value
		for _, a := range args {
			flatten(a, &flat)
		}
		if len(flat) != t.N*t.R {
			m.fail(fmt.Errorf("wref: mat constructor arity"))
		}
		out := Value{T: t, E: make([]Value, t.N)}
		for c := 0; c < t.N; c++ {
			col := Value{T: t.ColumnType(), E: make([]Value, t.R)}
			for r := 0; r < t.R; r++ {
				col.E[r] = m.convScalar(flat[c*t.R+r], t.S)
			}
			out.E[c] = col
		}
		return out
	case wgen.TArray:
		out := Value{T: t, E: make([]Value, len(args))}
		for i := range args {
			out.E[i] = m.convertTo(args[i], t.Elem)
		}
		return out
	case wgen.TStruct:
		out := Value{T: t, E: make([]Value, len(args))}
		for i := range args {
			out.E[i] = m.convertTo(args[i], t.St.Members[i].T)
		}
		return out
	}
	m.fail(fmt.Errorf("wref: construct %s", t))
	return Value{}
}

// convScalar is the WGSL value conversion between scalar kinds.
func (m *machine) convScalar(v Value, k wgen.Kind) Value {
	t := wgen.Scalar(k)
	if v.T.S == k {
		v.T = t
		return v
	}
	if v.T.S == wgen.AbsFloat && k != wgen.F32 {
		// abstract-float concretises to f32 before a conversion to another kind;
		// when that rounding changes the value the outcome depends on the precision
		// an implementation evaluates with: not judged
		if float64(float32(v.F)) != v.F {
			m.ev.Imprecise++
		}
		v = m.convertTo(v, wgen.TF32)
	} else if v.T.S == wgen.AbsInt && k == wgen.Bool {
		return BoolV(v.I != 0)
	} else if v.T.S.IsAbstract() {
		return m.convertTo(v, t)
	}
	m.op("convert")
	src := v.T.S
	switch k {
	case wgen.Bool:
		switch src {
		case wgen.I32, wgen.U32:
			return BoolV(v.B != 0)
		case wgen.F32, wgen.F16:
			m.discrete(v)
			return BoolV(v.F32() != 0)
		}
	case wgen.I32:
		switch src {
		case wgen.Bool, wgen.U32:
			return Value{T: t, B: v.B}
		case wgen.F32, wgen.F16:
			m.discrete(v)
			f := v.F32()
			if f != f {
				m.ev.F2INaN++
				return Value{T: t}
			}
			r, ok := F32ToI32(f)
			if !ok {
				m.ev.F2IRange++
			}
			return Value{T: t, B: uint32(r)}
		}
	case wgen.U32:
		switch src {
		case wgen.Bool, wgen.I32:
			return Value{T: t, B: v.B}
		case wgen.F32, wgen.F16:
			m.discrete(v)
			f := v.F32()
			if f != f {
				m.ev.F2INaN++
				return Value{T: t}
			}
			r, ok := F32ToU32(f)
			if !ok {
				m.ev.F2IRange++
			} else if f < 0 {
				m.ev.F2UNeg++
			}
			return Value{T: t, B: r}
		}
	case wgen.F32:
		switch src {
		case wgen.Bool:
			if v.B != 0 {
				return F32V(1)
			}
			return F32V(0)
		case wgen.I32:
			r := F32V(float32(int32(v.B)))
			r.Fz = float64(r.F32()) != float64(int32(v.B)) // rounding direction not fixed by the targets
			return r
		case wgen.U32:
			r := F32V(float32(v.B))
			r.Fz = float64(r.F32()) != float64(v.B)
			return r
		case wgen.F16:
			v.T = t
			return v
		}
	}
	m.fail(fmt.Errorf("wref: convert %s -> %s", v.T, k))
	return Value{}
}
