package wref

import (
	"fmt"
	"math"
	"math/bits"

	"verif/internal/wgen"
)

func (m *machine) builtin(x *wgen.Builtin) Value {
	m.op("builtin:" + x.Name)
	switch x.Name {
	case "arrayLength":
		p := m.eval(x.Args[0])
		return U32V(uint32(len(p.ptr().E)))
	case "atomicLoad":
		p := m.eval(x.Args[0])
		v := p.ptr().Clone()
		v.T = wgen.Scalar(v.T.S)
		return v
	case "atomicStore":
		p := m.eval(x.Args[0])
		v := m.eval(x.Args[1])
		c := p.ptr()
		c.B = m.convertTo(v, wgen.Scalar(c.T.S)).B
		return Value{}
	case "atomicAdd", "atomicSub", "atomicMax", "atomicMin", "atomicAnd", "atomicOr", "atomicXor", "atomicExchange":
		p := m.eval(x.Args[0])
		c := p.ptr()
		k := c.T.S
		v := m.convertTo(m.eval(x.Args[1]), wgen.Scalar(k))
		old := Value{T: wgen.Scalar(k), B: c.B}
		a, b := c.B, v.B
		var r uint32
		switch x.Name {
		case "atomicAdd":
			r = a + b
		case "atomicSub":
			r = a - b
		case "atomicAnd":
			r = a & b
		case "atomicOr":
			r = a | b
		case "atomicXor":
			r = a ^ b
		case "atomicExchange":
			r = b
		case "atomicMax":
			if k == wgen.I32 {
				r = uint32(max(int32(a), int32(b)))
			} else {
				r = max(a, b)
			}
		case "atomicMin":
			if k == wgen.I32 {
				r = uint32(min(int32(a), int32(b)))
			} else {
				r = min(a, b)
			}
		}
		c.B = r
		return old
	case "bitcast":
		v := m.eval(x.Args[0])
		m.discrete(v)
		if st := v.T.ScalarOf(); st != nil && st.S == wgen.F32 && x.T.ScalarOf() != nil && x.T.ScalarOf().S != wgen.F32 {
			// WGSL lets an implementation ignore the sign of a zero (§14.6): the bit pattern of a
			// float zero observed through bitcast is not determined
			zero := false
			if v.T.K == wgen.TScalar {
				zero = v.B&0x7fffffff == 0
			} else {
				for _, c := range v.E {
					zero = zero || c.B&0x7fffffff == 0
				}
			}
			if zero {
				m.ev.FuzzyUse++
			}
		}
		return bitcastTo(v, x.T)
	case "select":
		f := m.eval(x.Args[0])
		t := m.eval(x.Args[1])
		c := m.eval(x.Args[2])
		m.discrete(c)
		f, t = m.convertTo(f, x.T), m.convertTo(t, x.T)
		if c.T.K == wgen.TScalar {
			if c.Bool() {
				return t
			}
			return f
		}
		out := Value{T: x.T, E: make([]Value, len(c.E))}
		for i := range c.E {
			if c.E[i].Bool() {
				out.E[i] = t.E[i]
			} else {
				out.E[i] = f.E[i]
			}
		}
		return out
	case "all", "any":
		v := m.eval(x.Args[0])
		if v.T.K == wgen.TScalar {
			return v
		}
		r := x.Name == "all"
		for _, e := range v.E {
			if x.Name == "all" {
				r = r && e.Bool()
			} else {
				r = r || e.Bool()
			}
		}
		return BoolV(r)
	}
	args := make([]Value, len(x.Args))
	for i, a := range x.Args {
		args[i] = m.eval(a)
	}
	return m.numBuiltin(x.Name, args, x.T)
}

func bitcastTo(v Value, t *wgen.Type) Value {
	var flat []Value
	flatten(v, &flat)
	if t.K == wgen.TScalar {
		return Value{T: t, B: flat[0].B}
	}
	out := Value{T: t, E: make([]Value, t.N)}
	for i := range out.E {
		out.E[i] = Value{T: t.ScalarOf(), B: flat[i].B}
	}
	return out
}

func (m *machine) numBuiltin(name string, args []Value, rt *wgen.Type) Value {
	// unify abstract arguments with the result's scalar kind
	for i := range args {
		if args[i].T != nil && (args[i].T.K == wgen.TScalar || args[i].T.K == wgen.TVec) && args[i].T.S.IsAbstract() && rt != nil && rt.K != wgen.TStruct {
			args[i] = m.convertTo(args[i], args[i].T.WithKind(rt.S))
		}
	}
	a0 := args[0]
	switch name {
	case "dot":
		if a0.T.S.IsFloat() {
			v := m.sumProducts(a0.E, args[1].E)
			v.T = rt
			return v
		}
		var acc Value
		ovf0 := m.ev.IntOverflow
		for i := range a0.E {
			p := m.scalarBinary("*", a0.E[i], args[1].E[i])
			p.T = rt
			if i == 0 {
				acc = p
			} else {
				acc = m.scalarBinary("+", acc, p)
				acc.T = rt
			}
		}
		if a0.T.S == wgen.I32 && m.ev.IntOverflow > ovf0 {
			m.ev.DotIntOverflow++
		}
		return acc
	case "cross":
		a, b := a0.E, args[1].E
		c := func(i, j int) Value {
			// a[i]*b[j] - a[j]*b[i]
			neg := b[i]
			neg.B ^= 0x80000000
			v := m.sumProducts([]Value{a[i], a[j]}, []Value{b[j], neg})
			v.T = rt.ScalarOf()
			return v
		}
		return Value{T: rt, E: []Value{c(1, 2), c(2, 0), c(0, 1)}}
	case "length":
		var flat []Value
		flatten(a0, &flat)
		s := 0.0
		for _, f := range flat {
			s += float64(f.F32()) * float64(f.F32())
		}
		m.sqSumRange(s)
		v := m.fres(math.Sqrt(s), true)
		v.T = rt
		return v
	case "distance":
		var fa, fb []Value
		flatten(a0, &fa)
		flatten(args[1], &fb)
		s := 0.0
		for i := range fa {
			d := float64(fa[i].F32()) - float64(fb[i].F32())
			s += d * d
		}
		m.sqSumRange(s)
		v := m.fres(math.Sqrt(s), true)
		v.T = rt
		return v
	case "normalize":
		s := 0.0
		for _, f := range a0.E {
			s += float64(f.F32()) * float64(f.F32())
		}
		if s == 0 {
			m.ev.UndefBuiltin++
		}
		m.sqSumRange(s)
		l := math.Sqrt(s)
		out := Value{T: rt, E: make([]Value, len(a0.E))}
		for i, f := range a0.E {
			out.E[i] = m.fres(float64(f.F32())/l, true)
			out.E[i].T = rt.ScalarOf()
		}
		return out
	case "transpose":
		C, R := a0.T.N, a0.T.R
		out := Value{T: rt, E: make([]Value, R)}
		for r := 0; r < R; r++ {
			col := Value{T: wgen.Vec(C, a0.T.S), E: make([]Value, C)}
			for c := 0; c < C; c++ {
				col.E[c] = a0.E[c].E[r]
			}
			out.E[r] = col
		}
		return out
	case "determinant":
		n := a0.T.N
		mat := make([][]float64, n)
		for r := 0; r < n; r++ {
			mat[r] = make([]float64, n)
			for c := 0; c < n; c++ {
				mat[r][c] = float64(a0.E[c].E[r].F32())
			}
		}
		d := det(mat)
		// the result is a sum of signed products: when it is small against the magnitude of its
		// terms (bounded by the product of the row sums of |a|) the float error of any evaluation
		// order dwarfs it, and WGSL gives no accuracy bound that would make a comparison sound
		bound := 1.0
		for r := 0; r < n; r++ {
			rs := 0.0
			for c := 0; c < n; c++ {
				rs += math.Abs(mat[r][c])
			}
			bound *= rs
		}
		if math.Abs(d) <= bound*1e-3 {
			m.ev.Imprecise++
		}
		v := m.fres(d, true)
		v.T = rt
		return v
	case "pack4x8unorm", "pack4x8snorm", "pack2x16unorm", "pack2x16snorm", "pack2x16float":
		return m.pack(name, a0)
	case "unpack4x8unorm", "unpack4x8snorm", "unpack2x16unorm", "unpack2x16snorm", "unpack2x16float":
		return m.unpack(name, a0, rt)
	case "dot4U8Packed":
		a, b := a0.B, args[1].B
		var s uint32
		for i := 0; i < 4; i++ {
			s += ((a >> (8 * i)) & 0xff) * ((b >> (8 * i)) & 0xff)
		}
		return U32V(s)
	case "dot4I8Packed":
		a, b := a0.B, args[1].B
		var s int32
		for i := 0; i < 4; i++ {
			s += int32(int8(a>>(8*i))) * int32(int8(b>>(8*i)))
		}
		return I32V(s)
	}
	// component-wise builtins
	n := rt.Width()
	if rt.K == wgen.TScalar || rt.K == wgen.TVec {
		return m.mapN(rt, func(i int) Value {
			cs := make([]Value, len(args))
			for j := range args {
				cs[j] = comp(args[j], i)
			}
			return m.scalarBuiltin(name, cs)
		}, n)
	}
	m.fail(fmt.Errorf("wref: builtin %s", name))
	return Value{}
}

func det(a [][]float64) float64 {
	n := len(a)
	if n == 1 {
		return a[0][0]
	}
	if n == 2 {
		return a[0][0]*a[1][1] - a[0][1]*a[1][0]
	}
	s := 0.0
	for c := 0; c < n; c++ {
		sub := make([][]float64, 0, n-1)
		for r := 1; r < n; r++ {
			row := []float64{}
			for cc := 0; cc < n; cc++ {
				if cc != c {
					row = append(row, a[r][cc])
				}
			}
			sub = append(sub, row)
		}
		t := a[0][c] * det(sub)
		if c%2 == 1 {
			t = -t
		}
		s += t
	}
	return s
}

func (m *machine) scalarBuiltin(name string, a []Value) Value {
	k := a[0].T.S
	if k == wgen.I32 || k == wgen.U32 {
		return m.intBuiltin(name, k, a)
	}
	if k.IsFloat() {
		return m.floatBuiltin(name, a)
	}
	m.fail(fmt.Errorf("wref: builtin %s on %s", name, a[0].T))
	return Value{}
}

func (m *machine) intBuiltin(name string, k wgen.Kind, a []Value) Value {
	x := a[0].B
	signed := k == wgen.I32
	switch name {
	case "abs":
		if signed {
			if int32(x) == math.MinInt32 {
				m.ev.NegOverflow++
			}
			if int32(x) < 0 {
				return Value{B: uint32(-int32(x))}
			}
		}
		return Value{B: x}
	case "min":
		if signed {
			return Value{B: uint32(min(int32(x), int32(a[1].B)))}
		}
		return Value{B: min(x, a[1].B)}
	case "max":
		if signed {
			return Value{B: uint32(max(int32(x), int32(a[1].B)))}
		}
		return Value{B: max(x, a[1].B)}
	case "clamp":
		// min(max(e, low), high)
		if (signed && int32(a[1].B) > int32(a[2].B)) || (!signed && a[1].B > a[2].B) {
			m.ev.ClampInv++
		}
		if signed {
			return Value{B: uint32(min(max(int32(x), int32(a[1].B)), int32(a[2].B)))}
		}
		return Value{B: min(max(x, a[1].B), a[2].B)}
	case "countOneBits":
		return Value{B: uint32(bits.OnesCount32(x))}
	case "countLeadingZeros":
		return Value{B: uint32(bits.LeadingZeros32(x))}
	case "countTrailingZeros":
		return Value{B: uint32(bits.TrailingZeros32(x))}
	case "reverseBits":
		return Value{B: bits.Reverse32(x)}
	case "firstLeadingBit":
		if signed {
			return Value{B: FirstLeadingBitI(int32(x))}
		}
		return Value{B: FirstLeadingBitU(x)}
	case "firstTrailingBit":
		return Value{B: FirstTrailingBit(x)}
	case "extractBits":
		if a[1].B > 32 || a[2].B > 32-min(a[1].B, 32) {
			m.ev.BitsClamp++
		}
		if signed {
			return Value{B: uint32(ExtractBitsI(int32(x), a[1].B, a[2].B))}
		}
		return Value{B: ExtractBitsU(x, a[1].B, a[2].B)}
	case "insertBits":
		if a[2].B > 32 || a[3].B > 32-min(a[2].B, 32) {
			m.ev.BitsClamp++
		}
		return Value{B: InsertBits(x, a[1].B, a[2].B, a[3].B)}
	case "sign":
		if int32(x) > 0 {
			return Value{B: 1}
		} else if int32(x) < 0 {
			return Value{B: 0xffffffff}
		}
		return Value{B: 0}
	}
	m.fail(fmt.Errorf("wref: int builtin %s", name))
	return Value{}
}

func (m *machine) floatBuiltin(name string, a []Value) Value {
	x := float64(a[0].F32())
	fz := false
	for _, v := range a {
		fz = fz || v.Fz
		if v.T.S.IsFloat() && IsSubnormal32(v.F32()) {
			m.ev.Subnormal++
		}
	}
	arg := func(i int) float64 { return float64(a[i].F32()) }
	step := func() {
		if fz {
			m.ev.FuzzyUse++
		}
	}
	switch name {
	case "abs":
		return Value{B: a[0].B &^ 0x80000000, Fz: fz}
	case "min":
		return m.fres(math.Min(x, arg(1)), fz)
	case "max":
		return m.fres(math.Max(x, arg(1)), fz)
	case "clamp":
		if arg(1) > arg(2) {
			m.ev.UndefBuiltin++
		}
		return m.fres(math.Min(math.Max(x, arg(1)), arg(2)), fz)
	case "saturate":
		return m.fres(math.Min(math.Max(x, 0), 1), fz)
	case "floor":
		step()
		return m.fres(math.Floor(x), false)
	case "ceil":
		step()
		return m.fres(math.Ceil(x), false)
	case "trunc":
		step()
		return m.fres(math.Trunc(x), false)
	case "round":
		step()
		if x-math.Floor(x) == 0.5 {
			m.ev.RoundTie++
		}
		return m.fres(math.RoundToEven(x), false)
	case "fract":
		step()
		r := x - math.Floor(x)
		return m.fres(r, float64(float32(r)) != r)
	case "sign":
		step()
		switch {
		case x > 0:
			return F32V(1)
		case x < 0:
			return F32V(-1)
		}
		return F32V(0)
	case "step":
		step()
		if arg(0) <= arg(1) {
			return F32V(1)
		}
		return F32V(0)
	case "sqrt":
		if x < 0 {
			m.ev.UndefBuiltin++
		}
		return m.fres(math.Sqrt(x), true)
	case "inverseSqrt":
		if x <= 0 {
			m.ev.UndefBuiltin++
		}
		return m.fres(1/math.Sqrt(x), true)
	case "exp":
		return m.fres(math.Exp(x), true)
	case "exp2":
		return m.fres(math.Exp2(x), true)
	case "log":
		if x <= 0 {
			m.ev.UndefBuiltin++
		}
		return m.fres(math.Log(x), true)
	case "log2":
		if x <= 0 {
			m.ev.UndefBuiltin++
		}
		return m.fres(math.Log2(x), true)
	case "sin", "cos", "tan":
		if math.Abs(x) > 256 {
			m.ev.Imprecise++ // absolute error bounds only hold on a bounded range
		}
		switch name {
		case "sin":
			return m.fres(math.Sin(x), true)
		case "cos":
			return m.fres(math.Cos(x), true)
		}
		if math.Abs(math.Cos(x)) < 1e-2 {
			m.ev.Imprecise++
		}
		return m.fres(math.Tan(x), true)
	case "atan":
		return m.fres(math.Atan(x), true)
	case "sinh":
		return m.fres(math.Sinh(x), true)
	case "cosh":
		return m.fres(math.Cosh(x), true)
	case "tanh":
		return m.fres(math.Tanh(x), true)
	case "asinh":
		return m.fres(math.Asinh(x), true)
	case "degrees":
		return m.fres(x*180/math.Pi, true)
	case "radians":
		return m.fres(x*math.Pi/180, true)
	case "pow":
		if x < 0 || (x == 0 && arg(1) <= 0) {
			m.ev.UndefBuiltin++
		}
		return m.fres(math.Pow(x, arg(1)), true)
	case "fma":
		p := x * arg(1)
		ok := onGrid(p) && onGrid(arg(2)) && math.Abs(p)+math.Abs(arg(2)) < 2048
		return m.fres(p+arg(2), fz || !ok)
	case "mix":
		// x*(1-a)+y*a
		t := arg(2)
		r := x*(1-t) + arg(1)*t
		if math.Abs(r) < 1e-3*(math.Abs(x*(1-t))+math.Abs(arg(1)*t)) {
			m.ev.Imprecise++ // the two products cancel (|t| large): the rounding error is of their order
		}
		// WGSL allows either x*(1-a)+y*a or x+(y-x)*a; evaluated in binary32 the second absorbs y
		// when |x| >> |y| (mix(1e30, 2.6, 1.0) is 0 that way)
		x32, y32, t32 := float32(x), float32(arg(1)), float32(t)
		alt := float64(x32 + (y32-x32)*t32)
		if d := math.Abs(alt - r); d > 1e-4*math.Abs(r) && d > 1e-30 {
			m.ev.Imprecise++
		}
		return m.fres(r, true)
	case "smoothstep":
		lo, hi := arg(0), arg(1)
		if lo >= hi {
			m.ev.UndefBuiltin++
		}
		t := math.Min(math.Max((arg(2)-lo)/(hi-lo), 0), 1)
		return m.fres(t*t*(3-2*t), true)
	case "ldexp":
		return m.fres(math.Ldexp(x, int(int32(a[1].B))), fz)
	}
	m.fail(fmt.Errorf("wref: float builtin %s", name))
	return Value{}
}

func nearTie(v float64) bool {
	f := v - math.Floor(v)
	return f > 0.499 && f < 0.501
}

func (m *machine) pack(name string, v Value) Value {
	m.discrete(v)
	var r uint32
	for i, e := range v.E {
		x := float64(e.F32())
		switch name {
		case "pack4x8unorm":
			s := 255 * math.Min(math.Max(x, 0), 1)
			if nearTie(s) {
				m.ev.UndefBuiltin++
			}
			r |= uint32(math.Floor(0.5+s)) << (8 * i)
		case "pack4x8snorm":
			s := 127 * math.Min(math.Max(x, -1), 1)
			if nearTie(s) {
				m.ev.UndefBuiltin++
			}
			r |= (uint32(int32(math.Floor(0.5+s))) & 0xff) << (8 * i)
		case "pack2x16unorm":
			s := 65535 * math.Min(math.Max(x, 0), 1)
			if nearTie(s) {
				m.ev.UndefBuiltin++
			}
			r |= uint32(math.Floor(0.5+s)) << (16 * i)
		case "pack2x16snorm":
			s := 32767 * math.Min(math.Max(x, -1), 1)
			if nearTie(s) {
				m.ev.UndefBuiltin++
			}
			r |= (uint32(int32(math.Floor(0.5+s))) & 0xffff) << (16 * i)
		case "pack2x16float":
			h := FloatToHalf(e.F32())
			if HalfToFloat(h) != e.F32() {
				m.ev.UndefBuiltin++ // not exactly representable: rounding left open
			}
			r |= uint32(h) << (16 * i)
		}
	}
	return U32V(r)
}

func (m *machine) unpack(name string, v Value, rt *wgen.Type) Value {
	out := Value{T: rt, E: make([]Value, rt.N)}
	for i := range out.E {
		var f float64
		fz := true
		switch name {
		case "unpack4x8unorm":
			f = float64((v.B>>(8*i))&0xff) / 255
		case "unpack4x8snorm":
			f = math.Max(float64(int8(v.B>>(8*i)))/127, -1)
		case "unpack2x16unorm":
			f = float64((v.B>>(16*i))&0xffff) / 65535
		case "unpack2x16snorm":
			f = math.Max(float64(int16(v.B>>(16*i)))/32767, -1)
		case "unpack2x16float":
			f = float64(HalfToFloat(uint16(v.B >> (16 * i))))
			fz = false
		}
		if float64(float32(f)) == f && (f == 0 || f == 1 || f == -1) {
			fz = false
		}
		out.E[i] = m.fres(f, fz)
		out.E[i].T = rt.ScalarOf()
	}
	return out
}

// sqSumRange: length / distance / normalize inherit their accuracy from
// sqrt(dot(e, e)); when the sum of squares leaves the binary32 normal range an
// implementation may return infinity / zero, so the result is not determined.
func (m *machine) sqSumRange(s float64) {
	if s > math.MaxFloat32 || (s != 0 && s < 0x1p-126) {
		m.ev.NonFinite++
	}
}
