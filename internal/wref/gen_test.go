package wref_test

import (
	"fmt"
	"os"
	"sort"
	"strings"
	"testing"

	"github.com/gogpu/naga"
	"github.com/gogpu/naga/spirv"
	"pgregory.net/rapid"
	"verif/internal/wgen"
	"verif/internal/wref"
)

// TestGenAccepted: development aid — how often does naga accept generated
// programs and does the reference evaluator run them.
func TestGenAccepted(t *testing.T) {
	rej := map[string]int{}
	rejSample := map[string]string{}
	dom := map[string]int{}
	n, ok := 0, 0
	rapid.Check(t, func(t *rapid.T) {
		f := wgen.DefaultFeatures()
		f.ConstOK = wref.ConstOK
		f.Off = func(tag string) bool { return offTags[tag] }
		c := wgen.GenExec(t, f)
		n++
		stage, err := compile(c.Src)
		if err != nil {
			msg := err.Error()
			if i := strings.Index(msg, "\n"); i > 0 {
				msg = msg[:i]
			}
			key := stage + ": " + trimPos(msg)
			rej[key]++
			if _, seen := rejSample[key]; !seen {
				rejSample[key] = msg + "\n" + c.Src
			}
			return
		}
		ok++
		res, err := wref.Run(wref.Config{Module: c.Mod, Entry: c.Entry, Buffers: c.Buffers, NumWorkgroups: c.NumWG})
		if err != nil {
			dom["error: "+err.Error()]++
			if os.Getenv("SHOW_ERR") != "" {
				t.Fatalf("wref error %v\n%s", err, c.Src)
			}
			return
		}
		d := res.Ev.OutOfDomain()
		if d == "" {
			d = "in-domain"
		}
		dom[d]++
	})
	fmt.Printf("generated %d accepted %d\n", n, ok)
	var keys []string
	for k := range rej {
		keys = append(keys, k)
	}
	sort.Slice(keys, func(i, j int) bool { return rej[keys[i]] > rej[keys[j]] })
	for i, k := range keys {
		if d := os.Getenv("DUMP_REJ"); d != "" {
			os.WriteFile(fmt.Sprintf("%s/rej%02d.wgsl", d, i), []byte("// "+rejSample[k]), 0o644)
		}
		fmt.Printf("REJ %4d %s\n", rej[k], k)
		if i < 6 && os.Getenv("SHOW_REJ") != "" {
			fmt.Println(rejSample[k])
		}
	}
	for k, v := range dom {
		fmt.Printf("DOM %4d %s\n", v, k)
	}
}

var offTags = map[string]bool{"builtin.relational": true, "ptr.deref.compound": true, "module-const.expr": true}

func trimPos(s string) string {
	// drop digits so that similar messages group
	var b strings.Builder
	for _, r := range s {
		if r >= '0' && r <= '9' {
			continue
		}
		b.WriteRune(r)
	}
	out := b.String()
	if len(out) > 140 {
		out = out[:140]
	}
	return out
}

func compile(src string) (stage string, err error) {
	defer func() {
		if r := recover(); r != nil {
			err = fmt.Errorf("PANIC %v", r)
		}
	}()
	ast, err := naga.Parse(src)
	if err != nil {
		return "parse", err
	}
	m, err := naga.LowerWithSource(ast, src)
	if err != nil {
		return "lower", err
	}
	errs, err := naga.Validate(m)
	if err != nil {
		return "validate", err
	}
	if len(errs) > 0 {
		return "validate", fmt.Errorf("%s", errs[0].Error())
	}
	if _, err := naga.GenerateSPIRV(m, spirv.Options{Version: spirv.Version1_3}); err != nil {
		return "spirv", err
	}
	return "", nil
}

// TestShrinkRej: development aid — shrink a program whose rejection message
// contains $REJ_MATCH.
func TestShrinkRej(t *testing.T) {
	match := os.Getenv("REJ_MATCH")
	if match == "" {
		t.Skip()
	}
	rapid.Check(t, func(t *rapid.T) {
		f := wgen.DefaultFeatures()
		f.ConstOK = wref.ConstOK
		f.Off = func(tag string) bool { return offTags[tag] }
		c := wgen.GenExec(t, f)
		stage, err := compile(c.Src)
		if err != nil && strings.Contains(stage+": "+err.Error(), match) {
			t.Fatalf("%s: %v\n%s", stage, err, c.Src)
		}
	})
}
