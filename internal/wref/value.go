// Package wref is the framework's independent WGSL reference evaluator: a
// tree-walking interpreter over the wgen AST implementing the evaluation rules
// of the WGSL specification, plus conversion between values and buffer bytes
// through wgen's independent implementation of WGSL's memory layout.
package wref

import (
	"encoding/binary"
	"fmt"
	"math"

	"verif/internal/wgen"
)

// Value is a WGSL value.  Scalars keep their bit pattern in B (bool: 0/1;
// i32/u32: the 32 bits; f32: IEEE bits; f16: the value held as f32 bits,
// always exactly representable in binary16).  Abstract scalars use I / F.
// Fz marks a float scalar whose value WGSL does not determine bit-exactly
// (result of an operation with a ULP tolerance, or of arithmetic that had to
// round differently under re-association); such values are compared with a
// tolerance and must not reach discrete uses.
type Value struct {
	T  *wgen.Type
	B  uint32
	I  int64
	F  float64
	E  []Value
	Fz bool

	pcell *Value // pointer values: the cell pointed to
}

// Zero returns the zero value of a type (rtLen elements for runtime arrays).
func Zero(t *wgen.Type, rtLen int) Value {
	v := Value{T: t}
	switch t.K {
	case wgen.TVec:
		v.E = make([]Value, t.N)
		for i := range v.E {
			v.E[i] = Value{T: t.ScalarOf()}
		}
	case wgen.TMat:
		v.E = make([]Value, t.N)
		for i := range v.E {
			v.E[i] = Zero(t.ColumnType(), 0)
		}
	case wgen.TArray:
		n := t.N
		if n == 0 {
			n = rtLen
		}
		v.E = make([]Value, n)
		for i := range v.E {
			v.E[i] = Zero(t.Elem, rtLen)
		}
	case wgen.TStruct:
		v.E = make([]Value, len(t.St.Members))
		for i, m := range t.St.Members {
			v.E[i] = Zero(m.T, rtLen)
		}
	}
	return v
}

// Clone deep-copies a value.
func (v Value) Clone() Value {
	if v.E != nil {
		e := make([]Value, len(v.E))
		for i := range v.E {
			e[i] = v.E[i].Clone()
		}
		v.E = e
	}
	return v
}

// Assign stores src into the cell dst (deep copy, keeping dst's type identity).
func (dst *Value) Assign(src Value) {
	if dst.E == nil || src.E == nil {
		t := dst.T
		*dst = src.Clone()
		if t != nil && t.K == wgen.TAtomic {
			dst.T = t
		}
		return
	}
	if len(dst.E) != len(src.E) {
		panic(fmt.Sprintf("assign shape mismatch %s <- %s", dst.T, src.T))
	}
	for i := range dst.E {
		dst.E[i].Assign(src.E[i])
	}
}

// AnyFuzzy reports whether any scalar in v is fuzzy.
func (v Value) AnyFuzzy() bool {
	if v.Fz {
		return true
	}
	for i := range v.E {
		if v.E[i].AnyFuzzy() {
			return true
		}
	}
	return false
}

// Scalar constructors.
func BoolV(b bool) Value {
	if b {
		return Value{T: wgen.TBool, B: 1}
	}
	return Value{T: wgen.TBool}
}
func I32V(x int32) Value    { return Value{T: wgen.TI32, B: uint32(x)} }
func U32V(x uint32) Value   { return Value{T: wgen.TU32, B: x} }
func F32V(x float32) Value  { return Value{T: wgen.TF32, B: math.Float32bits(x)} }
func (v Value) Bool() bool  { return v.B != 0 }
func (v Value) I32() int32  { return int32(v.B) }
func (v Value) U32() uint32 { return v.B }
func (v Value) F32() float32 {
	return math.Float32frombits(v.B)
}

// String renders a value for messages.
func (v Value) String() string {
	if v.T == nil {
		return "<nil>"
	}
	switch v.T.K {
	case wgen.TScalar, wgen.TAtomic:
		switch v.T.S {
		case wgen.Bool:
			return fmt.Sprint(v.B != 0)
		case wgen.I32:
			return fmt.Sprintf("%di", int32(v.B))
		case wgen.U32:
			return fmt.Sprintf("%du", v.B)
		case wgen.F32, wgen.F16:
			s := fmt.Sprintf("%g(0x%08x)", v.F32(), v.B)
			if v.Fz {
				s += "~"
			}
			return s
		case wgen.AbsInt:
			return fmt.Sprintf("%d", v.I)
		case wgen.AbsFloat:
			return fmt.Sprintf("%g", v.F)
		}
	}
	s := v.T.String() + "("
	for i := range v.E {
		if i > 0 {
			s += ", "
		}
		s += v.E[i].String()
	}
	return s + ")"
}

// ---------------------------------------------------------------------------
// Buffer bytes <-> values through the WGSL layout.

// Decode reads a value of type t from buf at offset off.
func Decode(t *wgen.Type, buf []byte, off int, rtLen int) Value {
	v := Value{T: t}
	switch t.K {
	case wgen.TScalar, wgen.TAtomic:
		if t.S == wgen.F16 {
			h := binary.LittleEndian.Uint16(buf[off:])
			v.B = math.Float32bits(HalfToFloat(h))
		} else {
			v.B = binary.LittleEndian.Uint32(buf[off:])
		}
	case wgen.TVec:
		v.E = make([]Value, t.N)
		sz := wgen.SizeOf(t.ScalarOf())
		for i := range v.E {
			v.E[i] = Decode(t.ScalarOf(), buf, off+i*sz, 0)
		}
	case wgen.TMat:
		v.E = make([]Value, t.N)
		cs := wgen.MatColStride(t)
		for i := range v.E {
			v.E[i] = Decode(t.ColumnType(), buf, off+i*cs, 0)
		}
	case wgen.TArray:
		n := t.N
		if n == 0 {
			n = rtLen
		}
		st := wgen.StrideOf(t)
		v.E = make([]Value, n)
		for i := range v.E {
			v.E[i] = Decode(t.Elem, buf, off+i*st, rtLen)
		}
	case wgen.TStruct:
		offs := wgen.MemberOffsets(t.St)
		v.E = make([]Value, len(offs))
		for i, m := range t.St.Members {
			v.E[i] = Decode(m.T, buf, off+offs[i], rtLen)
		}
	}
	return v
}

// Encode writes v into buf at off (padding bytes are left untouched).  If
// mask is non-nil it receives, for every byte written, MaskExact or MaskFuzzy.
func Encode(v Value, buf []byte, off int, mask []byte) {
	t := v.T
	switch t.K {
	case wgen.TScalar, wgen.TAtomic:
		n := 4
		if t.S == wgen.F16 {
			n = 2
			binary.LittleEndian.PutUint16(buf[off:], FloatToHalf(v.F32()))
		} else {
			binary.LittleEndian.PutUint32(buf[off:], v.B)
		}
		if mask != nil {
			m := byte(MaskExact)
			if v.Fz {
				m = MaskFuzzy
			}
			if t.S == wgen.F32 && !v.Fz {
				m = MaskFloat
			}
			for i := 0; i < n; i++ {
				mask[off+i] = m
			}
		}
	case wgen.TVec:
		sz := wgen.SizeOf(t.ScalarOf())
		for i := range v.E {
			Encode(v.E[i], buf, off+i*sz, mask)
		}
	case wgen.TMat:
		cs := wgen.MatColStride(t)
		for i := range v.E {
			Encode(v.E[i], buf, off+i*cs, mask)
		}
	case wgen.TArray:
		st := wgen.StrideOf(t)
		for i := range v.E {
			Encode(v.E[i], buf, off+i*st, mask)
		}
	case wgen.TStruct:
		offs := wgen.MemberOffsets(t.St)
		for i := range v.E {
			Encode(v.E[i], buf, off+offs[i], mask)
		}
	}
}

// Mask byte values.
const (
	MaskPad   = 0 // padding: not compared
	MaskExact = 1 // compared bit-exactly
	MaskFuzzy = 2 // f32 compared with tolerance
	MaskFloat = 3 // exact f32: compared bit-exactly except that +0 and -0 are equal
)

// HalfToFloat converts IEEE binary16 bits to float32.
func HalfToFloat(h uint16) float32 {
	sign := uint32(h>>15) & 1
	exp := uint32(h>>10) & 0x1f
	man := uint32(h) & 0x3ff
	var bits uint32
	switch {
	case exp == 0 && man == 0:
		bits = sign << 31
	case exp == 0:
		// subnormal
		e := -1
		for man&0x400 == 0 {
			man <<= 1
			e++
		}
		man &= 0x3ff
		bits = sign<<31 | uint32(127-15-e)<<23 | man<<13
	case exp == 31:
		bits = sign<<31 | 0xff<<23 | man<<13
	default:
		bits = sign<<31 | (exp+127-15)<<23 | man<<13
	}
	return math.Float32frombits(bits)
}

// FloatToHalf converts float32 to IEEE binary16 bits, round to nearest even.
func FloatToHalf(f float32) uint16 {
	b := math.Float32bits(f)
	sign := uint16(b>>16) & 0x8000
	exp := int(b>>23) & 0xff
	man := b & 0x7fffff
	switch {
	case exp == 0xff:
		if man != 0 {
			return sign | 0x7e00
		}
		return sign | 0x7c00
	case exp == 0 && man == 0:
		return sign
	}
	e := exp - 127 + 15
	if e >= 31 {
		return sign | 0x7c00
	}
	if e <= 0 {
		if e < -10 {
			return sign
		}
		man |= 0x800000
		shift := uint(14 - e)
		half := man >> shift
		rem := man & ((1 << shift) - 1)
		mid := uint32(1) << (shift - 1)
		if rem > mid || (rem == mid && half&1 == 1) {
			half++
		}
		return sign | uint16(half)
	}
	half := uint32(e)<<10 | man>>13
	rem := man & 0x1fff
	if rem > 0x1000 || (rem == 0x1000 && half&1 == 1) {
		half++
	}
	return sign | uint16(half)
}
