package wref

import (
	"math"
	"math/bits"
)

// Integer semantics of WGSL run-time expressions (WGSL spec, "Arithmetic
// expressions" and "Bit expressions").

// DivI32 is e1 / e2 on i32: e2==0 -> e1; INT_MIN/-1 -> INT_MIN; else truncation.
func DivI32(a, b int32) int32 {
	if b == 0 || (a == math.MinInt32 && b == -1) {
		return a
	}
	return a / b
}

// RemI32 is e1 % e2 on i32: e2==0 -> 0; INT_MIN%-1 -> 0; else truncated remainder.
func RemI32(a, b int32) int32 {
	if b == 0 || (a == math.MinInt32 && b == -1) {
		return 0
	}
	return a % b
}

// DivU32 is e1 / e2 on u32: e2==0 -> e1.
func DivU32(a, b uint32) uint32 {
	if b == 0 {
		return a
	}
	return a / b
}

// RemU32 is e1 % e2 on u32: e2==0 -> 0.
func RemU32(a, b uint32) uint32 {
	if b == 0 {
		return 0
	}
	return a % b
}

// FirstLeadingBitI is firstLeadingBit on i32.
func FirstLeadingBitI(x int32) uint32 {
	if x == 0 || x == -1 {
		return 0xffffffff
	}
	u := uint32(x)
	if x < 0 {
		u = ^u
	}
	return uint32(31 - bits.LeadingZeros32(u))
}

// FirstLeadingBitU is firstLeadingBit on u32.
func FirstLeadingBitU(x uint32) uint32 {
	if x == 0 {
		return 0xffffffff
	}
	return uint32(31 - bits.LeadingZeros32(x))
}

// FirstTrailingBit is firstTrailingBit (both signednesses).
func FirstTrailingBit(x uint32) uint32 {
	if x == 0 {
		return 0xffffffff
	}
	return uint32(bits.TrailingZeros32(x))
}

// ExtractBitsU implements extractBits for u32.
func ExtractBitsU(e, offset, count uint32) uint32 {
	o := offset
	if o > 32 {
		o = 32
	}
	c := count
	if c > 32-o {
		c = 32 - o
	}
	if c == 0 {
		return 0
	}
	if c == 32 {
		return e
	}
	return (e >> o) & ((1 << c) - 1)
}

// ExtractBitsI implements extractBits for i32 (sign-extending).
func ExtractBitsI(e int32, offset, count uint32) int32 {
	o := offset
	if o > 32 {
		o = 32
	}
	c := count
	if c > 32-o {
		c = 32 - o
	}
	if c == 0 {
		return 0
	}
	if c == 32 {
		return e
	}
	v := (uint32(e) >> o) & ((1 << c) - 1)
	sh := 32 - c
	return int32(v<<sh) >> sh
}

// InsertBits implements insertBits (both signednesses, on bit patterns).
func InsertBits(e, newbits, offset, count uint32) uint32 {
	o := offset
	if o > 32 {
		o = 32
	}
	c := count
	if c > 32-o {
		c = 32 - o
	}
	if c == 0 {
		return e
	}
	var mask uint32
	if c == 32 {
		mask = 0xffffffff
	} else {
		mask = ((1 << c) - 1) << o
	}
	return (e &^ mask) | ((newbits << o) & mask)
}

// IsSubnormal32 reports a non-zero subnormal float32.
func IsSubnormal32(f float32) bool {
	b := math.Float32bits(f)
	return b&0x7f800000 == 0 && b&0x007fffff != 0
}

// RoundEven32 rounds to nearest, ties to even.
func RoundEven32(f float32) float32 { return float32(math.RoundToEven(float64(f))) }

// F32ToI32 is the WGSL value conversion f32 -> i32 (truncation, clamped to
// the representable range; NaN is reported separately by the caller).
func F32ToI32(f float32) (v int32, inRange bool) {
	t := math.Trunc(float64(f))
	if t >= -2147483648 && t <= 2147483520 { // largest f32 below 2^31 is 2147483520
		return int32(t), true
	}
	if t < 0 {
		return math.MinInt32, false
	}
	// WGSL clamps in the floating-point domain: the largest f32 not above INT_MAX
	return 2147483520, false
}

// F32ToU32 is the WGSL value conversion f32 -> u32.
func F32ToU32(f float32) (v uint32, inRange bool) {
	t := math.Trunc(float64(f))
	if t >= 0 && t <= 4294967040 {
		return uint32(t), true
	}
	if t < 0 {
		return 0, false
	}
	// largest f32 not above UINT_MAX
	return 4294967040, false
}

// onGrid reports whether x is a multiple of 2^-12 with |x| < 2^11, so that any
// sum of such values whose absolute values sum to less than 2^11 is exact in
// binary32 regardless of association order or fusing.
func onGrid(x float64) bool {
	if math.Abs(x) >= 2048 {
		return false
	}
	s := x * 4096
	return s == math.Trunc(s)
}
