// Package c14 checks property C14: pipeline-overridable constants behave as
// substituted WGSL constants.
package c14

import (
	"encoding/json"
	"fmt"
	"math"
	"regexp"
	"sort"
	"strconv"
	"strings"
	"testing"

	"github.com/gogpu/naga/ir"
	"pgregory.net/rapid"

	"verif/internal/ev"
	"verif/internal/execcheck"
	"verif/internal/wgen"
	"verif/internal/wref"
	"verif/internal/xrun"
)

func TestMain(m *testing.M) { ev.Main(m, "C14") }

// routes: backend + way of resolving the overrides
var routes = []string{"spirv/process", "hlsl/process", "msl/process", "glsl/process", "glsl/pipeline", "msl/pipeline"}

func runRoute(c *xrun.Case) xrun.Outcome {
	switch c.Opts["backend"] {
	case "hlsl":
		return xrun.RunHLSL(c)
	case "msl":
		return xrun.RunMSL(c)
	case "glsl":
		return xrun.RunGLSL(c)
	}
	return xrun.RunSPIRV(c)
}

// Case wraps the execution case with what the override map must lead to.
type Case struct {
	X           *xrun.Case `json:"x"`
	MustReject  bool       `json:"must_reject"` // an override without default got no value
	Complete    bool       `json:"complete"`    // every declared override has a value or a default
	Description string     `json:"description"`
}

func judgeCase(raw json.RawMessage) (bool, string) {
	var c Case
	if err := json.Unmarshal(raw, &c); err != nil {
		return false, "bad case: " + err.Error()
	}
	ok, msg, _ := judge(&c)
	if !ok && strings.Contains(msg, "altered the caller's module") && ev.ExcludedQuiet("c14.clone-shares-module") {
		// open finding C14-1 masks whatever else the case shows: look behind it
		save := xrun.SkipModuleUnchanged
		xrun.SkipModuleUnchanged = true
		ok2, msg2, _ := judge(&c)
		xrun.SkipModuleUnchanged = save
		if !ok2 {
			return false, msg2
		}
	}
	return ok, msg
}

func judge(c *Case) (ok bool, msg string, o xrun.Outcome) {
	o = runRoute(c.X)
	if c.MustReject {
		if o.Rejected == "" && o.Unsupported == "" {
			return false, "an override without default initialiser got no value, yet route " + c.X.Opts["route"] + " produced output instead of an error", o
		}
		return true, "", o
	}
	if c.Complete && strings.HasPrefix(o.Rejected, "overrides: ") {
		// every declared override has a value or a default, so resolution itself must not fail
		// (other rejections - a backend refusing the program - are C08's subject)
		return false, "ir.ProcessOverrides rejects an assignment in which every override has a value or a default: " + o.Rejected, o
	}
	if o.Rejected != "" || o.Unsupported != "" {
		return true, "", o
	}
	if bad, m := o.Failed(); bad {
		return false, m, o
	}
	ok, msg = c.X.Compare(o.Buffers)
	return ok, msg, o
}

var judges = map[string]ev.Judge{"override": judgeCase, "workgroup-size": judgeCase}

func TestKnown(t *testing.T)  { ev.RunKnown(t, "C14", judges) }
func TestReplay(t *testing.T) { ev.RunReplay(t, judges) }

// dependents reports which overrides are referenced by another override's initialiser.
func dependents(ovs []*wgen.Var, extra ...wgen.Expr) map[*wgen.Var]bool {
	out := map[*wgen.Var]bool{}
	var walk func(e wgen.Expr)
	walk = func(e wgen.Expr) {
		switch x := e.(type) {
		case *wgen.VarRef:
			out[x.V] = true
		case *wgen.Unary:
			walk(x.X)
		case *wgen.Binary:
			walk(x.L)
			walk(x.R)
		}
	}
	for _, o := range ovs {
		if o.Init != nil {
			walk(o.Init)
		}
	}
	for _, e := range extra {
		walk(e)
	}
	return out
}

// drawValue draws a pipeline-constant value representable in the override's type.
func drawValue(t *rapid.T, v *wgen.Var, small bool) (float64, wref.Value) {
	switch v.T.S {
	case wgen.Bool:
		b := rapid.IntRange(0, 1).Draw(t, "ovb")
		return float64(b), wref.BoolV(b == 1)
	case wgen.I32:
		vals := []int64{0, 1, -1, 2, 7, -8, 100, 31, 32, 65535, -65536, math.MaxInt32, math.MinInt32}
		n := len(vals)
		if small {
			n = 7
		}
		x := vals[rapid.IntRange(0, n-1).Draw(t, "ovi")]
		return float64(x), wref.I32V(int32(x))
	case wgen.U32:
		vals := []int64{0, 1, 2, 7, 100, 31, 32, 65535, 65536, math.MaxInt32, 1 << 31, math.MaxUint32}
		n := len(vals)
		if small {
			n = 5
		}
		x := vals[rapid.IntRange(0, n-1).Draw(t, "ovu")]
		return float64(x), wref.U32V(uint32(x))
	default:
		vals := []float32{0, 1, -1, 0.5, -2.25, 16, -0.125, 1024, 16777216}
		n := len(vals)
		if small {
			// derived arithmetic must stay exact in f32: naga may evaluate it in binary64 and round
			// once, which WGSL's accuracy rules for + - * do not pin down bit-exactly
			n = 7
		}
		x := vals[rapid.IntRange(0, n-1).Draw(t, "ovf")]
		return float64(x), wref.F32V(x)
	}
}

func TestPropOverrides(t *testing.T) {
	ev.Rule("exec-profile compute programs with 1-4 override declarations (bool/i32/u32/f32, with and without @id, default initialisers over literals and earlier overrides with arithmetic/comparison/bit operators, or none) used in expressions x value maps (absent / by id / by name, boundary values representable in the type) x routes {ir.ProcessOverrides on a clone + SPIR-V/HLSL/MSL/GLSL, glsl PipelineConstants, msl PipelineConstants}; oracle: the reference evaluator runs the program with each override bound to the supplied value or to its default evaluated with WGSL semantics, the route's output is executed by the target interpreter and must give the same buffers; a missing value without default must be an error; the caller's module (deep hash) must be unchanged; non-trivial = >= 1 override takes its value from the map and >= 1 derived override or defaulted override exists, and the supplied value differs from the default; distinct = hash(WGSL, map, route)")
	ev.Assume("supplied values are representable in the override's type (WebGPU rejects others before the compiler is involved); bool values are 0 or 1")
	xrun.SkipModuleUnchanged = ev.Excluded("c14.clone-shares-module")
	rapid.Check(t, func(t *rapid.T) {
		f := wgen.DefaultFeatures()
		f.ConstOK = wref.ConstOK
		f.Overrides = true
		f.MaxStmts = 14
		route := routes[rapid.IntRange(0, len(routes)-1).Draw(t, "route")]
		if ev.Excluded("c14.route." + route) {
			return
		}
		backend := route[:strings.Index(route, "/")]
		prefix := map[string]string{"spirv": "spv.", "hlsl": "hlsl.", "msl": "msl.", "glsl": "glsl."}[backend]
		// an open finding's tag excludes a generator feature everywhere, for one backend ("msl." + tag) or
		// for one route ("route:msl/pipeline:" + tag)
		off := func(tag string) bool {
			return ev.Excluded(tag) || ev.Excluded(prefix+tag) || ev.Excluded("route:"+route+":"+tag)
		}
		offQuiet := func(tag string) bool {
			return ev.ExcludedQuiet(tag) || ev.ExcludedQuiet(prefix+tag) || ev.ExcludedQuiet("route:"+route+":"+tag)
		}
		f.Off = off
		gc := wgen.GenExec(t, f)
		if ops, cmp := foldHazards(gc.Src); (ops && offQuiet("override.fold.unsupported-op")) || (cmp && offQuiet("override.fold.compare")) {
			// open findings C14-3 / C14-2: a function-body expression over literals, constants and
			// overrides that override resolution folds with its + - * / float evaluator
			ev.Class("discard:known:override-fold-op")
			return
		}
		var ginits []wgen.Expr
		for _, g := range gc.Mod.Globals() {
			if g.Kind == wgen.VPrivate && g.Init != nil {
				ginits = append(ginits, g.Init) // arithmetic on the supplied value: keep it small
			}
		}
		// overrides that take part in function-body arithmetic also get small values: naga folds
		// `ov + v` (v a let of a constant) in float64 and converts back without wrap-around, which is
		// finding C14-3's root cause and would otherwise surface as a value mismatch at INT_MIN / UINT_MAX
		for _, fn := range gc.Mod.Funcs() {
			wgen.WalkStmts(fn.Body, nil, func(root wgen.Expr) {
				wgen.WalkExpr(root, func(e wgen.Expr) bool {
					switch x := e.(type) {
					case *wgen.Binary:
						switch x.Op {
						case "+", "-", "*", "/", "%", "<<", ">>":
							ginits = append(ginits, x)
						}
					case *wgen.Unary:
						if x.Op == "-" {
							ginits = append(ginits, x)
						}
					}
					return true
				})
			})
		}
		deps := dependents(gc.Overrides, ginits...)
		consts := map[string]float64{}
		bound := map[*wgen.Var]wref.Value{}
		missing, missingUnused, fromMap, changed := false, false, 0, 0
		var desc []string
		for _, ov := range gc.Overrides {
			mode := rapid.IntRange(0, 2).Draw(t, "ovmode") // 0 absent, 1 by name, 2 by id
			if mode == 2 && ov.ID < 0 {
				mode = 1
			}
			if lit := plainLiteral(ov.Init); mode == 0 && ov.Init != nil && !lit && route == "msl/pipeline" && ev.Excluded("c14.msl-pipeline.default-expr") {
				mode = 1 // open finding: computed defaults are not evaluated by this route
			}
			if mode == 0 {
				if ov.Init == nil {
					// WebGPU requires a value only for overrides statically used by the entry point
					switch usedIn(gc.Src, ov.Name) {
					case "main":
						missing = true
					case "elsewhere":
						ev.Class("missing-value-of-override-not-used-by-entry-point:skipped")
						return
					default:
						missingUnused = true
					}
				}
				desc = append(desc, ov.Name+": absent")
				continue
			}
			fv, wv := drawValue(t, ov, deps[ov])
			key := ov.Name
			if mode == 2 {
				key = strconv.Itoa(ov.ID)
			}
			consts[key] = fv
			bound[ov] = wv
			fromMap++
			desc = append(desc, fmt.Sprintf("%s: %s=%v", ov.Name, key, fv))
		}
		if missingUnused {
			for _, ov := range gc.Overrides {
				if _, ok := bound[ov]; !ok && ov.Init == nil {
					bound[ov] = wref.Value{T: ov.T} // never read
				}
			}
		}
		var xc *xrun.Case
		var res *wref.Result
		if missing {
			xc = &xrun.Case{WGSL: gc.Src, Entry: gc.Entry.Name, NumWG: gc.NumWG, WGSize: gc.Entry.WG, Buffers: map[string]string{}, RefSteps: 1000}
			for k, b := range gc.Buffers {
				xc.Buffers[xrun.Key(k[0], k[1])] = fmt.Sprintf("%x", b)
			}
		} else {
			disc := func(e *wref.Events) string {
				if d := execcheck.CommonDiscards(e, offQuiet); d != "" {
					return d
				}
				if backend == "glsl" && e.DivZero+e.DivOverflow+e.F2IRange+e.F2INaN+e.F2UNeg > 0 {
					return "glsl-undefined"
				}
				return ""
			}
			var discard string
			var err error
			xc, res, discard, err = xrun.Build(gc, func(w *wref.Config) { w.Overrides = bound }, disc)
			if err != nil {
				ev.Inconclusive("reference evaluator failed: " + err.Error())
				t.Fatalf("harness: %v\n%s", err, gc.Src)
			}
			if discard != "" {
				ev.Class("discard:" + discard)
				return
			}
			// did a supplied value differ from the default?
			for ov, v := range bound {
				if ov.Init == nil {
					changed++
					continue
				}
				if dv, cls, _ := wref.ConstEvalWith(ov.Init, ov.T, nil, bound); cls == wref.ConstValue && dv.B != v.B {
					changed++
				}
			}
		}
		if !missing {
			// An override-expression whose evaluation is an error (division by zero, overflow,
			// value not representable) is a pipeline-creation error in WGSL: not a run-time
			// computation the reference evaluator may judge.
			if why := overrideExprError(gc, bound); why != "" {
				ev.Class("discard:override-expression-is-an-error")
				return
			}
		}
		if missing && route == "msl/pipeline" && ev.Excluded("c14.msl-pipeline.missing-value") {
			return
		}
		if len(consts) == 0 && strings.HasSuffix(route, "/pipeline") {
			// an empty map does not exercise the backend's pipeline-constant option
			ev.Class("pipeline-route-with-empty-map:skipped")
			return
		}
		xc.Overrides = consts
		xc.Opts = map[string]string{"route": route, "backend": backend, "ovroute": route[strings.Index(route, "/")+1:], "version": "1.3", "glsl": "450", "sm": "6.0", "msl": "2.1", "bind": "map", "zeroinit": "1"}
		sort.Strings(desc)
		c := &Case{X: xc, MustReject: missing, Complete: !missing && !missingUnused, Description: strings.Join(desc, "; ")}
		ok, msg, o := judge(c)
		raw, _ := json.Marshal(consts)
		derived := len(deps) > 0
		nt := fromMap >= 1 && changed >= 1 && (derived || len(gc.Overrides) > fromMap) && o.Rejected == "" && o.Unsupported == ""
		if res != nil {
			nt = nt && res.Ev.Stores > 0
		}
		ev.Eval(ev.HashS(gc.Src, string(raw), route), nt)
		ev.Class("route:" + route)
		for _, k := range gc.Classes {
			if strings.HasPrefix(k, "override") {
				ev.Class("gen:" + k)
			}
		}
		if missing {
			ev.Class("missing-value")
		}
		if o.Rejected != "" && !missing {
			ev.Class("rejected-by-naga")
			if ev.WantSample("rejected") {
				ev.Sample("rejected", map[string]string{"why": o.Rejected, "route": route, "wgsl": gc.Src})
			}
		}
		if o.Unsupported != "" {
			ev.Class("unsupported")
		}
		if nt && ev.WantSample("override") {
			ev.Sample("override", c)
		}
		if !ok {
			if _, known := ev.Attributed(msg, gc.Src); known {
				return
			}
			ev.Fail("override", c, msg)
			t.Fatalf("%s\nroute %s; %s\n%s", msg, route, c.Description, gc.Src)
		}
	})
}

// overrideExprError evaluates every override default and every override-expression
// of the function bodies with the chosen values; it returns a reason when one of
// them is not a plain value under WGSL's rules.
func overrideExprError(gc *wgen.ExecCase, bound map[*wgen.Var]wref.Value) string {
	var consts []*wgen.Var
	for _, g := range gc.Mod.Globals() {
		if g.Kind == wgen.VConst {
			consts = append(consts, g)
		}
	}
	vals := map[*wgen.Var]wref.Value{}
	for _, ov := range gc.Overrides {
		if v, ok := bound[ov]; ok {
			vals[ov] = v
			continue
		}
		if ov.Init == nil {
			continue
		}
		v, cls, why := wref.ConstEvalWith(ov.Init, ov.T, consts, vals)
		if cls != wref.ConstValue {
			return "default of " + ov.Name + ": " + why
		}
		vals[ov] = v
	}
	for _, e := range wgen.OverrideExprs(gc.Mod) {
		if _, cls, why := wref.ConstEvalWith(e, nil, consts, vals); cls != wref.ConstValue {
			return wgen.ExprString(e) + ": " + why
		}
	}
	return ""
}

// foldHazards scans the lowered module for the expressions ir.ProcessOverrides
// folds: a Binary / Unary whose operands are literals, constants, overrides or
// themselves folded.  ops reports such a Binary with an operator other than
// + - * / (the resolution pass evaluates those to 0), cmp one with a comparison.
// The module is only inspected to recognise the constructs of open findings.
func foldHazards(src string) (ops, cmp bool) {
	m, _, err := xrun.Lower(src)
	if err != nil || m == nil || len(m.Overrides) == 0 {
		return false, false
	}
	scan := func(f *ir.Function) {
		lit := make([]bool, len(f.Expressions))
		for i, e := range f.Expressions {
			switch k := e.Kind.(type) {
			case ir.Literal, ir.ExprOverride:
				lit[i] = true
			case ir.ExprConstant:
				if int(k.Constant) < len(m.Constants) {
					if t := m.Constants[k.Constant].Type; int(t) < len(m.Types) {
						_, lit[i] = m.Types[t].Inner.(ir.ScalarType)
					}
				}
			case ir.ExprUnary:
				if int(k.Expr) < i && lit[k.Expr] && k.Op != ir.UnaryBitwiseNot {
					lit[i] = true
				}
			case ir.ExprBinary:
				if int(k.Left) < i && int(k.Right) < i && lit[k.Left] && lit[k.Right] {
					lit[i] = true
					switch k.Op {
					case ir.BinaryAdd, ir.BinarySubtract, ir.BinaryMultiply, ir.BinaryDivide:
					case ir.BinaryEqual, ir.BinaryNotEqual, ir.BinaryLess, ir.BinaryLessEqual, ir.BinaryGreater, ir.BinaryGreaterEqual:
						cmp = true
					default:
						ops = true
					}
				}
			}
		}
	}
	for i := range m.Functions {
		scan(&m.Functions[i])
	}
	for i := range m.EntryPoints {
		scan(&m.EntryPoints[i].Function)
	}
	return ops, cmp
}

// plainLiteral reports whether an initialiser is printed as a bare literal
// token (negative literals are printed as a unary minus applied to a literal,
// i32 min as a conversion call: both are computed expressions for naga).
func plainLiteral(e wgen.Expr) bool {
	l, ok := e.(*wgen.Lit)
	return ok && !strings.ContainsAny(wgen.ExprString(l), "-(")
}

// usedIn reports where an override's name occurs besides its declaration:
// "main" (inside the entry point), "elsewhere", or "".
func usedIn(src, name string) string {
	re := regexp.MustCompile(`\b` + regexp.QuoteMeta(name) + `\b`)
	i := strings.Index(src, "fn main(")
	if i < 0 {
		return "elsewhere"
	}
	end := strings.Index(src[i:], "\n}\n")
	body := src[i:]
	if end > 0 {
		body = src[i : i+end]
	}
	if re.MatchString(body) {
		return "main"
	}
	rest := src[:i]
	if end > 0 {
		rest += src[i+end:]
	}
	if len(re.FindAllString(rest, -1)) >= 2 {
		return "elsewhere"
	}
	return ""
}
