// Package c11 checks property C11: a program that breaks one of the rules
// naga diagnoses is rejected wherever the violation occurs, is never compiled
// to output, and the reported position is the right one.
package c11

import (
	"encoding/json"
	"fmt"
	"os"
	"path/filepath"
	"regexp"
	"sort"
	"strconv"
	"strings"
	"sync"
	"testing"
	"unicode/utf8"

	"github.com/gogpu/naga"
	"github.com/gogpu/naga/glsl"
	"github.com/gogpu/naga/hlsl"
	"github.com/gogpu/naga/ir"
	"github.com/gogpu/naga/msl"
	"pgregory.net/rapid"

	"verif/internal/ev"
	"verif/internal/meta"
	"verif/internal/meta/mgen"
)

func TestMain(m *testing.M) { ev.Main(m, "C11") }

var judges = map[string]ev.Judge{"rejected": judgeRejected}

func TestKnown(t *testing.T)  { ev.RunKnown(t, "C11", judges) }
func TestReplay(t *testing.T) { ev.RunReplay(t, judges) }

// localExcluded lists the exclusion tags of the findings filed under
// /verif/known/C11-*.json until they are listed in known_findings.json.
var localExcluded = map[string]bool{}

// tagsOf returns the exclusion tags a rule-breaking edit falls under, most
// specific first.
func tagsOf(b *meta.Breaking) []string {
	tags := []string{"c11." + b.Rule + "." + b.Sub}
	for _, w := range b.Where {
		tags = append(tags, "c11."+b.Rule+"."+b.Sub+".in."+w, "c11."+b.Rule+".in."+w)
	}
	return append(tags, "c11."+b.Rule)
}

func excluded(b *meta.Breaking) bool {
	if os.Getenv("VERIF_NO_EXCLUDE") != "" {
		return false
	}
	for _, tag := range tagsOf(b) {
		if localExcluded[tag] || ev.ExcludedQuiet(tag) {
			ev.Class("excluded:" + tag)
			return true
		}
	}
	return false
}

// Case is the serialised form of one judged case.
type Case struct {
	Origin string `json:"origin"`
	Source string `json:"source"`
	meta.Breaking
}

// ---------------------------------------------------------------------------
// program sources

var (
	corpusOnce  sync.Once
	corpusNames []string
	corpusTexts []string
)

func compiles(src string) (ok bool) {
	defer func() {
		if recover() != nil {
			ok = false
		}
	}()
	b, err := naga.Compile(src)
	return err == nil && len(b) > 0
}

func corpus() ([]string, []string) {
	corpusOnce.Do(func() {
		files, _ := filepath.Glob("/repo/snapshot/testdata/in/*.wgsl")
		sort.Strings(files)
		for _, p := range files {
			b, err := os.ReadFile(p)
			if err != nil || len(b) > 40000 {
				continue
			}
			f, err := meta.Analyze(string(b))
			if err != nil || !f.Structured || !compiles(string(b)) {
				continue
			}
			corpusNames = append(corpusNames, filepath.Base(p))
			corpusTexts = append(corpusTexts, string(b))
		}
	})
	return corpusNames, corpusTexts
}

// programs is the pluggable source of valid programs: returns (origin, text).
var programs = func(t *rapid.T) (string, string) {
	names, texts := corpus()
	if len(texts) > 0 && rapid.IntRange(0, 9).Draw(t, "fromCorpus") < 3 {
		i := rapid.IntRange(0, len(texts)-1).Draw(t, "corpusIndex")
		return "corpus:" + names[i], texts[i]
	}
	return "mgen", mgen.Program(t)
}

// ---------------------------------------------------------------------------
// observation

var (
	reParsePos = regexp.MustCompile(`line (-?\d+), column (-?\d+): `)
	reLowerPos = regexp.MustCompile(`^(-?\d+):(-?\d+): `)
)

type observation struct {
	Stage    string // "parse", "lower", "validate", "backend", "accepted", "panic"
	Err      string
	Line     int
	Col      int
	HasPos   bool
	Bytes    int  // length of the SPIR-V naga.Compile returned
	CompErr  bool // naga.Compile returned an error
	OtherOut string
}

func observe(src string) (o observation) {
	defer func() {
		if r := recover(); r != nil {
			o = observation{Stage: "panic", Err: fmt.Sprint(r), CompErr: true}
		}
	}()
	out, cerr := naga.Compile(src)
	o.Bytes, o.CompErr = len(out), cerr != nil
	ast, perr := naga.Parse(src)
	if perr != nil {
		o.Stage, o.Err = "parse", perr.Error()
		if m := reParsePos.FindStringSubmatch(o.Err); m != nil {
			o.Line, _ = strconv.Atoi(m[1])
			o.Col, _ = strconv.Atoi(m[2])
			o.HasPos = true
		}
		return
	}
	mod, lerr := naga.LowerWithSource(ast, src)
	if lerr != nil {
		o.Stage, o.Err = "lower", lerr.Error()
		if m := reLowerPos.FindStringSubmatch(o.Err); m != nil {
			o.Line, _ = strconv.Atoi(m[1])
			o.Col, _ = strconv.Atoi(m[2])
			o.HasPos = true
		}
		return
	}
	if cerr == nil {
		o.Stage = "accepted"
		return
	}
	o.Err = cerr.Error()
	verrs, verr := ir.Validate(mod)
	if verr != nil || len(verrs) > 0 {
		o.Stage = "validate"
		return
	}
	o.Stage = "backend"
	// the front end and the validator let it through: does any other backend print it?
	o.OtherOut = otherBackends(src)
	return
}

func otherBackends(src string) string {
	fresh := func() *ir.Module {
		ast, err := naga.Parse(src)
		if err != nil {
			return nil
		}
		m, err := naga.LowerWithSource(ast, src)
		if err != nil {
			return nil
		}
		return m
	}
	try := func(name string, f func(*ir.Module) (string, error)) string {
		defer func() { _ = recover() }()
		m := fresh()
		if m == nil {
			return ""
		}
		if s, err := f(m); err == nil && s != "" {
			return name
		}
		return ""
	}
	var got []string
	if n := try("hlsl", func(m *ir.Module) (string, error) { s, _, e := hlsl.Compile(m, hlsl.DefaultOptions()); return s, e }); n != "" {
		got = append(got, n)
	}
	if n := try("msl", func(m *ir.Module) (string, error) { s, _, e := msl.Compile(m, msl.DefaultOptions()); return s, e }); n != "" {
		got = append(got, n)
	}
	if m := fresh(); m != nil {
		for _, ep := range m.EntryPoints {
			name := ep.Name
			if n := try("glsl", func(m *ir.Module) (string, error) {
				o := glsl.DefaultOptions()
				o.LangVersion = glsl.Version430
				o.EntryPoint = name
				s, _, e := glsl.Compile(m, o)
				return s, e
			}); n != "" {
				got = appendUniq(got, n)
			}
		}
	}
	return strings.Join(got, ",")
}

func appendUniq(l []string, s string) []string {
	for _, x := range l {
		if x == s {
			return l
		}
	}
	return append(l, s)
}

// ---------------------------------------------------------------------------
// judge

func judgeRejected(raw json.RawMessage) (bool, string) {
	var c Case
	if err := json.Unmarshal(raw, &c); err != nil {
		return false, "bad case: " + err.Error()
	}
	if !compiles(c.Source) {
		return true, "" // the unedited program is not accepted: nothing to check
	}
	v, msg, _ := judge(&c)
	return v, msg
}

// lineInfo returns the number of lines of src (counting U+000A) and the text of line n.
func lineText(src string, n int) (string, bool) {
	lines := strings.Split(src, "\n")
	if n < 1 || n > len(lines) {
		return "", false
	}
	return strings.TrimSuffix(lines[n-1], "\r"), true
}

func posLE(l1, c1, l2, c2 int) bool { return l1 < l2 || l1 == l2 && c1 <= c2 }

// judge returns (held, message, classes).
func judge(c *Case) (bool, string, []string) {
	o := observe(c.Edited)
	var cls []string
	cls = append(cls, "rejected-by:"+o.Stage)
	if o.Stage == "panic" {
		// crashes are property C10's; for C11 a panic is no diagnosis either
		return false, "compiler panicked on the rule-breaking program: " + o.Err, cls
	}
	if !o.CompErr || o.Bytes != 0 {
		return false, fmt.Sprintf("rule %s/%s broken at byte %d but naga.Compile returned %d bytes, err=%v (stage reached: %s)",
			c.Rule, c.Sub, c.Off, o.Bytes, o.CompErr, o.Stage), cls
	}
	switch o.Stage {
	case "accepted":
		return false, "Parse, Lower accept and Compile's error state is inconsistent", cls
	case "backend":
		if o.OtherOut != "" {
			return false, fmt.Sprintf("rule %s/%s broken at byte %d: Parse, LowerWithSource and Validate accept the program; only the SPIR-V writer fails (%s) and %s still print output",
				c.Rule, c.Sub, c.Off, cut(o.Err), o.OtherOut), cls
		}
		return true, "", append(cls, "unchecked:position(no front-end diagnosis)")
	case "validate":
		if c.Syntax {
			return false, fmt.Sprintf("syntax rule %s/%s broken at byte %d but the parser accepts the text (validator: %s)", c.Rule, c.Sub, c.Off, cut(o.Err)), cls
		}
		return true, "", append(cls, "unchecked:position(validator has none)")
	}
	if c.Syntax && o.Stage != "parse" {
		return false, fmt.Sprintf("syntax rule %s/%s broken at byte %d but the parser accepts the text (%s: %s)", c.Rule, c.Sub, c.Off, o.Stage, cut(o.Err)), cls
	}
	if !o.HasPos {
		if c.Syntax {
			return false, "syntax error without a position: " + cut(o.Err), cls
		}
		return true, "", append(cls, "unchecked:position(none reported)")
	}
	// inside the source text
	lt, ok := lineText(c.Edited, o.Line)
	if !ok {
		return false, fmt.Sprintf("reported line %d outside the text (%d lines): %s", o.Line, strings.Count(c.Edited, "\n")+1, cut(o.Err)), cls
	}
	if o.Col < 1 || o.Col > len(lt)+1 {
		return false, fmt.Sprintf("reported column %d outside line %d (%d bytes, %d code points): %s", o.Col, o.Line, len(lt), utf8.RuneCountInString(lt), cut(o.Err)), cls
	}
	if c.Syntax {
		if c.Exact {
			el, ecr, ecb := meta.LineCol(c.Edited, c.ExpOff)
			if o.Line != el || (o.Col != ecr && o.Col != ecb) {
				return false, fmt.Sprintf("syntax error reported at %d:%d, but the first token that cannot continue the grammar is at %d:%d (%s)",
					o.Line, o.Col, el, ecr, cut(o.Err)), cls
			}
			return true, "", append(cls, "position:exact")
		}
		sl, scr, scb := meta.LineCol(c.Edited, c.Off)
		if scb < scr {
			scr = scb
		}
		if !posLE(sl, scr, o.Line, o.Col) {
			return false, fmt.Sprintf("syntax error reported at %d:%d, before the edit site %d:%d (%s)", o.Line, o.Col, sl, scr, cut(o.Err)), cls
		}
		return true, "", append(cls, "position:not-before-site")
	}
	lo, _, _ := meta.LineCol(c.Edited, c.DeclLo)
	hi, _, _ := meta.LineCol(c.Edited, c.DeclHi)
	if o.Line < lo || o.Line > hi {
		return false, fmt.Sprintf("semantic error reported at line %d, outside the enclosing declaration (lines %d..%d): %s", o.Line, lo, hi, cut(o.Err)), cls
	}
	return true, "", append(cls, "position:in-declaration")
}

func cut(s string) string {
	if len(s) > 400 {
		return s[:400] + "…"
	}
	return s
}

// ---------------------------------------------------------------------------
// property

var (
	baseMu sync.Mutex
	baseOK = map[uint64]bool{}
)

func baselineCompiles(src string) bool {
	h := ev.HashS(src)
	baseMu.Lock()
	v, ok := baseOK[h]
	baseMu.Unlock()
	if ok {
		return v
	}
	v = compiles(src)
	baseMu.Lock()
	if len(baseOK) < 2000 {
		baseOK[h] = v
	}
	baseMu.Unlock()
	return v
}

func propRejected(t *rapid.T) {
	origin, src := programs(t)
	f, err := meta.Analyze(src)
	if err != nil || !f.Structured {
		ev.Class("discard:not-analysable")
		t.Skip("program not analysable")
	}
	if !baselineCompiles(src) {
		ev.Class("discard:baseline-rejected")
		t.Skip("baseline does not compile")
	}
	var b *meta.Breaking
	for _, rule := range rapid.Permutation(meta.Rules).Draw(t, "rules") {
		if bb, ok := f.Break(t, rule, excluded); ok {
			b = bb
			break
		}
	}
	if b == nil {
		ev.Class("discard:no-site")
		t.Skip("no applicable site")
	}
	c := &Case{Origin: origin, Source: src, Breaking: *b}
	held, msg, cls := judge(c)
	ev.Eval(ev.HashS(c.Source, c.Rule, c.Sub, strconv.Itoa(c.Off), c.Edited), c.Depth >= 1)
	ev.Class("origin:" + strings.SplitN(origin, ":", 2)[0])
	ev.Class("rule:" + c.Rule + "/" + c.Sub)
	for _, w := range c.Where {
		ev.Class("site:" + w)
	}
	ev.Class(fmt.Sprintf("depth:%d", min(c.Depth, 4)))
	for _, k := range cls {
		ev.Class(k)
	}
	if ev.WantSample(c.Rule) {
		ev.Sample(c.Rule, c)
	}
	if !held {
		ev.Fail("rejected", c, msg)
		t.Fatalf("%s", msg)
	}
}

func TestPropRejected(t *testing.T) {
	ev.Rule("case = (valid program, rule, site): programs are mgen programs and corpus files that naga.Compile accepts; the rule-breaking edit " +
		"(undeclared name, call arity/type, discarded @must_use, false const_assert, missing @group/@binding, non-positive array size, bad swizzle, " +
		"missing ';', unbalanced delimiter, missing @workgroup_size, constant division by zero) is applied at a site drawn from all applicable " +
		"sites found by meta's structural pass; non-trivial = site nesting depth >= 1; distinct = hash(text, rule, site)")
	ev.Assume("meta's site rules make every edit break exactly the named rule of the WGSL specification")
	ev.Assume("positions are compared in naga's own convention (lines split at U+000A, 1-based columns, code points or bytes accepted)")
	rapid.Check(t, propRejected)
}

// TestKnownLocal replays the findings filed under /verif/known/C11-*.json.
func TestKnownLocal(t *testing.T) {
	files, _ := filepath.Glob(filepath.Join(ev.Root(), "known", "C11-*.json"))
	sort.Strings(files)
	for _, p := range files {
		r, err := ev.LoadReplay(p)
		if err != nil {
			ev.Inconclusive("known file unreadable: " + p)
			continue
		}
		j := judges[r.Check]
		if j == nil {
			ev.Inconclusive("known file without judge: " + p)
			continue
		}
		ok, msg := j(r.Case)
		if ok {
			fmt.Printf("NOTE: %s no longer reproduces\n", filepath.Base(p))
			ev.Class("known-local:gone")
		} else {
			ev.Class("known-local:reproduced")
			t.Logf("%s still reproduces: %s", filepath.Base(p), cut(msg))
		}
	}
}
