package c11

import (
	"encoding/json"
	"fmt"
	"os"
	"path/filepath"
	"strings"
	"testing"

	"verif/internal/ev"
	"verif/internal/meta"
)

// TestMakeKnown (C11_MAKE_KNOWN=1) rebuilds /verif/known/C11-*.json from
// small hand-written programs, using the same transformers as the property.
func TestMakeKnown(t *testing.T) {
	if os.Getenv("C11_MAKE_KNOWN") == "" {
		t.Skip()
	}
	base := `struct S { a: u32, b: vec2<f32> }
const N = 4;
alias F = f32;
var<private> tab: array<i32, 4>;
var<private> tab_n: array<i32, N>;
var<private> g: S = S(1u, vec2<f32>(0.0));

@must_use
fn pick(i: i32, w: vec2<f32>) -> i32 {
    const half = 8 / 2;
    let t: S = g;
    let ok = (N > 0) || (i > N);
    let v = vec2<F>(1.0, 2.0);
    return tab[i] + min(i, half);
}

const_assert N == 4;

@compute @workgroup_size(N)
fn main() {
    tab[1] = pick(1, vec2<f32>(0.5));
}
`
	has := func(b *meta.Breaking, w string) bool {
		for _, x := range b.Where {
			if x == w {
				return true
			}
		}
		return false
	}
	after := func(b *meta.Breaking, s string) bool { return strings.HasPrefix(b.Edited[b.Off:], s) }
	specs := []struct {
		n         int
		rule, sub string
		sel       func(b *meta.Breaking) bool
		what      string
	}{
		{1, "delimiter", "drop-paren", func(b *meta.Breaking) bool {
			return strings.HasPrefix(base[b.Off:], ");\n}\n\nconst_assert") || strings.Contains(base[b.Off-8:b.Off+1], "i, half)")
		},
			"a deleted ')' of a call (likewise ']' of an index, ')' of an attribute, '>' of a template list) is accepted: Parser.expect ignores the missing closer"},
		{2, "undeclared", "var", func(b *meta.Breaking) bool { return has(b, "const_assert") },
			"const_assert with an undeclared identifier is accepted (a const_assert naga cannot evaluate is dropped silently)"},
		{3, "arraysize", "size-1", func(b *meta.Breaking) bool { return true },
			"array<i32, -1> is accepted (only size 0 is refused)"},
		{4, "divzero", "op/", func(b *meta.Breaking) bool { return has(b, "helper") },
			"constant integer division by zero inside a function body (const half = 8 / 0;) is accepted; the same at module scope is refused"},
		{5, "undeclared", "var", func(b *meta.Breaking) bool { return has(b, "template") },
			"an undeclared identifier as array size (array<i32, nope>) is accepted"},
		{6, "undeclared", "attr", func(b *meta.Breaking) bool { return true },
			"an undeclared identifier inside an attribute (@workgroup_size(nope), also @location, @align, @size, @id) is accepted"},
		{7, "undeclared", "var", func(b *meta.Breaking) bool { return has(b, "logic-rhs") },
			"an undeclared identifier in the right operand of || / && whose left operand folds to a constant is accepted (the operand is discarded unchecked)"},
		{8, "undeclared", "type", func(b *meta.Breaking) bool { return has(b, "decl:var") && after(b, "zq_undeclared(1u") },
			"an undeclared constructor name in the initialiser of a module-scope var with explicit type is accepted"},
		{9, "undeclared", "type", func(b *meta.Breaking) bool { return has(b, "let-annotation") },
			"an undeclared type in the type annotation of a function-scope let / const is accepted (the annotation is ignored, even a mismatching one)"},
		{10, "undeclared", "type", func(b *meta.Breaking) bool { return has(b, "ctor-template") },
			"an undeclared component type in a vector / matrix constructor (vec2<Nope>(1.0, 2.0)) is accepted"},
	}
	f, err := meta.Analyze(base)
	if err != nil || !f.Structured {
		t.Fatalf("base not analysable: %v %s", err, f.Why)
	}
	if !compiles(base) {
		t.Fatalf("base does not compile")
	}
	for _, sp := range specs {
		var pick *meta.Breaking
		for _, b := range f.BreakAll(sp.rule) {
			if b.Sub == sp.sub && sp.sel(b) {
				pick = b
				break
			}
		}
		if pick == nil {
			t.Errorf("C11-%d: no site", sp.n)
			continue
		}
		c := &Case{Origin: "hand", Source: base, Breaking: *pick}
		held, msg, _ := judge(c)
		if held {
			t.Errorf("C11-%d does not reproduce", sp.n)
			continue
		}
		raw, _ := json.Marshal(c)
		fl := ev.Failure{Property: "C11", Check: "rejected", Message: sp.what + " :: " + msg, Case: raw}
		out, _ := json.MarshalIndent(&fl, "", " ")
		p := filepath.Join(ev.Root(), "known", fmt.Sprintf("C11-%d.json", sp.n))
		if err := os.WriteFile(p, out, 0o644); err != nil {
			t.Fatal(err)
		}
		fmt.Printf("wrote %s: %s\n   after: %q\n", p, msg, pick.Edited[max(0, pick.Off-30):min(len(pick.Edited), pick.Off+40)])
	}
}
