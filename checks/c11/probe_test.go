package c11

import (
	"fmt"
	"os"
	"sort"
	"testing"
)

func TestProbe(t *testing.T) {
	if os.Getenv("C11_PROBE") == "" {
		t.Skip()
	}
	ep := "@compute @workgroup_size(1) fn main() { }\n"
	_ = ep
	cases := map[string]string{
		"vec-undecl-ctor":  "@compute @workgroup_size(1) fn main() { let h = vec2<Nope>(); }\n",
		"vec-undecl-ctor2": "@compute @workgroup_size(1) fn main() { let h = vec2<Nope>(1.0, 2.0); }\n",
		"vec-undecl-let":   "@compute @workgroup_size(1) fn main() { var h: vec2<Nope>; }\n",
		"arr-undecl-ctor":  "@compute @workgroup_size(1) fn main() { let h = array<Nope, 2>(); }\n",
		"mat-undecl-ctor":  "@compute @workgroup_size(1) fn main() { let h = mat2x2<Nope>(); }\n",
	}
	var keys []string
	for k := range cases {
		keys = append(keys, k)
	}
	sort.Strings(keys)
	for _, k := range keys {
		o := observe(cases[k])
		fmt.Printf("%-20s %-9s bytes=%-5d %s\n", k, o.Stage, o.Bytes, cut(o.Err))
	}
}
