package c11

import (
	"fmt"
	"os"
	"regexp"
	"sort"
	"strings"
	"testing"

	"pgregory.net/rapid"

	"verif/internal/meta"
)

var reDigits = regexp.MustCompile(`\d+`)

// TestSurvey (C11_SURVEY=1) judges many cases without stopping at the first
// failure and prints the failures grouped by rule / site / message shape.
func TestSurvey(t *testing.T) {
	if os.Getenv("C11_SURVEY") == "" {
		t.Skip()
	}
	type agg struct {
		n      int
		sample string
	}
	groups := map[string]*agg{}
	total, held := 0, 0
	rapid.Check(t, func(rt *rapid.T) {
		origin, src := programs(rt)
		f, err := meta.Analyze(src)
		if err != nil || !f.Structured || !baselineCompiles(src) {
			rt.Skip()
		}
		rule := rapid.SampledFrom(meta.Rules).Draw(rt, "rule")
		b, ok := f.Break(rt, rule, excluded)
		if !ok {
			rt.Skip()
		}
		c := &Case{Origin: origin, Source: src, Breaking: *b}
		ok2, msg, _ := judge(c)
		total++
		if ok2 {
			held++
			return
		}
		w := append([]string(nil), c.Where...)
		sort.Strings(w)
		key := fmt.Sprintf("%s/%s [%s] :: %s", c.Rule, c.Sub, strings.Join(w, ","), reDigits.ReplaceAllString(cut(msg), "N"))
		if len(key) > 330 {
			key = key[:330]
		}
		g := groups[key]
		if g == nil {
			g = &agg{}
			groups[key] = g
			i := c.Off
			lo, hi := max(0, i-80), min(len(c.Edited), i+60)
			g.sample = fmt.Sprintf("%s\n      after: %q", msg, c.Edited[lo:hi])
		}
		g.n++
	})
	var keys []string
	for k := range groups {
		keys = append(keys, k)
	}
	sort.Strings(keys)
	for _, k := range keys {
		fmt.Printf("%5d  %s\n      %s\n", groups[k].n, k, cut(groups[k].sample))
	}
	fmt.Printf("survey: %d judged, %d held\n", total, held)
}
