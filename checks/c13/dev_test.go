//go:build verif

package c13

import (
	"encoding/json"
	"fmt"
	"os"
	"strings"
	"testing"

	"github.com/gogpu/naga/ir"

	"verif/internal/irx"
)

// TestDevCase (C13_CASE=<file.json with {"case":…} or a bare case>, optional C13_PASSES=a,b overrides
// the sequence, C13_DUMP=fn dumps that function before and after).
func TestDevCase(t *testing.T) {
	p := os.Getenv("C13_CASE")
	if p == "" {
		t.Skip("C13_CASE not set")
	}
	b, err := os.ReadFile(p)
	if err != nil {
		t.Fatal(err)
	}
	var wrap struct {
		Case *pcase `json:"case"`
	}
	var c pcase
	if json.Unmarshal(b, &wrap) == nil && wrap.Case != nil {
		c = *wrap.Case
	} else if err := json.Unmarshal(b, &c); err != nil {
		t.Fatal(err)
	}
	if s := os.Getenv("C13_PASSES"); s != "" {
		c.Passes = strings.Split(s, ",")
	}
	if s := os.Getenv("C13_WGSL"); s != "" {
		w, _ := os.ReadFile(s)
		c.WGSL = string(w)
	}
	noExclude = os.Getenv("C13_STRICT") != ""
	v := judge(&c)
	fmt.Printf("passes=%v ok=%v skip=%q changed=%v classes=%v\n%s\n", c.Passes, v.ok, v.skip, v.changed, v.classes, v.msg)
	if fn := os.Getenv("C13_DUMP"); fn != "" {
		m0, _ := lower(c.WGSL)
		m1, err := replay(&c)
		fmt.Println("=== before")
		dumpFn(m0, fn)
		if err == nil {
			fmt.Println("=== after")
			dumpFn(m1, fn)
		} else {
			fmt.Println("replay error:", err)
		}
	}
}

func dumpFn(m *ir.Module, name string) {
	for i := range m.Functions {
		if m.Functions[i].Name == name {
			fmt.Println(irx.DumpFunction(m, &m.Functions[i]))
		}
	}
	for i := range m.EntryPoints {
		if m.EntryPoints[i].Name == name {
			fmt.Println(irx.DumpFunction(m, &m.EntryPoints[i].Function))
		}
	}
}

var _ = irx.DumpFunction

// TestDevReduce (C13_CASE, C13_MATCH=<substring of the failure message>): greedy line-based
// reduction of the case's WGSL; the result is written next to the case as <case>.min.json.
func TestDevReduce(t *testing.T) {
	p, match := os.Getenv("C13_CASE"), os.Getenv("C13_MATCH")
	if p == "" || match == "" || os.Getenv("C13_REDUCE") == "" {
		t.Skip("C13_CASE / C13_MATCH / C13_REDUCE not set")
	}
	b, _ := os.ReadFile(p)
	var wrap struct {
		Case *pcase `json:"case"`
	}
	var c pcase
	if json.Unmarshal(b, &wrap) == nil && wrap.Case != nil {
		c = *wrap.Case
	} else if err := json.Unmarshal(b, &c); err != nil {
		t.Fatal(err)
	}
	if s := os.Getenv("C13_PASSES"); s != "" {
		c.Passes = strings.Split(s, ",")
	}
	noExclude = os.Getenv("C13_STRICT") != ""
	fails := func(src string) bool {
		cc := c
		cc.WGSL = src
		v := judge(&cc)
		return !v.ok && strings.Contains(v.msg, match)
	}
	if !fails(c.WGSL) {
		t.Fatal("the case does not fail with the given match")
	}
	lines := strings.Split(c.WGSL, "\n")
	for size := len(lines) / 2; size >= 1; size /= 2 {
		for i := 0; i+size <= len(lines); {
			cand := append(append([]string{}, lines[:i]...), lines[i+size:]...)
			if fails(strings.Join(cand, "\n")) {
				lines = cand
			} else {
				i += size
			}
		}
	}
	c.WGSL = strings.Join(lines, "\n")
	out, _ := json.MarshalIndent(&c, "", " ")
	os.WriteFile(p+".min.json", out, 0o644)
	fmt.Println(c.WGSL)
}
