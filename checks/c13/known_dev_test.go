//go:build verif

package c13

import (
	"encoding/json"
	"fmt"
	"os"
	"path/filepath"
	"strings"
	"testing"

	"verif/internal/ev"
)

const hdrU = "struct O { a: u32, b: u32 }\n@group(0) @binding(0) var<storage, read_write> outp: O;\n"

// knownCases: minimal reproductions of the findings of this check (known/C13-<n>.json).
var knownCases = []struct {
	n      int
	tag    string
	what   string
	wgsl   string
	buf    string // hex of buffer (0,0)
	passes []string
}{
	{1, "c13-inline-callresult-load-unemitted",
		"ir.InlineUserFunctions rewrites the CallResult slot in place into Load(result local) and the callee's FunctionArgument slots into copies of the argument expressions: these slots refer forward in the arena and no Emit covers them (a consumer that evaluates at Emit never computes them; CompactExpressions' back-to-front liveness assumes backward references)",
		hdrU + "fn helper() -> u32 {\n  return outp.b + 1u;\n}\n@compute @workgroup_size(1) fn main() {\n  outp.a = helper();\n}\n",
		"000000000a000000", []string{"inline:all"}},
	{2, "c13-inline-callee-locals-not-reinitialised",
		"ir.InlineUserFunctions turns the callee's local variables (with their initialisers) into locals of the caller that are initialised once at the caller's entry: a helper called from inside a loop sees the values its locals had at the end of the previous call",
		hdrU + "fn bump() {\n  var i: u32 = 0u;\n  while (i < 3u) {\n    i++;\n    outp.a += 1u;\n  }\n}\n@compute @workgroup_size(1) fn main() {\n  for (var k = 0u; k < 2u; k++) {\n    bump();\n  }\n}\n",
		"0000000000000000", []string{"inline:all"}},
	{3, "c13-mem2reg-single-block-in-loop",
		"dxil mem2reg (single-block phase) promotes a variable whose loads and stores all sit in one block INSIDE a loop: the value no longer survives the back edge (here: `i++` in a continuing block reads the initial 0 for ever - infinite loop)",
		hdrU + "@compute @workgroup_size(1) fn main() {\n  var i: i32 = 0i;\n  loop {\n    continuing {\n      i++;\n      break if (i >= 3i);\n    }\n  }\n  outp.a = 7u;\n}\n",
		"0000000000000000", []string{"dxil:mem2reg"}},
	{4, "c13-sroa-inplace-rewrite",
		"dxil SROA rewrites AccessIndex(struct local, k) in place into ExprLocalVariable (the slot stays inside its Emit range, its ExpressionTypes entry is the member's value type instead of a pointer) and Load(struct local) into a Compose of loads appended later in the arena (forward references)",
		hdrU + "struct P { x: u32, y: u32 }\n@compute @workgroup_size(1) fn main() {\n  var p: P;\n  p.x = outp.b;\n  p.y = 2u;\n  outp.a = p.x + p.y;\n}\n",
		"000000000a000000", []string{"dxil:sroa"}},
	{5, "c13-dce-removes-branch-of-phi",
		"dxil DCE removes an If / Switch whose arms became empty after mem2reg although the phi emitted right after it still selects its incoming by the arm / case taken",
		hdrU + "fn pick(x: u32) -> u32 {\n  var r: u32;\n  switch x {\n    case 1u: {\n      r = 10u;\n    }\n    default: {\n      r = 20u;\n    }\n  }\n  return r;\n}\n@compute @workgroup_size(1) fn main() {\n  outp.a = pick(outp.b);\n}\n",
		"0000000001000000", []string{"dxil:mem2reg", "dxil:dce"}},
	{6, "c13-dce-drops-emit-of-live-expression",
		"dxil DCE removes Emit statements whose expressions are still used by statements it keeps (access-chain pointers of Stores, If conditions)",
		"struct S { a: u32, b: u32 }\n@group(0) @binding(0) var<storage, read_write> outp: S;\n@compute @workgroup_size(1) fn main() {\n  var v: S = outp;\n  if (outp.b == 10u) {\n    v.a = 2u;\n  }\n  outp = v;\n}\n",
		"000000000a000000", []string{"dxil:dce"}},
	{7, "c13-mem2reg-not-idempotent",
		"dxil mem2reg is documented as idempotent but a second run appends another ExprZeroValue per candidate variable (initialValueOf runs before it is known that nothing is left to promote)",
		hdrU + "@compute @workgroup_size(1) fn main() {\n  var x: u32;\n  for (var k = 0u; k < 2u; k++) {\n    x = x + outp.b;\n  }\n  outp.a = x;\n}\n",
		"0000000003000000", []string{"dxil:mem2reg"}},
	{8, "c13-dce-not-idempotent",
		"dxil DCE is not a fixpoint: a second run removes statements the first run left behind (here the If of a short-circuit `&&` whose result is dead)",
		hdrU + "fn f(p: ptr<function, u32>) -> bool {\n  var v: bool = ((*p) >= 1u);\n  let a = (v && ((*p) > 2u));\n  return false;\n}\n@compute @workgroup_size(1) fn main() {\n  var x = outp.b;\n  if f(&x) {\n    outp.a = 1u;\n  }\n}\n",
		"0000000003000000", []string{"dxil:dce"}},
	{9, "c13-reordertypes-not-idempotent",
		"ir.ReorderTypes applied to its own output permutes the type arena again (Module.TypeUseOrder is not remapped to the new handles)",
		"alias FVec3 = vec3<f32>;\nalias IVec3 = vec3i;\nalias Mat2 = mat2x2<f32>;\nalias Mat3 = mat3x3f;\nalias I32 = i32;\nalias F32 = f32;\n" + hdrU + "@compute @workgroup_size(1) fn main() {\n  let a = FVec3(0.0, 0.0, 0.0);\n  let d = FVec3(vec2<f32>(0.0), 0.0);\n  let e = IVec3(d);\n  let f = Mat2(1.0, 2.0, 3.0, 4.0);\n  let g = Mat3(a, a, a);\n  let h = vec2<I32>();\n  let i = mat2x2<F32>();\n  outp.a = outp.b + u32(e.x) + u32(f[0].x) + u32(g[0].x) + u32(h.x) + u32(i[0].x);\n}\n",
		"0000000003000000", []string{"ReorderTypes"}},
	{10, "c13-inline-early-return-in-loop-or-switch",
		"ir.InlineUserFunctions turns every `return` of the callee into Store + Break out of ONE wrapping loop: a return nested in a loop or switch of the callee only leaves that inner construct (wrong result; with a switch the wrapping loop never ends)",
		hdrU + "fn find(x: u32) {\n  for (var i = 0u; i < 4u; i++) {\n    if (i == x) {\n      outp.a = 100u + i;\n      return;\n    }\n  }\n  outp.a = 7u;\n}\n@compute @workgroup_size(1) fn main() {\n  find(outp.b);\n}\n",
		"0000000002000000", []string{"inline:all"}},
	{11, "c13-sroa-compose-without-type",
		"dxil SROA rewrites Load(struct local) into ExprCompose{Components: …} without setting Type: the Compose is typed with type handle 0 instead of the struct",
		"struct P { pos: vec2<f32>, vel: vec2<f32> }\n@group(0) @binding(0) var<storage, read_write> outp: array<P, 1>;\n@compute @workgroup_size(1) fn main() {\n  var p: P;\n  p.pos = vec2<f32>(1.0, 2.0);\n  p.vel = vec2<f32>(3.0, 4.0);\n  outp[0] = p;\n}\n",
		"00000000000000000000000000000000", []string{"dxil:sroa"}},
	{12, "c13-mem2reg-switch-early-break",
		"dxil mem2reg builds the switch-merge phi from each case's end-of-body value: a case left by an early `break` contributes a value that was never computed on that path",
		hdrU + "@compute @workgroup_size(1) fn main() {\n  var v: u32 = 5u;\n  switch outp.b {\n    case 1u: {\n      if (outp.b == 1u) {\n        break;\n      }\n      v = v + 1u;\n    }\n    default: {\n    }\n  }\n  outp.a = v;\n}\n",
		"0000000001000000", []string{"dxil:mem2reg"}},
	{13, "c13-mem2reg-store-before-loop-dropped",
		"dxil mem2reg (structured phase) deletes the stores it meets before a loop and only at the loop disqualifies the variable because the loop stores to it: the value the variable had when the loop is entered is lost (`var acc = x; for … { acc = acc + 2 }` starts from 0)",
		hdrU + "@compute @workgroup_size(1) fn main() {\n  var acc: u32 = outp.b;\n  for (var i = 0u; i < 3u; i++) {\n    acc = acc + 2u;\n  }\n  outp.a = acc;\n}\n",
		"000000000a000000", []string{"dxil:mem2reg"}},
	{14, "c13-compacttypes-not-idempotent",
		"ir.CompactTypes is not a fixpoint: a type referenced only by a type it removes survives the run and is removed by the next one",
		hdrU + "fn unused(p: ptr<function, array<i32, 4>>) -> i32 {\n  return (*p)[0];\n}\n@compute @workgroup_size(1) fn main() {\n  outp.a = outp.b;\n}\n",
		"0000000003000000", []string{"CompactUnused", "CompactTypes"}},
	{15, "c13-sroa-full-compose-store-not-decomposed",
		"dxil SROA accepts a whole-struct Store of a Compose (`var v: S = S(…)`) as decomposable but never splits it: the per-member locals are never written and member reads yield zero",
		"struct O { a: i32, b: i32 }\n@group(0) @binding(0) var<storage, read_write> outp: O;\nstruct S { m0: i32, m1: vec4<i32>, m2: f32, m3: i32 }\n@compute @workgroup_size(1) fn main() {\n  var v: S = S(outp.b, -vec4<i32>(-4i), 8.0f, outp.b * 3i);\n  outp.a = v.m3 + v.m1.x;\n}\n",
		"000000000a000000", []string{"dxil:sroa"}},
	{16, "c13-dce-removes-live-store-to-local",
		"dxil DCE deletes the store that initialises a struct local whose value reaches the output only through a second local variable read by an access chain",
		"struct S { a: f32, b: f32 }\n@group(0) @binding(0) var<storage, read_write> outp: S;\n@compute @workgroup_size(1) fn main() {\n  var v: S = outp;\n  var w = vec2<f32>(1.0, v.b);\n  outp.a = w[1i];\n}\n",
		"0000000000002041", []string{"dxil:dce"}},
}

// TestDevKnown (C13_DEV=1|write): every known case fails the strict judge and is
// passed / skipped when its tag is active; "write" (re)writes /verif/known/C13-<n>.json.
func TestDevKnown(t *testing.T) {
	mode := os.Getenv("C13_DEV")
	if mode == "" {
		t.Skip("C13_DEV not set")
	}
	if mode == "entries" { // print the known_findings.json entries
		var out []ev.Finding
		for _, kc := range knownCases {
			out = append(out, ev.Finding{ID: fmt.Sprintf("C13-%d", kc.n), Property: "C13", Status: "open", What: kc.what,
				Replay: fmt.Sprintf("known/C13-%d.json", kc.n), Tags: []string{kc.tag}})
		}
		b, _ := json.MarshalIndent(out, "", " ")
		os.WriteFile(os.Getenv("C13_ENTRIES"), b, 0o644)
		return
	}
	for _, kc := range knownCases {
		if kc.wgsl == "" {
			continue
		}
		c := &pcase{WGSL: kc.wgsl, Buffers: map[string]string{"0,0": kc.buf}, NumWG: [3]uint32{1, 1, 1}, Entry: "main", Passes: kc.passes}
		raw, _ := json.Marshal(c)
		ok, msg := judgeRaw(raw)
		first := msg
		if i := strings.IndexByte(first, '\n'); i >= 0 && len(first) > 600 {
			first = first[:600]
		}
		fmt.Printf("C13-%d strict ok=%v :: %s\n", kc.n, ok, strings.ReplaceAll(first, "\n", " | "))
		if ok {
			t.Errorf("C13-%d: the strict judge passes (%s)", kc.n, msg)
			continue
		}
		saved := localKnownTags
		localKnownTags = map[string]bool{kc.tag: true}
		v := judge(c)
		localKnownTags = saved
		fmt.Printf("       with only %s active: ok=%v skip=%q classes=%v %s\n", kc.tag, v.ok, v.skip, v.classes, firstLine(v.msg))
		if !v.ok {
			t.Errorf("C13-%d: still failing with its own tag active: %s", kc.n, v.msg)
		}
		if mode == "write" {
			f := ev.Failure{Property: "C13", Check: checkName, Message: msg, Case: raw}
			b, _ := json.MarshalIndent(&f, "", " ")
			p := filepath.Join(ev.Root(), "known", fmt.Sprintf("C13-%d.json", kc.n))
			if err := os.WriteFile(p, append(b, '\n'), 0o644); err != nil {
				t.Error(err)
			}
		}
	}
}
