//go:build verif

// Package c13 checks property C13: every IR transformation naga applies or
// exports (removal of unreachable globals/functions, constant / expression /
// type compaction and reordering, emit deduplication, user-function inlining,
// and the SROA, mem2reg and DCE passes that precede DXIL emission) yields a
// well-formed module whose entry points compute exactly what they computed
// before, and is idempotent.
package c13

import (
	"bytes"
	"encoding/hex"
	"encoding/json"
	"fmt"
	"os"
	"path/filepath"
	"sort"
	"strconv"
	"strings"
	"testing"

	"github.com/gogpu/naga"
	"github.com/gogpu/naga/dxil"
	"github.com/gogpu/naga/ir"
	"github.com/gogpu/naga/spirv"
	"pgregory.net/rapid"

	"verif/internal/ev"
	"verif/internal/irx"
	"verif/internal/spv"
	"verif/internal/wgen"
	"verif/internal/wref"
	"verif/internal/xrun"
)

func TestMain(m *testing.M) { ev.Main(m, "C13") }

const checkName = "passes"

var judges = map[string]ev.Judge{checkName: judgeRaw}

func TestKnown(t *testing.T)  { ev.RunKnown(t, "C13", judges) }
func TestReplay(t *testing.T) { ev.RunReplay(t, judges) }

// pcase is the serialised, self-contained case.
type pcase struct {
	WGSL    string            `json:"wgsl"`
	Buffers map[string]string `json:"buffers"` // "group,binding" -> hex of the initial bytes
	NumWG   [3]uint32         `json:"num_workgroups"`
	Entry   string            `json:"entry"`
	Passes  []string          `json:"passes"`
}

// ---- passes -----------------------------------------------------------------------------

// The pass vocabulary.  IR passes mutate the module in place; "dxil:prepare"
// returns a private copy (clone + helper inlining).
var irPasses = []string{"CompactUnused", "CompactConstants", "CompactExpressions", "CompactTypes", "ReorderTypes", "DeduplicateEmits"}

func lower(src string) (m *ir.Module, rejected string) {
	defer func() {
		if r := recover(); r != nil {
			m, rejected = nil, fmt.Sprintf("panic: %v", r)
		}
	}()
	ast, err := naga.Parse(src)
	if err != nil {
		return nil, "parse: " + err.Error()
	}
	mod, err := naga.LowerWithSource(ast, src)
	if err != nil {
		return nil, "lower: " + err.Error()
	}
	return mod, ""
}

// applyPass runs one pass; it returns the resulting module (the same pointer for in-place passes).
func applyPass(m *ir.Module, p string) (out *ir.Module, err error) {
	defer func() {
		if r := recover(); r != nil {
			out, err = nil, fmt.Errorf("panic in pass %s: %v", p, r)
		}
	}()
	switch {
	case p == "CompactUnused":
		ir.CompactUnused(m)
	case p == "CompactConstants":
		ir.CompactConstants(m)
	case p == "CompactExpressions":
		ir.CompactExpressions(m)
	case p == "CompactTypes":
		ir.CompactTypes(m)
	case p == "ReorderTypes":
		ir.ReorderTypes(m)
	case p == "DeduplicateEmits":
		ir.DeduplicateEmits(m)
	case p == "inline:all":
		return m, ir.InlineUserFunctions(m, func(*ir.Function) bool { return true })
	case p == "inline:none":
		return m, ir.InlineUserFunctions(m, func(*ir.Function) bool { return false })
	case strings.HasPrefix(p, "inline:only="):
		names := map[string]bool{}
		for _, n := range strings.Split(strings.TrimPrefix(p, "inline:only="), ",") {
			names[n] = true
		}
		return m, ir.InlineUserFunctions(m, func(f *ir.Function) bool { return names[f.Name] })
	case p == "dxil:prepare":
		return dxil.VerifPrepare(m)
	case p == "dxil:sroa", p == "dxil:mem2reg", p == "dxil:dce", p == "dxil:all":
		return m, dxil.VerifOptimize(m, strings.TrimPrefix(p, "dxil:"))
	default:
		return nil, fmt.Errorf("unknown pass %q", p)
	}
	return m, nil
}

// ssaStage: the pass may leave ExprAlias / ExprPhi in the module.
func ssaStage(p string) bool {
	return p == "dxil:mem2reg" || p == "dxil:all" || p == "dxil:dce" || p == "dxil:sroa"
}

// duplicating: the pass copies code (issues of an open finding may legitimately multiply).
func duplicating(p string) bool { return strings.HasPrefix(p, "inline:") || p == "dxil:prepare" }

// ---- execution ---------------------------------------------------------------------------------

type runOut struct {
	res  *irx.RunResult
	err  error
	bufs map[[2]uint32][]byte
}

func (c *pcase) initial() map[[2]uint32][]byte {
	out := map[[2]uint32][]byte{}
	for k, h := range c.Buffers {
		g, b := xrun.ParseKey(k)
		by, _ := hex.DecodeString(h)
		out[[2]uint32{uint32(g), uint32(b)}] = by
	}
	return out
}

func runIRX(m *ir.Module, c *pcase, limit int64) runOut { return runIRXLazy(m, c, limit, false) }

func runIRXLazy(m *ir.Module, c *pcase, limit int64, lazy bool) (o runOut) {
	o.bufs = c.initial()
	defer func() {
		if r := recover(); r != nil {
			o.err = fmt.Errorf("interpreter panic: %v", r)
		}
	}()
	o.res, o.err = irx.Run(m, irx.RunConfig{Entry: c.Entry, Buffers: o.bufs, NumWorkgroups: c.NumWG, StepLimit: limit, Lazy: lazy})
	return o
}

type spvOut struct {
	skip string // not comparable: backend rejected, unsupported, …
	trap string
	pois bool
	bufs map[spv.Key][]byte
}

func runSPV(m *ir.Module, c *pcase, limit int64) (o spvOut) {
	defer func() {
		if r := recover(); r != nil {
			o = spvOut{skip: fmt.Sprintf("panic: %v", r)}
		}
	}()
	bin, err := naga.GenerateSPIRV(m, spirv.Options{Version: spirv.Version1_3})
	if err != nil {
		return spvOut{skip: "spirv backend: " + firstLine(err.Error())}
	}
	mod, err := spv.Parse(bin)
	if err != nil {
		return spvOut{skip: "spirv parse: " + err.Error()}
	}
	o.bufs = map[spv.Key][]byte{}
	for k, b := range c.initial() {
		o.bufs[spv.Key{Set: k[0], Binding: k[1]}] = b
	}
	res, err := spv.Run(mod, spv.RunConfig{Entry: c.Entry, Buffers: o.bufs, NumWorkgroups: c.NumWG, StepLimit: limit})
	if err != nil {
		return spvOut{skip: "spv run: " + err.Error()}
	}
	if strings.HasPrefix(res.Trap, "unsupported:") {
		return spvOut{skip: res.Trap}
	}
	o.trap, o.pois = res.Trap, len(res.Poison) > 0
	return o
}

func firstLine(s string) string {
	if i := strings.IndexByte(s, '\n'); i >= 0 {
		s = s[:i]
	}
	if len(s) > 160 {
		s = s[:160]
	}
	return s
}

// ---- judge ------------------------------------------------------------------------------------------

type verdict struct {
	ok         bool
	msg        string
	skip       string // the case is outside the property (reason)
	changed    bool   // the passes changed the module
	classes    []string
	beforeBufs map[[2]uint32][]byte
}

func (v *verdict) class(s string) { v.classes = append(v.classes, s) }

func ruleCounts(is []irx.Issue) map[string]int {
	out := map[string]int{}
	for _, i := range is {
		out[i.Rule]++
	}
	return out
}

func describeUnknown(m *ir.Module, is []irx.Issue, rule string, passes []string) string {
	for _, i := range is {
		if i.Rule == rule && knownShape(m, i, passes) == "" {
			return i.String()
		}
	}
	return rule
}

func judge(c *pcase) (v verdict) {
	v.ok = true
	m0, rej := lower(c.WGSL)
	if rej != "" {
		v.skip = "rejected-by-naga"
		return v
	}
	h0 := irx.Hash(m0)
	before := runIRX(m0, c, 1<<23)
	switch {
	case before.err == irx.ErrStepLimit:
		v.skip = "before:step-limit"
		return v
	case before.err != nil:
		v.skip = "before:error:" + firstLine(before.err.Error())
		return v
	case before.res.Trap != "":
		t := before.res.Trap
		if i := strings.IndexByte(t, ':'); i > 0 {
			t = t[:i]
		}
		v.skip = "before:trap:" + t
		return v
	case len(before.res.Poison) > 0:
		v.skip = "before:poison:" + before.res.Poison[0]
		return v
	}
	if irx.Hash(m0) != h0 {
		v.ok, v.msg = false, "harness: the interpreter changed the module it ran"
		return v
	}
	v.beforeBufs = before.bufs
	issues0 := irx.StrictValidate(m0)

	// apply the sequence to a fresh lowering
	m1, _ := lower(c.WGSL)
	if irx.Hash(m1) != h0 {
		v.skip = "nondeterministic-lowering"
		return v
	}
	if tag := knownConstruct(m0, c.Passes); tag != "" {
		v.skip = "known:" + tag
		return v
	}
	ssa, dup := false, false
	cur := m1
	for _, p := range c.Passes {
		var inHash uint64
		if p == "dxil:prepare" {
			inHash = irx.Hash(cur)
		}
		var preStores map[[2]int]int
		if p == "dxil:dce" || p == "dxil:all" {
			preStores = localStoreCounts(cur)
		}
		next, err := applyPass(cur, p)
		if err == nil && preStores != nil && active("c13-dce-removes-live-store-to-local") && lostAllStoresButStillLoaded(next, preStores) {
			v.skip = "known:c13-dce-removes-live-store-to-local"
			return v
		}
		if err == nil && (p == "dxil:sroa" || p == "dxil:all") && active("c13-sroa-compose-without-type") && sroaUntypedCompose(next) {
			v.skip = "known:c13-sroa-compose-without-type"
			return v
		}
		if err != nil {
			if strings.HasPrefix(err.Error(), "panic in pass") {
				v.ok, v.msg = false, err.Error()
				return v
			}
			v.skip = "pass-error:" + p + ":" + firstLine(err.Error())
			return v
		}
		if p == "dxil:prepare" {
			// (d) the API promises a private copy
			if irx.Hash(cur) != inHash {
				v.ok, v.msg = false, "dxil prepareModule changed the caller's module: "+irx.Diff(mustLower(c.WGSL, c.Passes, p), cur)
				return v
			}
			if next == cur {
				v.class("prepare-returned-same-pointer")
			}
		}
		cur = next
		ssa = ssa || ssaStage(p)
		dup = dup || duplicating(p)
	}
	h1 := irx.Hash(cur)
	v.changed = h1 != h0

	// (a) behaviour
	limit := before.res.Steps*16 + 200000
	lazy := ((hasPass(c.Passes, "inline:") || hasPass(c.Passes, "dxil:prepare")) && active("c13-inline-callresult-load-unemitted")) ||
		((hasPass(c.Passes, "dxil:dce") || hasPass(c.Passes, "dxil:all")) && active("c13-dce-drops-emit-of-live-expression"))
	after := runIRX(cur, c, limit)
	usedLazy := false
	if lazy && after.err == nil && (strings.HasPrefix(after.res.Trap, "use-before-emit") || strings.HasPrefix(after.res.Trap, "alias-before-def")) {
		// an open finding leaves expressions without Emit: go on with on-demand evaluation
		after = runIRXLazy(cur, c, limit, true)
		usedLazy = true
		v.class("lazy-evaluation")
	}
	switch {
	case after.err == irx.ErrStepLimit && usedLazy:
		// on-demand evaluation caches a value per invocation: an unemitted Load inside a loop (open
		// finding C13-1 / C13-6) then never changes, which says nothing about the transformed module
		v.skip = "known:unemitted-expression(lazy-evaluation-differs)"
		return v
	case after.err == irx.ErrStepLimit:
		v.ok, v.msg = false, fmt.Sprintf("after %v the entry point does not terminate within %d steps (before: %d)", c.Passes, limit, before.res.Steps)
		return v
	case after.err != nil:
		v.ok, v.msg = false, fmt.Sprintf("after %v: %v", c.Passes, after.err)
		return v
	case after.res.Trap != "":
		if strings.HasPrefix(after.res.Trap, "phi-without-predecessor") && (hasPass(c.Passes, "dxil:dce") || hasPass(c.Passes, "dxil:all")) && active("c13-dce-removes-branch-of-phi") {
			v.skip = "known:c13-dce-removes-branch-of-phi"
			return v
		}
		if strings.HasPrefix(after.res.Trap, "phi-incoming-undefined") && lazy && hasKnownUnemitted(cur, c.Passes, ssa) {
			// the undefined incoming is the expression open finding C13-1 / C13-6 left outside every Emit
			v.skip = "known:unemitted-expression(phi-incoming)"
			return v
		}
		v.ok, v.msg = false, fmt.Sprintf("after %v executing the entry point traps: %s", c.Passes, after.res.Trap)
		return v
	case len(after.res.Poison) > 0:
		v.ok, v.msg = false, fmt.Sprintf("after %v the entry point uses a value WGSL leaves open: %s", c.Passes, after.res.Poison[0])
		return v
	}
	if msg := diffBuffers(before.bufs, after.bufs); msg != "" {
		if usedLazy {
			v.skip = "known:unemitted-expression(lazy-evaluation-differs)"
			return v
		}
		v.ok, v.msg = false, fmt.Sprintf("after %v the entry point computes something else: %s", c.Passes, msg)
		return v
	}

	// second executor (ordinary IR only): SPIR-V of before and after through the SPIR-V interpreter
	if !ssa {
		s0 := runSPV(m0, c, 1<<24)
		switch {
		case s0.skip != "":
			v.class("spv-skip:before:" + firstWords(s0.skip, 3))
		case s0.trap != "" || s0.pois:
			v.class("spv-skip:before-trap-or-poison")
		default:
			s1 := runSPV(cur, c, 1<<24)
			switch {
			case s1.skip != "":
				v.class("spv-skip:after:" + firstWords(s1.skip, 3))
			case s1.trap != "":
				if lazy && strings.HasPrefix(s1.trap, "use of %") && strings.Contains(s1.trap, "before its definition") && hasKnownUnemitted(cur, c.Passes, ssa) {
					// open finding C13-1 / C13-6 again: an expression left outside every Emit is materialised by
					// the SPIR-V backend at its first use, in a block that need not dominate the later uses
					v.skip = "known:unemitted-expression(spirv-places-it-at-first-use)"
					return v
				}
				v.ok, v.msg = false, fmt.Sprintf("after %v the SPIR-V of the module traps (%s); the SPIR-V of the original module runs", c.Passes, s1.trap)
				return v
			case s1.pois:
				v.ok, v.msg = false, fmt.Sprintf("after %v the SPIR-V of the module uses an undefined value; the SPIR-V of the original module does not", c.Passes)
				return v
			default:
				v.class("spv-compared")
				for k, b := range s0.bufs {
					if !bytes.Equal(b, s1.bufs[k]) {
						v.ok = false
						v.msg = fmt.Sprintf("after %v the SPIR-V of the module computes something else: buffer (%d,%d) %s", c.Passes, k.Set, k.Binding, firstDiff(b, s1.bufs[k]))
						return v
					}
				}
			}
		}
	}

	// (b) well-formedness: nothing new relative to before
	var issues1 []irx.Issue
	func() {
		defer func() {
			if r := recover(); r != nil {
				issues1 = []irx.Issue{{Rule: "harness.panic", Where: "StrictValidate", Msg: fmt.Sprint(r), Expr: -1, Value: -1}}
			}
		}()
		issues1 = irx.StrictValidateOpts(cur, irx.Options{SSA: ssa})
	}()
	c0, c1 := ruleCounts(issues0), ruleCounts(issues1)
	explained := map[string]int{}
	for _, is := range issues1 {
		if tag := knownShape(cur, is, c.Passes); tag != "" {
			explained[is.Rule]++
			v.class("known:" + tag)
		}
	}
	var rules []string
	for r := range c1 {
		rules = append(rules, r)
	}
	sort.Strings(rules)
	var fresh []string
	for _, r := range rules {
		left := c1[r] - explained[r]
		if left > c0[r] && (c0[r] == 0 || !dup) {
			fresh = append(fresh, fmt.Sprintf("%s (%d before, %d after) e.g. %s", r, c0[r], c1[r], describeUnknown(cur, issues1, r, c.Passes)))
		}
	}
	if len(fresh) > 0 && os.Getenv("C13_NOWF") == "" {
		v.ok = false
		v.msg = fmt.Sprintf("after %v the module is no longer well-formed:\n%s", c.Passes, strings.Join(fresh, "\n"))
		return v
	}

	// (c) idempotence of the last pass
	if len(c.Passes) > 0 {
		last := c.Passes[len(c.Passes)-1]
		again, err := applyPass(cur, last)
		if err != nil {
			v.ok, v.msg = false, fmt.Sprintf("%s fails when applied a second time: %v", last, err)
			return v
		} else if h2 := irx.Hash(again); h2 != h1 {
			if tag := idempotenceKnown(last); tag != "" {
				v.class("known:" + tag)
			} else {
				ref, _ := replay(c)
				d := "?"
				if ref != nil {
					d = irx.Diff(ref, again)
				}
				v.ok, v.msg = false, fmt.Sprintf("%s is not idempotent after %v: applying it again changes the module at %s", last, c.Passes[:len(c.Passes)-1], d)
				return v
			}
		}
	}
	return v
}

// replay lowers and applies the whole sequence again (for diffs in messages).
func replay(c *pcase) (*ir.Module, error) {
	m, rej := lower(c.WGSL)
	if rej != "" {
		return nil, fmt.Errorf("%s", rej)
	}
	cur := m
	for _, p := range c.Passes {
		next, err := applyPass(cur, p)
		if err != nil {
			return nil, err
		}
		cur = next
	}
	return cur, nil
}

// mustLower rebuilds the module as it was right before pass `until` (for the prepare-copy message).
func mustLower(src string, passes []string, until string) *ir.Module {
	m, _ := lower(src)
	cur := m
	for _, p := range passes {
		if p == until {
			break
		}
		if next, err := applyPass(cur, p); err == nil {
			cur = next
		}
	}
	return cur
}

func diffBuffers(a, b map[[2]uint32][]byte) string {
	var keys [][2]uint32
	for k := range a {
		keys = append(keys, k)
	}
	sort.Slice(keys, func(i, j int) bool {
		return keys[i][0] < keys[j][0] || (keys[i][0] == keys[j][0] && keys[i][1] < keys[j][1])
	})
	for _, k := range keys {
		if !bytes.Equal(a[k], b[k]) {
			return fmt.Sprintf("buffer (%d,%d) %s", k[0], k[1], firstDiff(a[k], b[k]))
		}
	}
	return ""
}

func firstDiff(a, b []byte) string {
	if len(a) != len(b) {
		return fmt.Sprintf("sizes %d / %d", len(a), len(b))
	}
	for i := range a {
		if a[i] != b[i] {
			o := i &^ 3
			e := min(o+4, len(a))
			return fmt.Sprintf("differs at byte %d: before %s after %s", i, hex.EncodeToString(a[o:e]), hex.EncodeToString(b[o:e]))
		}
	}
	return "equal"
}

func firstWords(s string, n int) string {
	w := strings.Fields(firstLine(s))
	if len(w) > n {
		w = w[:n]
	}
	return strings.Join(w, " ")
}

func judgeRaw(raw json.RawMessage) (bool, string) {
	var c pcase
	if err := json.Unmarshal(raw, &c); err != nil {
		return false, "bad case: " + err.Error()
	}
	noExclude = true
	defer func() { noExclude = false }()
	v := judge(&c)
	if v.skip != "" {
		return true, "outside the property: " + v.skip
	}
	return v.ok, v.msg
}

// ---- known findings ---------------------------------------------------------------------------------

// noExclude makes the judge strict (replay / TestKnown).
var noExclude bool

// active reports whether a known-finding tag is switched on (never during replay / TestKnown).
func active(tag string) bool {
	if noExclude {
		return false
	}
	if off := os.Getenv("C13_OFF"); off != "" && strings.Contains(","+off+",", ","+tag+",") {
		return false // development aid: treat this finding as not listed
	}
	return localKnownTags[tag] || ev.ExcludedQuiet(tag)
}

// localKnownTags: findings of this check that are not yet listed in known_findings.json.
var localKnownTags = map[string]bool{}

func exprKindOf(is irx.Issue) ir.ExpressionKind {
	if is.Fn == nil || is.Expr < 0 || is.Expr >= len(is.Fn.Expressions) {
		return nil
	}
	return is.Fn.Expressions[is.Expr].Kind
}

func isLocalVarExpr(f *ir.Function, h ir.ExpressionHandle) bool {
	if f == nil || int(h) >= len(f.Expressions) {
		return false
	}
	_, ok := f.Expressions[h].Kind.(ir.ExprLocalVariable)
	return ok
}

func typeInArena(m *ir.Module, in ir.TypeInner) bool {
	for i := range m.Types {
		if irx.InnersEqual(m, m.Types[i].Inner, in) {
			return true
		}
	}
	return false
}

// hasKnownUnemitted reports whether the module has an expression outside every Emit whose shape is that of an
// open finding (C13-1, C13-6).
func hasKnownUnemitted(m *ir.Module, passes []string, ssa bool) (found bool) {
	defer func() { _ = recover() }()
	for _, is := range irx.StrictValidateOpts(m, irx.Options{SSA: ssa}) {
		if is.Rule != irx.RuleEmitMissing && is.Rule != irx.RuleExprOrder && is.Rule != irx.RulePhiUndefined {
			continue
		}
		switch knownShape(m, is, passes) {
		case "c13-inline-callresult-load-unemitted", "c13-dce-drops-emit-of-live-expression":
			return true
		}
	}
	return false
}

// knownShape returns the tag of the open known finding whose shape the issue has ("" if none).
func knownShape(m *ir.Module, is irx.Issue, passes []string) string {
	kind := exprKindOf(is)
	inl := hasPass(passes, "inline:") || hasPass(passes, "dxil:prepare")
	sroa := hasPass(passes, "dxil:sroa") || hasPass(passes, "dxil:all")
	dce := hasPass(passes, "dxil:dce") || hasPass(passes, "dxil:all")
	tag := ""
	switch is.Rule {
	case irx.RuleExprOrder, irx.RuleEmitMissing, irx.RuleAliasUndefined:
		// C13-1: the inliner rewrites the CallResult slot in place into Load(result local):
		// the load refers forward and no Emit covers it (a later alias of it has no defined source).
		ldh := is.Expr
		if al, ok := kind.(ir.ExprAlias); ok && is.Rule == irx.RuleAliasUndefined {
			ldh = int(al.Source)
		}
		if is.Fn != nil && ldh >= 0 && ldh < len(is.Fn.Expressions) {
			if ld, ok := is.Fn.Expressions[ldh].Kind.(ir.ExprLoad); ok && inl && isLocalVarExpr(is.Fn, ld.Pointer) {
				tag = "c13-inline-callresult-load-unemitted"
			}
			// … and the callee's FunctionArgument slots into copies of the argument expressions
			// (named "_<callee>_<param>"), again outside every Emit.
			if name := is.Fn.NamedExpressions[ir.ExpressionHandle(ldh)]; inl && is.Rule == irx.RuleEmitMissing && strings.HasPrefix(name, "_") {
				tag = "c13-inline-callresult-load-unemitted"
			}
		}
		// C13-6: DCE removes Emit statements whose expressions kept statements still use.
		if is.Rule == irx.RuleEmitMissing && dce && tag == "" {
			tag = "c13-dce-drops-emit-of-live-expression"
		}
		// C13-4: SROA rewrites Load(local struct) in place into a Compose of loads appended later.
		if _, ok := kind.(ir.ExprCompose); ok && is.Rule == irx.RuleExprOrder && sroa {
			tag = "c13-sroa-inplace-rewrite"
		}
	case irx.RuleEmitPre, irx.RuleTypingMismatch:
		// C13-4: SROA turns AccessIndex(local struct, k) into ExprLocalVariable in place: the slot
		// stays inside its Emit range and keeps a non-pointer ExpressionTypes entry.
		if _, ok := kind.(ir.ExprLocalVariable); ok && sroa {
			tag = "c13-sroa-inplace-rewrite"
		}
	case irx.RulePhiUndefined:
		// C13-1 again, after mem2reg: an incoming of the phi is the Load(result local) that the inliner put
		// where the CallResult was, outside every Emit
		if ph, ok := kind.(ir.ExprPhi); ok && inl && is.Fn != nil {
			for _, in := range ph.Incoming {
				if int(in.Value) < len(is.Fn.Expressions) {
					if ld, ok := is.Fn.Expressions[in.Value].Kind.(ir.ExprLoad); ok && isLocalVarExpr(is.Fn, ld.Pointer) {
						tag = "c13-inline-callresult-load-unemitted"
					}
				}
			}
		}
	case irx.RulePhiPosition:
		// C13-5: DCE removes the (now empty) If / Switch a phi selects by.
		if dce {
			tag = "c13-dce-removes-branch-of-phi"
		}
	case irx.RuleHandleRange:
		// C09-16 again: CompactTypes drops a type only GlobalExpressions refer to.
		if strings.HasPrefix(is.Where, "global expression [") && strings.Contains(is.Msg, "type handle 4294967295 out of range") {
			tag = "c09-global-expr-type-handle-dropped-by-compact-types"
		}
	case irx.RuleTypingMissing:
		// C09-4 again: CompactTypes blanks an ExpressionTypes entry whose type nothing else uses.
		if in := irx.InnerOf(m, is.Inferred); in != nil && is.Inferred.Handle == nil && !typeInArena(m, in) {
			tag = "c09-exprtype-dropped-by-compact-types"
		}
	}
	if tag != "" && active(tag) {
		return tag
	}
	return ""
}

var knownIdempotence = map[string]string{
	"dxil:mem2reg": "c13-mem2reg-not-idempotent",
	"dxil:dce":     "c13-dce-not-idempotent",
	"dxil:all":     "c13-mem2reg-not-idempotent",
	"ReorderTypes": "c13-reordertypes-not-idempotent",
	"CompactTypes": "c13-compacttypes-not-idempotent",
}

func idempotenceKnown(pass string) string {
	if tag := knownIdempotence[pass]; tag != "" && active(tag) {
		return tag
	}
	return ""
}

// knownConstruct inspects the unmodified module for a construct whose handling by one of the
// drawn passes is an open finding; such cases are skipped (counted) so that the search goes on.
func knownConstruct(m *ir.Module, passes []string) string {
	inl := hasPass(passes, "inline:all") || hasPass(passes, "inline:only") || hasPass(passes, "dxil:prepare")
	m2r := hasPass(passes, "dxil:mem2reg") || hasPass(passes, "dxil:all")
	if inl && active("c13-inline-callee-locals-not-reinitialised") && callInLoopToFunctionWithLocals(m) {
		return "c13-inline-callee-locals-not-reinitialised"
	}
	if m2r && active("c13-mem2reg-single-block-in-loop") && singleBlockVarInLoop(m) {
		return "c13-mem2reg-single-block-in-loop"
	}
	if m2r && active("c13-mem2reg-single-block-in-loop") && (hasPass(passes, "dxil:prepare") || hasPass(passes, "dxil:all")) {
		// the locals the inliner creates for a call inside a loop (argument / result copies) are
		// single-block variables inside that loop as well: look at the prepared module too
		if pm, err := dxil.VerifPrepare(m); err == nil && pm != nil && singleBlockVarInLoop(pm) {
			return "c13-mem2reg-single-block-in-loop"
		}
	}
	if (hasPass(passes, "dxil:sroa") || hasPass(passes, "dxil:all")) && active("c13-sroa-full-compose-store-not-decomposed") && composeStoredToStructLocal(m) {
		return "c13-sroa-full-compose-store-not-decomposed"
	}
	if m2r && active("c13-mem2reg-switch-early-break") && switchCaseEarlyBreak(m) {
		return "c13-mem2reg-switch-early-break"
	}
	if m2r && active("c13-mem2reg-store-before-loop-dropped") && storeBeforeLoopThatStores(m) {
		return "c13-mem2reg-store-before-loop-dropped"
	}
	if inl && active("c13-inline-early-return-in-loop-or-switch") && returnInsideLoopOrSwitch(m) {
		return "c13-inline-early-return-in-loop-or-switch"
	}
	return ""
}

func eachFunction(m *ir.Module, f func(*ir.Function)) {
	for i := range m.Functions {
		f(&m.Functions[i])
	}
	for i := range m.EntryPoints {
		f(&m.EntryPoints[i].Function)
	}
}

// callInLoopToFunctionWithLocals: some Call statement inside a loop targets a function that
// (itself or through its callees) declares local variables.
func callInLoopToFunctionWithLocals(m *ir.Module) bool {
	hasLocals := make([]int8, len(m.Functions)) // 0 unknown, 1 yes, -1 no
	var locals func(fh ir.FunctionHandle, d int) bool
	var blockCalls func(b ir.Block, f func(ir.StmtCall, bool) bool, inLoop bool, d int) bool
	blockCalls = func(b ir.Block, f func(ir.StmtCall, bool) bool, inLoop bool, d int) bool {
		if d > 500 {
			return false
		}
		for _, s := range b {
			if c, ok := s.Kind.(ir.StmtCall); ok && f(c, inLoop) {
				return true
			}
			_, isLoop := s.Kind.(ir.StmtLoop)
			for _, sb := range irx.SubBlocks(s.Kind) {
				if blockCalls(sb, f, inLoop || isLoop, d+1) {
					return true
				}
			}
		}
		return false
	}
	locals = func(fh ir.FunctionHandle, d int) bool {
		if int(fh) >= len(m.Functions) || d > 64 {
			return false
		}
		if hasLocals[fh] != 0 {
			return hasLocals[fh] > 0
		}
		hasLocals[fh] = -1
		fn := &m.Functions[fh]
		r := len(fn.LocalVars) > 0 || blockCalls(ir.Block(fn.Body), func(c ir.StmtCall, _ bool) bool { return locals(c.Function, d+1) }, false, 0)
		if r {
			hasLocals[fh] = 1
		}
		return r
	}
	found := false
	eachFunction(m, func(fn *ir.Function) {
		if blockCalls(ir.Block(fn.Body), func(c ir.StmtCall, inLoop bool) bool { return inLoop && locals(c.Function, 0) }, false, 0) {
			found = true
		}
	})
	// a helper that is itself called from inside a loop inlines its own callees there as well
	if !found {
		callers := map[ir.FunctionHandle]bool{}
		eachFunction(m, func(fn *ir.Function) {
			blockCalls(ir.Block(fn.Body), func(c ir.StmtCall, inLoop bool) bool {
				if inLoop {
					callers[c.Function] = true
				}
				return false
			}, false, 0)
		})
		for fh := range callers {
			if locals(fh, 0) {
				found = true
			}
		}
	}
	return found
}

// sroaUntypedCompose: a Compose of type handle 0 whose components are all loads of local
// variables and do not build type 0 (SROA's rewrite of Load(struct local) leaves Type unset).
func sroaUntypedCompose(m *ir.Module) bool {
	found := false
	eachFunction(m, func(fn *ir.Function) {
		if found {
			return
		}
		ty := irx.NewTypifier(m, fn)
		ty.SSA = true
		for h, e := range fn.Expressions {
			c, ok := e.Kind.(ir.ExprCompose)
			if !ok || c.Type != 0 || len(c.Components) == 0 {
				continue
			}
			all := true
			for _, comp := range c.Components {
				if int(comp) >= len(fn.Expressions) {
					all = false
					break
				}
				switch k := fn.Expressions[comp].Kind.(type) {
				case ir.ExprLoad:
					if !isLocalVarExpr(fn, k.Pointer) {
						all = false
					}
				case ir.ExprAlias:
				default:
					all = false
				}
			}
			if !all {
				continue
			}
			if _, err := ty.Type(ir.ExpressionHandle(h)); err != nil {
				found = true
				return
			}
		}
	})
	return found
}

// switchCaseEarlyBreak: a switch case is left by a `break` nested in an if / block of the case.
func switchCaseEarlyBreak(m *ir.Module) bool {
	var hasBreak func(b ir.Block, d int) bool
	hasBreak = func(b ir.Block, d int) bool {
		if d > 500 {
			return false
		}
		for _, s := range b {
			switch k := s.Kind.(type) {
			case ir.StmtBreak:
				return true
			case ir.StmtIf:
				if hasBreak(k.Accept, d+1) || hasBreak(k.Reject, d+1) {
					return true
				}
			case ir.StmtBlock:
				if hasBreak(k.Block, d+1) {
					return true
				}
			}
		}
		return false
	}
	var walk func(b ir.Block, d int) bool
	walk = func(b ir.Block, d int) bool {
		if d > 500 {
			return false
		}
		for _, s := range b {
			if sw, ok := s.Kind.(ir.StmtSwitch); ok {
				for _, c := range sw.Cases {
					for _, cs := range c.Body {
						switch k := cs.Kind.(type) {
						case ir.StmtIf:
							if hasBreak(k.Accept, 0) || hasBreak(k.Reject, 0) {
								return true
							}
						case ir.StmtBlock:
							if hasBreak(k.Block, 0) {
								return true
							}
						}
					}
				}
			}
			for _, sb := range irx.SubBlocks(s.Kind) {
				if walk(sb, d+1) {
					return true
				}
			}
		}
		return false
	}
	found := false
	eachFunction(m, func(fn *ir.Function) {
		if walk(ir.Block(fn.Body), 0) {
			found = true
		}
	})
	return found
}

// storeBeforeLoopThatStores: a local variable is stored to and, later in textual order, a loop
// stores to it as well.
func storeBeforeLoopThatStores(m *ir.Module) bool {
	found := false
	eachFunction(m, func(fn *ir.Function) {
		if found || len(fn.LocalVars) == 0 {
			return
		}
		ptrVar := map[ir.ExpressionHandle]uint32{}
		for h, e := range fn.Expressions {
			if lv, ok := e.Kind.(ir.ExprLocalVariable); ok {
				ptrVar[ir.ExpressionHandle(h)] = lv.Variable
			}
		}
		var storesIn func(b ir.Block, out map[uint32]bool, d int)
		storesIn = func(b ir.Block, out map[uint32]bool, d int) {
			if d > 500 {
				return
			}
			for _, s := range b {
				if st, ok := s.Kind.(ir.StmtStore); ok {
					if v, ok := ptrVar[st.Pointer]; ok {
						out[v] = true
					}
				}
				for _, sb := range irx.SubBlocks(s.Kind) {
					storesIn(sb, out, d+1)
				}
			}
		}
		stored := map[uint32]bool{}
		var walk func(b ir.Block, d int)
		walk = func(b ir.Block, d int) {
			if d > 500 {
				return
			}
			for _, s := range b {
				switch k := s.Kind.(type) {
				case ir.StmtStore:
					if v, ok := ptrVar[k.Pointer]; ok {
						stored[v] = true
					}
				case ir.StmtLoop:
					in := map[uint32]bool{}
					storesIn(k.Body, in, 0)
					storesIn(k.Continuing, in, 0)
					for v := range in {
						if stored[v] {
							found = true
						}
					}
				}
				for _, sb := range irx.SubBlocks(s.Kind) {
					walk(sb, d+1)
				}
			}
		}
		walk(ir.Block(fn.Body), 0)
	})
	return found
}

// composeStoredToStructLocal: a Store writes a Compose into a whole struct-typed local variable.
func composeStoredToStructLocal(m *ir.Module) bool {
	found := false
	eachFunction(m, func(fn *ir.Function) {
		var walk func(b ir.Block, d int)
		walk = func(b ir.Block, d int) {
			if d > 500 || found {
				return
			}
			for _, s := range b {
				if st, ok := s.Kind.(ir.StmtStore); ok && int(st.Pointer) < len(fn.Expressions) && int(st.Value) < len(fn.Expressions) {
					lv, isLocal := fn.Expressions[st.Pointer].Kind.(ir.ExprLocalVariable)
					_, isCompose := fn.Expressions[st.Value].Kind.(ir.ExprCompose)
					if isLocal && isCompose && int(lv.Variable) < len(fn.LocalVars) && int(fn.LocalVars[lv.Variable].Type) < len(m.Types) {
						if _, isStruct := m.Types[fn.LocalVars[lv.Variable].Type].Inner.(ir.StructType); isStruct {
							found = true
						}
					}
				}
				for _, sb := range irx.SubBlocks(s.Kind) {
					walk(sb, d+1)
				}
			}
		}
		walk(ir.Block(fn.Body), 0)
	})
	return found
}

// localStoreCounts counts, per (function index, local variable), the Store statements whose
// pointer is rooted at that variable (directly or through an access chain).
func localStoreCounts(m *ir.Module) map[[2]int]int {
	out := map[[2]int]int{}
	fi := 0
	eachFunction(m, func(fn *ir.Function) {
		idx := fi
		fi++
		var walk func(b ir.Block, d int)
		walk = func(b ir.Block, d int) {
			if d > 500 {
				return
			}
			for _, s := range b {
				if st, ok := s.Kind.(ir.StmtStore); ok {
					if v, ok := rootLocal(fn, st.Pointer, 0); ok {
						out[[2]int{idx, int(v)}]++
					}
				}
				for _, sb := range irx.SubBlocks(s.Kind) {
					walk(sb, d+1)
				}
			}
		}
		walk(ir.Block(fn.Body), 0)
	})
	return out
}

func rootLocal(fn *ir.Function, h ir.ExpressionHandle, d int) (uint32, bool) {
	if int(h) >= len(fn.Expressions) || d > 32 {
		return 0, false
	}
	switch k := fn.Expressions[h].Kind.(type) {
	case ir.ExprLocalVariable:
		return k.Variable, true
	case ir.ExprAccessIndex:
		return rootLocal(fn, k.Base, d+1)
	case ir.ExprAccess:
		return rootLocal(fn, k.Base, d+1)
	}
	return 0, false
}

// lostAllStoresButStillLoaded: a local variable that was stored to before the pass has no store
// left although an emitted Load still reads it (the stores were not dead).
func lostAllStoresButStillLoaded(m *ir.Module, pre map[[2]int]int) bool {
	post := localStoreCounts(m)
	found := false
	fi := 0
	eachFunction(m, func(fn *ir.Function) {
		idx := fi
		fi++
		emitted := map[ir.ExpressionHandle]bool{}
		var walk func(b ir.Block, d int)
		walk = func(b ir.Block, d int) {
			if d > 500 {
				return
			}
			for _, s := range b {
				if e, ok := s.Kind.(ir.StmtEmit); ok {
					for h := e.Range.Start; h < e.Range.End; h++ {
						emitted[h] = true
					}
				}
				for _, sb := range irx.SubBlocks(s.Kind) {
					walk(sb, d+1)
				}
			}
		}
		walk(ir.Block(fn.Body), 0)
		for h, e := range fn.Expressions {
			ld, ok := e.Kind.(ir.ExprLoad)
			if !ok || !emitted[ir.ExpressionHandle(h)] {
				continue
			}
			if v, ok := rootLocal(fn, ld.Pointer, 0); ok {
				k := [2]int{idx, int(v)}
				if pre[k] > 0 && post[k] == 0 {
					found = true
				}
			}
		}
	})
	return found
}

// returnInsideLoopOrSwitch: a helper function returns from inside one of its own loops or switches.
func returnInsideLoopOrSwitch(m *ir.Module) bool {
	var walk func(b ir.Block, nested bool, d int) bool
	walk = func(b ir.Block, nested bool, d int) bool {
		if d > 500 {
			return false
		}
		for _, s := range b {
			if _, ok := s.Kind.(ir.StmtReturn); ok && nested {
				return true
			}
			n := nested
			switch s.Kind.(type) {
			case ir.StmtLoop, ir.StmtSwitch:
				n = true
			}
			for _, sb := range irx.SubBlocks(s.Kind) {
				if walk(sb, n, d+1) {
					return true
				}
			}
		}
		return false
	}
	for i := range m.Functions {
		if walk(ir.Block(m.Functions[i].Body), false, 0) {
			return true
		}
	}
	return false
}

// singleBlockVarInLoop: some local variable has all its direct loads and stores in ONE block
// that lies inside a loop, and the first of them is a load (the value crosses the back edge).
func singleBlockVarInLoop(m *ir.Module) bool {
	found := false
	eachFunction(m, func(fn *ir.Function) {
		if found || len(fn.LocalVars) == 0 {
			return
		}
		ptrVar := map[ir.ExpressionHandle]uint32{}
		loadVar := map[ir.ExpressionHandle]uint32{}
		for h, e := range fn.Expressions {
			if lv, ok := e.Kind.(ir.ExprLocalVariable); ok {
				ptrVar[ir.ExpressionHandle(h)] = lv.Variable
			}
		}
		for h, e := range fn.Expressions {
			if ld, ok := e.Kind.(ir.ExprLoad); ok {
				if v, ok := ptrVar[ld.Pointer]; ok {
					loadVar[ir.ExpressionHandle(h)] = v
				}
			}
		}
		type acc struct {
			block  int
			inLoop bool
			load   bool
		}
		accs := map[uint32][]acc{}
		blockID := 0
		var walk func(b ir.Block, inLoop bool, d int)
		walk = func(b ir.Block, inLoop bool, d int) {
			if d > 500 {
				return
			}
			blockID++
			id := blockID
			for _, s := range b {
				switch k := s.Kind.(type) {
				case ir.StmtEmit:
					for h := k.Range.Start; h < k.Range.End; h++ {
						if v, ok := loadVar[h]; ok {
							accs[v] = append(accs[v], acc{id, inLoop, true})
						}
					}
				case ir.StmtStore:
					if v, ok := ptrVar[k.Pointer]; ok {
						accs[v] = append(accs[v], acc{id, inLoop, false})
					}
				}
				_, isLoop := s.Kind.(ir.StmtLoop)
				for _, sb := range irx.SubBlocks(s.Kind) {
					walk(sb, inLoop || isLoop, d+1)
				}
			}
		}
		walk(ir.Block(fn.Body), false, 0)
		for _, l := range accs {
			if len(l) < 2 || !l[0].inLoop || !l[0].load {
				continue
			}
			same, stores := true, false
			for _, a := range l {
				same = same && a.block == l[0].block
				stores = stores || !a.load
			}
			if same && stores {
				found = true
			}
		}
	})
	return found
}

func hasPass(passes []string, prefix string) bool {
	for _, p := range passes {
		if strings.HasPrefix(p, prefix) {
			return true
		}
	}
	return false
}

// ---- generators -----------------------------------------------------------------------------------------

func drawPasses(t *rapid.T, m *ir.Module) []string {
	inline := func() string {
		switch rapid.IntRange(0, 3).Draw(t, "inlinePolicy") {
		case 0:
			return "inline:none"
		case 1, 2:
			return "inline:all"
		}
		var names []string
		for i := range m.Functions {
			if rapid.Bool().Draw(t, "inlineFn") {
				names = append(names, m.Functions[i].Name)
			}
		}
		if len(names) == 0 {
			return "inline:all"
		}
		return "inline:only=" + strings.Join(names, ",")
	}
	one := func() string {
		i := rapid.IntRange(0, len(irPasses)+1).Draw(t, "pass")
		if i >= len(irPasses) {
			return inline()
		}
		return irPasses[i]
	}
	switch rapid.IntRange(0, 9).Draw(t, "family") {
	case 0, 1, 2: // a single IR pass
		return []string{one()}
	case 3, 4: // a random sequence
		n := rapid.IntRange(2, 5).Draw(t, "seqLen")
		out := make([]string, n)
		for i := range out {
			out[i] = one()
		}
		return out
	case 5: // what CompactUnused + the lowering epilogue do, after inlining
		return []string{inline(), "CompactUnused", "CompactExpressions", "CompactTypes", "ReorderTypes", "DeduplicateEmits"}
	default: // the DXIL pipeline, cumulatively
		stages := [][]string{
			{"dxil:prepare"},
			{"dxil:prepare", "dxil:sroa"},
			{"dxil:prepare", "dxil:sroa", "dxil:mem2reg"},
			{"dxil:prepare", "dxil:sroa", "dxil:mem2reg", "dxil:dce"},
			{"dxil:prepare", "dxil:all"},
			{"dxil:sroa", "dxil:mem2reg", "dxil:dce"},
			{"inline:all", "dxil:all"},
			{"dxil:mem2reg"},
		}
		return stages[rapid.IntRange(0, len(stages)-1).Draw(t, "dxilStage")]
	}
}

func record(c *pcase, v verdict, nontrivialRef bool, source string) {
	raw, _ := json.Marshal(c.Passes)
	nt := v.skip == "" && v.changed && nontrivialRef
	ev.Eval(ev.HashS(c.WGSL, fmt.Sprint(c.Buffers), string(raw)), nt)
	ev.Class("source:" + source)
	for _, p := range c.Passes {
		if strings.HasPrefix(p, "inline:only=") {
			p = "inline:only=…"
		}
		ev.Class("pass:" + p)
	}
	for _, k := range v.classes {
		ev.Class(k)
	}
	if v.skip != "" {
		ev.Class("skip:" + firstWords(v.skip, 4))
		return
	}
	if v.changed {
		ev.Class("module-changed")
	} else {
		ev.Class("module-unchanged")
	}
}

func TestPropPasses(t *testing.T) {
	ev.Rule("generated: exec-profile WGSL compute programs (wgen.GenExec, constructs of open findings off) with generated inputs x a drawn pass sequence " +
		"(single IR pass | random sequence of CompactUnused/CompactConstants/CompactExpressions/CompactTypes/ReorderTypes/DeduplicateEmits/InlineUserFunctions{all,none,by name} | " +
		"inline + lowering epilogue | DXIL pipeline prefixes prepare, +sroa, +mem2reg, +dce, all); oracles: (a) irx interpreter before vs after: same trap/poison status and bit-identical buffers, " +
		"plus, for ordinary IR, SPIR-V of before and after run by the independent SPIR-V interpreter; (b) irx.StrictValidate (+ alias/phi dominance rules for DXIL stages) reports nothing new; " +
		"(c) re-applying the last pass leaves irx.Hash unchanged; (d) dxil prepareModule leaves its argument's hash unchanged; " +
		"non-trivial = the sequence changed the module AND the reference run loaded inputs, stored outputs and executed >= 5 operations of >= 3 classes; distinct = hash(WGSL, inputs, passes)")
	ev.Assume("irx.Run implements the semantics of the IR (validated against the WGSL reference evaluator on lowered modules); verif/internal/spv implements SPIR-V execution")
	ev.Assume("cases whose unmodified module traps / uses an open value in the interpreter are outside the property (counted as skip:before:*)")
	rapid.Check(t, func(t *rapid.T) {
		f := wgen.DefaultFeatures()
		f.ConstOK = wref.ConstOK
		f.Off = func(tag string) bool { return ev.Excluded(tag) || ev.Excluded("c13."+tag) }
		gc := wgen.GenExec(t, f)
		xc, res, discard, err := xrun.Build(gc, nil)
		if err != nil {
			ev.Class("harness:reference-failed")
			ev.Eval(ev.HashS(gc.Src), false)
			return
		}
		if discard != "" {
			ev.Class("discard:" + discard)
			ev.Eval(ev.HashS(gc.Src), false)
			return
		}
		m, rej := lower(xc.WGSL)
		if rej != "" {
			ev.Class("rejected-by-naga")
			ev.Eval(ev.HashS(gc.Src), false)
			return
		}
		c := &pcase{WGSL: xc.WGSL, Buffers: xc.Buffers, NumWG: xc.NumWG, Entry: xc.Entry, Passes: drawPasses(t, m)}
		v := judge(c)
		record(c, v, xrun.NonTrivial(res), "generated")
		if v.skip == "" && v.beforeBufs != nil {
			got := map[[2]int][]byte{}
			for k, b := range v.beforeBufs {
				got[[2]int{int(k[0]), int(k[1])}] = b
			}
			if ok, _ := xc.Compare(got); !ok {
				ev.Class("note:unmodified-module-differs-from-reference (lowering, C01/C09 territory)")
			}
		}
		if v.skip == "" && v.changed && ev.WantSample("passes") {
			ev.Sample("passes", map[string]any{"passes": c.Passes, "wgsl": c.WGSL})
		}
		if !v.ok {
			if hunt != nil {
				hunt.add(c, v)
				return
			}
			ev.Fail(checkName, c, v.msg)
			t.Fatalf("%s\n%s", v.msg, c.WGSL)
		}
	})
	if hunt != nil {
		hunt.dump("gen")
	}
}

// hunt mode (development aid): C13_HUNT=<dir> collects failures by class instead of stopping.
type hunter struct {
	dir    string
	counts map[string]int
	first  map[string]*pcase
	msgs   map[string]string
}

var hunt = func() *hunter {
	if d := os.Getenv("C13_HUNT"); d != "" {
		return &hunter{dir: d, counts: map[string]int{}, first: map[string]*pcase{}, msgs: map[string]string{}}
	}
	return nil
}()

func huntKey(msg string) string {
	l := firstLine(msg)
	if i := strings.Index(l, "after ["); i >= 0 {
		if j := strings.Index(l[i:], "]"); j > 0 {
			l = l[:i] + l[i+j+1:]
		}
	}
	l2 := ""
	if i := strings.IndexByte(msg, '\n'); i >= 0 {
		l2 = " | " + firstWords(msg[i+1:], 1)
	}
	var sb strings.Builder
	for _, r := range l {
		if r >= '0' && r <= '9' {
			continue
		}
		sb.WriteRune(r)
	}
	k := sb.String() + l2
	if len(k) > 150 {
		k = k[:150]
	}
	return k
}

func (h *hunter) add(c *pcase, v verdict) {
	k := huntKey(v.msg)
	h.counts[k]++
	if f, ok := h.first[k]; !ok || len(c.WGSL) < len(f.WGSL) {
		cc := *c
		h.first[k] = &cc
		h.msgs[k] = v.msg
	}
}

func (h *hunter) dump(prefix string) {
	os.MkdirAll(h.dir, 0o755)
	var keys []string
	for k := range h.counts {
		keys = append(keys, k)
	}
	sort.Strings(keys)
	for i, k := range keys {
		name := filepath.Join(h.dir, fmt.Sprintf("%s%02d.json", prefix, i))
		b, _ := json.MarshalIndent(map[string]any{"message": h.msgs[k], "case": h.first[k]}, "", " ")
		os.WriteFile(name, b, 0o644)
		fmt.Printf("HUNT %5d  %s -> %s %v\n", h.counts[k], k, name, h.first[k].Passes)
	}
}

// TestPropCorpus: the compute entry points of the corpus with zero-filled
// buffers, every single pass and the DXIL pipeline (smoke source).
func TestPropCorpus(t *testing.T) {
	ev.Rule("corpus: every compute entry point of /repo/snapshot/testdata/in/*.wgsl that lowers, zero-filled buffers (runtime arrays: 4 elements), one workgroup; each single pass and each DXIL pipeline prefix")
	files, _ := filepath.Glob("/repo/snapshot/testdata/in/*.wgsl")
	sort.Strings(files)
	shards, _ := strconv.Atoi(os.Getenv("VERIF_SHARDS"))
	if shards <= 0 {
		shards = 1
	}
	seqs := [][]string{}
	for _, p := range irPasses {
		seqs = append(seqs, []string{p})
	}
	seqs = append(seqs, []string{"inline:all"}, []string{"inline:all", "CompactUnused", "CompactExpressions", "CompactTypes"},
		[]string{"dxil:prepare"}, []string{"dxil:prepare", "dxil:sroa"}, []string{"dxil:prepare", "dxil:sroa", "dxil:mem2reg"}, []string{"dxil:prepare", "dxil:all"})
	for i, p := range files {
		if i%shards != ev.ShardIndex()%shards {
			continue
		}
		b, err := os.ReadFile(p)
		if err != nil {
			continue
		}
		src := string(b)
		m, rej := lower(src)
		if rej != "" {
			continue
		}
		for ei := range m.EntryPoints {
			ep := &m.EntryPoints[ei]
			if ep.Stage != ir.StageCompute {
				continue
			}
			bufs := map[string]string{}
			okBufs := true
			for gi := range m.GlobalVariables {
				g := &m.GlobalVariables[gi]
				if g.Binding == nil || (g.Space != ir.SpaceStorage && g.Space != ir.SpaceUniform) {
					continue
				}
				n, err := irx.BufferSize(m, ir.GlobalVariableHandle(gi), 4)
				if err != nil || n > 1<<20 {
					okBufs = false
					break
				}
				bufs[xrun.Key(int(g.Binding.Group), int(g.Binding.Binding))] = hex.EncodeToString(make([]byte, n))
			}
			if !okBufs {
				ev.Class("corpus:buffer-layout-unsupported")
				continue
			}
			for _, seq := range seqs {
				c := &pcase{WGSL: src, Buffers: bufs, NumWG: [3]uint32{1, 1, 1}, Entry: ep.Name, Passes: seq}
				v := judge(c)
				record(c, v, true, "corpus")
				if !v.ok {
					if hunt != nil {
						hunt.add(c, v)
						continue
					}
					msg := filepath.Base(p) + " " + ep.Name + ": " + v.msg
					ev.Fail(checkName, c, msg)
					t.Errorf("%s", msg)
				}
			}
		}
	}
	if hunt != nil {
		hunt.dump("corpus")
	}
}
