//go:build verif

package c13

import (
	"encoding/binary"
	"encoding/hex"
	"fmt"
	"os"
	"strconv"
	"testing"

	"verif/internal/ev"
)

// Hand-written programs around the patterns the passes rewrite (values merged at
// if / switch joins, struct locals, helpers with pointer and value parameters,
// early exits).  Every path is driven by the input buffer, each program runs on
// several inputs and through every pass sequence of the corpus source.
const hwHeader = `struct In { a: u32, b: u32, c: u32, d: u32 }
@group(0) @binding(0) var<storage, read> inp: In;
@group(0) @binding(1) var<storage, read_write> outp: array<u32, 8>;
`

var handwritten = []struct{ name, body string }{
	{"if-both-arms", `@compute @workgroup_size(1) fn main() {
  var v: u32;
  var w: u32 = 3u;
  if (inp.a > 5u) { v = inp.b + 1u; w = 9u; } else { v = inp.b * 2u; }
  outp[0] = v;
  outp[1] = w;
}`},
	{"if-one-arm-nested", `@compute @workgroup_size(1) fn main() {
  var v: u32 = 1u;
  if (inp.a > 5u) {
    if (inp.b > 5u) { v = 7u; }
    v = v + inp.c;
  }
  outp[0] = v;
}`},
	{"switch-merge", `@compute @workgroup_size(1) fn main() {
  var v: i32 = 4i;
  var u: u32;
  switch inp.a {
    case 0u: { v = 10i; }
    case 1u, 2u: { v = v + 20i; u = inp.b; }
    default: { u = 5u; }
  }
  outp[0] = u32(v);
  outp[1] = u;
}`},
	{"switch-group-call", `fn bump(x: u32) -> u32 { return x * 3u + 1u; }
fn note(i: u32) { outp[3] = outp[3] + i; }
@compute @workgroup_size(1) fn main() {
  var v: u32 = 2u;
  switch inp.a % 6u {
    case 0u, 1u: { v = bump(inp.b); }
    case 2u, 3u, default: { note(inp.c); v = v + 1u; }
    case 4u: { v = bump(v) + bump(inp.d); }
  }
  switch inp.b % 4u {
    case 3u, 1u: { note(v); }
    default: { }
  }
  outp[0] = v;
}`},
	{"struct-local", `struct P { x: u32, y: vec2<u32>, z: u32 }
@compute @workgroup_size(1) fn main() {
  var p: P;
  p.x = inp.a;
  p.y = vec2<u32>(inp.b, inp.c);
  p.z = p.x + p.y.y;
  if (inp.d > 2u) { p.x = p.z * 2u; }
  outp[0] = p.x;
  outp[1] = p.y.x;
  outp[2] = p.z;
}`},
	{"pointer-param", `fn bump(p: ptr<function, u32>, k: u32) {
  *p = *p + k;
}
fn twice(x: u32) -> u32 {
  var t = x;
  bump(&t, x);
  return t;
}
@compute @workgroup_size(1) fn main() {
  var acc = inp.a;
  bump(&acc, inp.b);
  bump(&acc, 3u);
  outp[0] = acc;
  outp[1] = twice(inp.c) + twice(inp.d);
}`},
	{"helper-early-return", `fn pick(x: u32, y: u32) -> u32 {
  if (x > y) { return x - y; }
  let d = y - x;
  return d * 2u;
}
@compute @workgroup_size(1) fn main() {
  outp[0] = pick(inp.a, inp.b);
  outp[1] = pick(inp.b, inp.a) + pick(inp.c, inp.d);
}`},
	{"loop-carried", `@compute @workgroup_size(1) fn main() {
  var s: u32;
  var i: u32;
  loop {
    if (i >= inp.a % 5u) { break; }
    s = s + i * inp.b;
    continuing { i = i + 1u; }
  }
  outp[0] = s;
  outp[1] = i;
}`},
	{"swizzle-select", `@compute @workgroup_size(1) fn main() {
  let v = vec4<u32>(inp.a, inp.b, inp.c, inp.d);
  let unused = v.wzyx + v.xxyy;
  var r = v.zw;
  if (inp.a > inp.b) { r = v.yx; }
  let s = select(v.xy, r.yx, vec2<bool>(inp.c > 1u, inp.d > 1u));
  outp[0] = s.x;
  outp[1] = s.y;
  outp[2] = r.x;
}`},
	{"bool-and-float-merge", `@compute @workgroup_size(1) fn main() {
  var f: f32 = 1.5;
  var ok: bool;
  if (inp.a > 3u) { f = f32(inp.b) * 0.5; ok = true; } else { ok = inp.c > 1u; }
  outp[0] = u32(f * 4.0);
  outp[1] = select(7u, 11u, ok);
}`},
}

var hwInputs = [][4]uint32{{0, 0, 0, 0}, {1, 2, 3, 4}, {10, 7, 2, 9}, {6, 9, 1, 0}, {2, 100, 5, 3}}

func TestPropHandwritten(t *testing.T) {
	ev.Rule("hand-written: small programs around if/switch merges, struct locals, pointer parameters, early returns, loop-carried values, swizzles x 5 inputs x every single pass, inline + compaction, and every DXIL pipeline prefix")
	shards, _ := strconv.Atoi(os.Getenv("VERIF_SHARDS"))
	if shards <= 0 {
		shards = 1
	}
	n := 0
	seqs := [][]string{}
	for _, p := range irPasses {
		seqs = append(seqs, []string{p})
	}
	seqs = append(seqs, []string{"inline:all"}, []string{"inline:all", "CompactUnused", "CompactExpressions", "CompactTypes", "ReorderTypes", "DeduplicateEmits"},
		[]string{"dxil:prepare"}, []string{"dxil:sroa"}, []string{"dxil:mem2reg"}, []string{"dxil:dce"}, []string{"dxil:sroa", "dxil:mem2reg"},
		[]string{"dxil:prepare", "dxil:sroa", "dxil:mem2reg", "dxil:dce"}, []string{"dxil:prepare", "dxil:all"})
	for _, hw := range handwritten {
		for _, in := range hwInputs {
			b := make([]byte, 16)
			for i, x := range in {
				binary.LittleEndian.PutUint32(b[4*i:], x)
			}
			bufs := map[string]string{"0,0": hex.EncodeToString(b), "0,1": hex.EncodeToString(make([]byte, 32))}
			for _, seq := range seqs {
				n++
				if n%shards != ev.ShardIndex()%shards {
					continue
				}
				c := &pcase{WGSL: hwHeader + hw.body + "\n", Buffers: bufs, NumWG: [3]uint32{1, 1, 1}, Entry: "main", Passes: seq}
				v := judge(c)
				record(c, v, true, "handwritten")
				ev.Class("handwritten:" + hw.name)
				if !v.ok {
					if hunt != nil {
						hunt.add(c, v)
						continue
					}
					msg := fmt.Sprintf("%s %v: %s", hw.name, in, v.msg)
					ev.Fail(checkName, c, msg)
					t.Errorf("%s", msg)
				}
			}
		}
	}
	if hunt != nil {
		hunt.dump("hw")
	}
}
