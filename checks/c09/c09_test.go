// Package c09 checks property C09: every module returned by lowering satisfies
// the IR's structural contract (irx.StrictValidate) and passes naga's own validator.
package c09

import (
	"encoding/json"
	"fmt"
	"os"
	"path/filepath"
	"regexp"
	"sort"
	"strconv"
	"strings"
	"testing"

	"github.com/gogpu/naga"
	"github.com/gogpu/naga/ir"
	"pgregory.net/rapid"

	"verif/internal/ev"
	"verif/internal/irx"
)

func TestMain(m *testing.M) { ev.Main(m, "C09") }

// wcase is the serialised, self-contained case.
type wcase struct {
	WGSL string `json:"wgsl"`
}

const checkName = "lowered-ir"

var judges = map[string]ev.Judge{checkName: judgeRaw}

func TestKnown(t *testing.T)  { ev.RunKnown(t, "C09", judges) }
func TestReplay(t *testing.T) { ev.RunReplay(t, judges) }

// ---- known findings -------------------------------------------------------------
//
// Each tag names ONE root cause that reproduces on the unchanged tree (replay
// files known/C09-<n>.json).  A tag suppresses exactly the rule+shape described
// in matchKnown; every other breach of the same rule is still reported.  A tag
// is active when it is listed here OR in /verif/known_findings.json (open).
// VERIF_NO_EXCLUDE=1 disables all of them.
var localKnownTags = map[string]bool{}

func excluded(tag string) bool {
	if os.Getenv("VERIF_NO_EXCLUDE") != "" {
		return false
	}
	if localKnownTags[tag] {
		ev.Class("excluded:" + tag)
		return true
	}
	return ev.Excluded(tag)
}

func excludedQuiet(tag string) bool {
	if os.Getenv("VERIF_NO_EXCLUDE") != "" {
		return false
	}
	return localKnownTags[tag] || ev.ExcludedQuiet(tag)
}

// ---- judge ------------------------------------------------------------------------

type verdict struct {
	rejected   string // non-empty: naga refused the program (not C09's business)
	issues     []irx.Issue
	nagaErrs   []string
	stats      irx.Stats
	nontrivial bool
	module     *ir.Module
}

var (
	reNum   = regexp.MustCompile(`[0-9]+`)
	reQuote = regexp.MustCompile(`'[^']*'|"[^"]*"`)
	reIdent = regexp.MustCompile(`\b(l|v|k|p|r|a|w|C|S|U|B|R|g_[a-z]|fn_|i_|arg|out|f)N\b`)
)

func shortReason(err string) string {
	s := err
	if i := strings.IndexByte(s, '\n'); i >= 0 {
		s = s[:i]
	}
	s = reQuote.ReplaceAllString(s, "'_'")
	s = reNum.ReplaceAllString(s, "N")
	s = reIdent.ReplaceAllString(s, "_")
	if len(s) > 90 {
		s = s[:90]
	}
	return s
}

// lower runs Parse + LowerWithSource; a panic is reported as a rejection (C10 owns panics).
func lower(src string) (m *ir.Module, rejected string) {
	defer func() {
		if r := recover(); r != nil {
			m, rejected = nil, "panic: "+shortReason(fmt.Sprint(r))
		}
	}()
	ast, err := naga.Parse(src)
	if err != nil {
		return nil, "parse: " + shortReason(err.Error())
	}
	mod, err := naga.LowerWithSource(ast, src)
	if err != nil {
		return nil, "lower: " + shortReason(err.Error())
	}
	if mod == nil {
		return nil, "lower: nil module without error"
	}
	return mod, ""
}

func hasNested(b ir.Block) bool {
	for _, s := range b {
		if len(irx.SubBlocks(s.Kind)) > 0 {
			return true
		}
	}
	return false
}

func nontrivial(m *ir.Module) bool {
	ok := func(f *ir.Function) bool { return len(f.Expressions) >= 20 && hasNested(ir.Block(f.Body)) }
	for i := range m.Functions {
		if ok(&m.Functions[i]) {
			return true
		}
	}
	for i := range m.EntryPoints {
		if ok(&m.EntryPoints[i].Function) {
			return true
		}
	}
	return false
}

func judgeSrc(src string) (v verdict) {
	m, rej := lower(src)
	if rej != "" {
		v.rejected = rej
		return v
	}
	v.module = m
	v.nontrivial = nontrivial(m)
	func() {
		defer func() {
			if r := recover(); r != nil {
				v.issues = append(v.issues, irx.Issue{Rule: "harness.panic", Where: "irx.StrictValidate", Msg: fmt.Sprint(r), Expr: -1, Value: -1})
			}
		}()
		v.issues, v.stats = irx.StrictValidateStats(m)
	}()
	v.issues = append(v.issues, ioAttrIssues(src, m)...)
	func() {
		defer func() {
			if r := recover(); r != nil {
				v.nagaErrs = append(v.nagaErrs, "naga.Validate panicked: "+fmt.Sprint(r))
			}
		}()
		errs, err := naga.Validate(m)
		if err != nil {
			v.nagaErrs = append(v.nagaErrs, "naga.Validate error: "+err.Error())
		}
		for _, e := range errs {
			v.nagaErrs = append(v.nagaErrs, e.Error())
		}
	}()
	return v
}

// judgeRaw re-judges a serialised case STRICTLY (no known-finding suppression):
// it is used by --replay and by TestKnown, where a listed finding must still fail.
func judgeRaw(raw json.RawMessage) (bool, string) {
	var c wcase
	if err := json.Unmarshal(raw, &c); err != nil {
		return false, "bad case: " + err.Error()
	}
	v := judgeSrc(c.WGSL)
	if v.rejected != "" {
		return true, "rejected by naga (" + v.rejected + "): outside C09"
	}
	return report(v, nil)
}

func report(v verdict, suppressed map[int]bool) (bool, string) {
	var lines []string
	for i, is := range v.issues {
		if suppressed[i] {
			continue
		}
		lines = append(lines, is.String())
	}
	for i, e := range v.nagaErrs {
		if suppressed[-1-i] {
			continue
		}
		lines = append(lines, "naga.validate: "+e)
	}
	if len(lines) == 0 {
		return true, ""
	}
	n := len(lines)
	if n > 12 {
		lines = append(lines[:12], fmt.Sprintf("… and %d more", n-12))
	}
	msg := fmt.Sprintf("%d breach(es) of the IR contract:\n%s", n, strings.Join(lines, "\n"))
	// context: dump the first offending function
	for i, is := range v.issues {
		if !suppressed[i] && is.Fn != nil && v.module != nil {
			d := irx.DumpFunction(v.module, is.Fn)
			if len(d) > 6000 {
				d = d[:6000] + "\n…"
			}
			msg += "\n--- " + is.Where + " ---\n" + d
			break
		}
	}
	return false, msg
}

// usedGlobals returns, per entry point, the global variables it statically uses
// (through the functions it calls).
func usedGlobals(m *ir.Module) []map[ir.GlobalVariableHandle]bool {
	fnUses := make([]map[ir.GlobalVariableHandle]bool, len(m.Functions))
	var ofFn func(i int, depth int) map[ir.GlobalVariableHandle]bool
	collect := func(f *ir.Function, depth int) map[ir.GlobalVariableHandle]bool {
		out := map[ir.GlobalVariableHandle]bool{}
		for _, e := range f.Expressions {
			if g, ok := e.Kind.(ir.ExprGlobalVariable); ok {
				out[g.Variable] = true
			}
		}
		var walk func(b ir.Block, d int)
		walk = func(b ir.Block, d int) {
			if d > 500 {
				return
			}
			for _, st := range b {
				if c, ok := st.Kind.(ir.StmtCall); ok && int(c.Function) < len(m.Functions) && depth < 64 {
					for g := range ofFn(int(c.Function), depth+1) {
						out[g] = true
					}
				}
				for _, sb := range irx.SubBlocks(st.Kind) {
					walk(sb, d+1)
				}
			}
		}
		walk(ir.Block(f.Body), 0)
		return out
	}
	ofFn = func(i int, depth int) map[ir.GlobalVariableHandle]bool {
		if fnUses[i] == nil {
			fnUses[i] = map[ir.GlobalVariableHandle]bool{} // cut recursion
			fnUses[i] = collect(&m.Functions[i], depth)
		}
		return fnUses[i]
	}
	eps := make([]map[ir.GlobalVariableHandle]bool, len(m.EntryPoints))
	for i := range m.EntryPoints {
		eps[i] = collect(&m.EntryPoints[i].Function, 0)
	}
	return eps
}

// bindingSharedWithinEntryPoint: some entry point uses two resources with the same @group/@binding.
func bindingSharedWithinEntryPoint(m *ir.Module) bool {
	for _, used := range usedGlobals(m) {
		seen := map[ir.ResourceBinding]bool{}
		var hs []int
		for g := range used {
			hs = append(hs, int(g))
		}
		sort.Ints(hs)
		for _, g := range hs {
			if g >= len(m.GlobalVariables) || m.GlobalVariables[g].Binding == nil {
				continue
			}
			rb := *m.GlobalVariables[g].Binding
			if seen[rb] {
				return true
			}
			seen[rb] = true
		}
	}
	return false
}

// ---- shapes of the known findings ---------------------------------------------------

func exprKind(is irx.Issue, h int) ir.ExpressionKind {
	if is.Fn == nil || h < 0 || h >= len(is.Fn.Expressions) {
		return nil
	}
	return is.Fn.Expressions[h].Kind
}

// sameShapeOtherScalar: equal up to the leaf scalar kind/width (vec2<i32> vs vec2<u32>,
// array<i32,2> vs array<f32,2>, …).
func sameShapeOtherScalar(m *ir.Module, a, b ir.TypeInner, depth int) bool {
	if depth > 8 || a == nil || b == nil {
		return false
	}
	switch x := a.(type) {
	case ir.ScalarType:
		_, ok := b.(ir.ScalarType)
		return ok
	case ir.VectorType:
		y, ok := b.(ir.VectorType)
		return ok && x.Size == y.Size
	case ir.MatrixType:
		y, ok := b.(ir.MatrixType)
		return ok && x.Columns == y.Columns && x.Rows == y.Rows
	case ir.ArrayType:
		y, ok := b.(ir.ArrayType)
		if !ok || (x.Size.Constant == nil) != (y.Size.Constant == nil) || (x.Size.Constant != nil && *x.Size.Constant != *y.Size.Constant) {
			return false
		}
		if int(x.Base) >= len(m.Types) || int(y.Base) >= len(m.Types) {
			return false
		}
		return sameShapeOtherScalar(m, m.Types[x.Base].Inner, m.Types[y.Base].Inner, depth+1)
	}
	return false
}

// constCtorTree: the expression is built from Literal / Compose / Splat / ZeroValue only.
func constCtorTree(f *ir.Function, h int, depth int) bool {
	if h < 0 || h >= len(f.Expressions) || depth > 64 {
		return false
	}
	switch k := f.Expressions[h].Kind.(type) {
	case ir.Literal, ir.ExprZeroValue:
		return true
	case ir.ExprSplat:
		return constCtorTree(f, int(k.Value), depth+1)
	case ir.ExprCompose:
		for _, c := range k.Components {
			if int(c) >= h || !constCtorTree(f, int(c), depth+1) {
				return false
			}
		}
		return true
	}
	return false
}

func typeInArena(m *ir.Module, in ir.TypeInner) bool {
	for i := range m.Types {
		if irx.InnersEqual(m, m.Types[i].Inner, in) {
			return true
		}
	}
	return false
}

// matchKnown returns the tag of the known finding whose shape the issue has ("" if none).
func matchKnown(m *ir.Module, is irx.Issue) string {
	// C09-16: a module-scope constant built from nested vector constructors: the inner
	// vector type is used by nothing else, CompactTypes removes it and leaves the
	// sentinel handle 0xFFFFFFFF in the GlobalExpressions Compose.
	if is.Rule == irx.RuleHandleRange && strings.HasPrefix(is.Where, "global expression [") &&
		strings.Contains(is.Msg, "type handle 4294967295 out of range") {
		return "c09-global-expr-type-handle-dropped-by-compact-types"
	}
	kind := exprKind(is, is.Expr)
	if is.Fn != nil && is.Expr >= 0 {
		switch is.Rule {
		case irx.RuleTypingError, irx.RuleTypingMismatch, irx.RuleAbstractLiteral:
			if tag := cascadeShape(m, is); tag != "" {
				return tag
			}
		}
	}
	switch is.Rule {
	case irx.RuleTypingError:
		// C09-14 (cascade): something computed from a Splat of an abstract literal.
		if is.Fn != nil && dependsOn(is.Fn, is.Expr, 0, func(h int) bool {
			sp, ok := is.Fn.Expressions[h].Kind.(ir.ExprSplat)
			return ok && isAbstractLiteral(is.Fn, int(sp.Value))
		}) {
			return "c09-abstract-splat-not-concretized"
		}
		// C09-15: `vec2(2) + 1` is folded into a Compose whose type is the first vecN in the
		// arena (vec2<f32>) although its literal components are i32.
		if is.Fn != nil && dependsOn(is.Fn, is.Expr, 0, func(h int) bool { return literalComposeOfOtherScalar(m, is.Fn, h) }) {
			return "c09-folded-abstract-vector-picks-first-vecn-type"
		}
		// C09-7: (*p).xy on a pointer PARAMETER becomes Swizzle{Vector: FunctionArgument}
		// with no Load; the swizzle and everything computed from it cannot be typed.
		if is.Fn != nil && dependsOnPtrArgSwizzle(m, is.Fn, is.Expr, 0) {
			return "c09-swizzle-of-pointer-param-without-load"
		}
	case irx.RuleEmitPre:
		// C09-1: literals created by constant folding / zero-value expansion /
		// constant deep-copy land inside the open Emit range.
		switch kind.(type) {
		case ir.Literal, ir.ExprZeroValue:
			return "c09-folded-constant-in-emit-range"
		}
	case irx.RuleAbstractLiteral, irx.RuleTypingMismatch:
		// C09-2: `mat * 2.0` / `2 * mat` keeps the abstract literal.
		if lit, ok := kind.(ir.Literal); ok && is.Fn != nil {
			switch lit.Value.(type) {
			case ir.LiteralAbstractInt, ir.LiteralAbstractFloat:
				if operandOfMatrixMultiply(m, is.Fn, is.Expr) {
					return "c09-abstract-literal-times-matrix"
				}
			}
		}
		// C09-14: `v op= vecN(<abstract literal>)` / `vec3(x, vec2(<abstract literal>))` keep
		// the abstract literal under the Splat.
		if is.Fn != nil && abstractUnderSplat(is.Fn, is.Expr) {
			return "c09-abstract-splat-not-concretized"
		}
		if is.Rule == irx.RuleAbstractLiteral {
			return ""
		}
		// C09-5: in-place re-concretisation of a constant constructor tree
		// leaves the recorded types of its nodes stale.
		switch kind.(type) {
		case ir.Literal, ir.ExprCompose, ir.ExprSplat:
			if constCtorTree(is.Fn, is.Expr, 0) &&
				sameShapeOtherScalar(m, irx.InnerOf(m, is.Recorded), irx.InnerOf(m, is.Inferred), 0) {
				return "c09-stale-exprtype-after-concretize"
			}
		}
	case irx.RuleTypingMissing:
		if is.Inferred.IsZero() {
			return ""
		}
		// C09-4: the recorded type was a handle to a type that only
		// ExpressionTypes referred to; CompactTypes removed the type and
		// blanked the entry.
		if in := irx.InnerOf(m, is.Inferred); in != nil && is.Inferred.Handle == nil && !typeInArena(m, in) {
			return "c09-exprtype-dropped-by-compact-types"
		}
		// C09-5 + C09-4 combined: the stale handle of a re-concretised constructor was dropped.
		switch kind.(type) {
		case ir.ExprCompose, ir.ExprSplat:
			if constCtorTree(is.Fn, is.Expr, 0) {
				return "c09-stale-exprtype-after-concretize"
			}
		}
	case irx.RuleEmitUseBefore:
		// C09-6: atomicStore(p, e) appends the Store before the Emit covering e.
		if is.Fn != nil && valueOfAtomicStore(m, is.Fn, ir.Block(is.Fn.Body), is.Expr, 0) {
			return "c09-atomicstore-value-emitted-after-store"
		}
	case irx.RuleStoreType, irx.RuleReturnType, irx.RuleCallArgType:
		// C09-11: extractBits/insertBits of an abstract-int constant is typed u32, so a
		// u32 value flows where the program (correctly) expects i32.
		if is.Fn != nil && is.Value >= 0 {
			want, wok := scalarOfShape(irx.InnerOf(m, is.Recorded))
			got, gok := scalarOfShape(irx.InnerOf(m, is.Inferred))
			if wok && gok && want.Kind == ir.ScalarSint && got.Kind == ir.ScalarUint &&
				dependsOn(is.Fn, is.Value, 0, func(h int) bool { return bitsOfConstant(is.Fn, h) }) {
				return "c09-extractbits-abstract-arg-typed-u32"
			}
			// C09-12 (cascade): the value is computed from a bitcast of an abstract literal.
			if dependsOn(is.Fn, is.Value, 0, func(h int) bool {
				as, ok := is.Fn.Expressions[h].Kind.(ir.ExprAs)
				return ok && as.Convert == nil && isAbstractLiteral(is.Fn, int(as.Expr))
			}) {
				return "c09-bitcast-of-abstract-literal"
			}
		}
		// C09-3: an access into a `const` composite with nested composites (array of
		// vectors, matrix, struct) is folded as an index into the flattened scalar
		// list: a scalar Literal flows where vecN of that scalar is expected.
		if _, ok := exprKind(is, is.Value).(ir.Literal); ok {
			want, wok := irx.InnerOf(m, is.Recorded).(ir.VectorType)
			got, gok := irx.InnerOf(m, is.Inferred).(ir.ScalarType)
			if wok && gok && want.Scalar == got {
				return "c09-const-composite-access-folds-to-flat-scalar"
			}
		}
	}
	return ""
}

func isAbstractLiteral(f *ir.Function, h int) bool {
	if h < 0 || h >= len(f.Expressions) {
		return false
	}
	if lit, ok := f.Expressions[h].Kind.(ir.Literal); ok {
		switch lit.Value.(type) {
		case ir.LiteralAbstractInt, ir.LiteralAbstractFloat:
			return true
		}
	}
	return false
}

// abstractUnderSplat: h is an abstract literal used by a Splat, or a Splat of an abstract literal.
func abstractUnderSplat(f *ir.Function, h int) bool {
	if h < 0 || h >= len(f.Expressions) {
		return false
	}
	if sp, ok := f.Expressions[h].Kind.(ir.ExprSplat); ok {
		return isAbstractLiteral(f, int(sp.Value))
	}
	if !isAbstractLiteral(f, h) {
		return false
	}
	for i := h + 1; i < len(f.Expressions); i++ {
		if sp, ok := f.Expressions[i].Kind.(ir.ExprSplat); ok && int(sp.Value) == h {
			return true
		}
	}
	return false
}

func operandOfMatrixMultiply(m *ir.Module, f *ir.Function, h int) bool {
	ty := irx.NewTypifier(m, f)
	for i := h + 1; i < len(f.Expressions); i++ {
		b, ok := f.Expressions[i].Kind.(ir.ExprBinary)
		if !ok || b.Op != ir.BinaryMultiply {
			continue
		}
		other := -1
		switch {
		case int(b.Left) == h:
			other = int(b.Right)
		case int(b.Right) == h:
			other = int(b.Left)
		}
		if other < 0 {
			continue
		}
		if r, err := ty.Type(ir.ExpressionHandle(other)); err == nil {
			if _, isMat := irx.InnerOf(m, r).(ir.MatrixType); isMat {
				return true
			}
		}
	}
	return false
}

// valueOfAtomicStore: some Store through a pointer to atomic<T> has h as its
// value or pointer and is directly followed, in the same block, by the Emit covering h.
func valueOfAtomicStore(m *ir.Module, f *ir.Function, b ir.Block, h int, depth int) bool {
	if depth > 200 {
		return false
	}
	ty := irx.NewTypifier(m, f)
	for i, s := range b {
		if st, ok := s.Kind.(ir.StmtStore); ok && (int(st.Value) == h || int(st.Pointer) == h) && i+1 < len(b) {
			em, isEmit := b[i+1].Kind.(ir.StmtEmit)
			if !isEmit || int(em.Range.Start) > h || h >= int(em.Range.End) {
				continue
			}
			if r, err := ty.Type(st.Pointer); err == nil {
				if p, ok := irx.InnerOf(m, r).(ir.PointerType); ok && int(p.Base) < len(m.Types) {
					if _, isAtomic := m.Types[p.Base].Inner.(ir.AtomicType); isAtomic {
						return true
					}
				}
			}
		}
		for _, sb := range irx.SubBlocks(s.Kind) {
			if valueOfAtomicStore(m, f, sb, h, depth+1) {
				return true
			}
		}
	}
	return false
}

// literalComposeOfOtherScalar: a Compose of a vector type whose components are all
// scalar literals, as many as the vector size, of ONE scalar type different from the vector's.
func literalComposeOfOtherScalar(m *ir.Module, f *ir.Function, h int) bool {
	c, ok := f.Expressions[h].Kind.(ir.ExprCompose)
	if !ok || int(c.Type) >= len(m.Types) {
		return false
	}
	vt, ok := m.Types[c.Type].Inner.(ir.VectorType)
	if !ok || len(c.Components) != int(vt.Size) {
		return false
	}
	ty := irx.NewTypifier(m, f)
	for _, comp := range c.Components {
		if int(comp) >= h {
			return false
		}
		if _, isLit := f.Expressions[comp].Kind.(ir.Literal); !isLit {
			return false
		}
		r, err := ty.Type(comp)
		if err != nil {
			return false
		}
		sc, isScalar := irx.InnerOf(m, r).(ir.ScalarType)
		if !isScalar || sc == vt.Scalar {
			return false
		}
	}
	return true
}

func scalarOfShape(in ir.TypeInner) (ir.ScalarType, bool) {
	switch x := in.(type) {
	case ir.ScalarType:
		return x, true
	case ir.VectorType:
		return x.Scalar, true
	}
	return ir.ScalarType{}, false
}

// bitsOfConstant: extractBits / insertBits whose first argument is a literal.
func bitsOfConstant(f *ir.Function, h int) bool {
	mt, ok := f.Expressions[h].Kind.(ir.ExprMath)
	if !ok || (mt.Fun != ir.MathExtractBits && mt.Fun != ir.MathInsertBits) || int(mt.Arg) >= h {
		return false
	}
	_, isLit := f.Expressions[mt.Arg].Kind.(ir.Literal)
	return isLit
}

// cascadeShape recognises typing issues at, or computed from, the expression shapes of
// C09-8, C09-9, C09-10, C09-11 and C09-12.
func cascadeShape(m *ir.Module, is irx.Issue) string {
	f := is.Fn
	ptrArg := func(h ir.ExpressionHandle) bool {
		if int(h) >= len(f.Expressions) {
			return false
		}
		fa, ok := f.Expressions[h].Kind.(ir.ExprFunctionArgument)
		if !ok || int(fa.Index) >= len(f.Arguments) || int(f.Arguments[fa.Index].Type) >= len(m.Types) {
			return false
		}
		_, isPtr := m.Types[f.Arguments[fa.Index].Type].Inner.(ir.PointerType)
		return isPtr
	}
	tag := ""
	dependsOn(f, is.Expr, 0, func(h int) bool {
		switch k := f.Expressions[h].Kind.(type) {
		case ir.ExprMath:
			// C09-8: transpose / determinant recorded with the argument's type
			if k.Fun == ir.MathTranspose || k.Fun == ir.MathDeterminant {
				tag = "c09-math-transpose-determinant-type"
			}
			if bitsOfConstant(f, h) {
				tag = "c09-extractbits-abstract-arg-typed-u32"
			}
		case ir.ExprBinary:
			// C09-9: `*p op= e` on a pointer parameter: Binary applied to the pointer itself
			if ptrArg(k.Left) || ptrArg(k.Right) {
				tag = "c09-compound-assign-through-pointer-param"
			}
		case ir.ExprCompose:
			// C09-10: folded matrix arithmetic: a vector Compose with more literal scalars than its size
			if int(k.Type) < len(m.Types) {
				if vt, ok := m.Types[k.Type].Inner.(ir.VectorType); ok && len(k.Components) > int(vt.Size) && len(k.Components)%int(vt.Size) == 0 {
					all := true
					for _, c := range k.Components {
						if _, isLit := f.Expressions[c].Kind.(ir.Literal); !isLit {
							all = false
						}
					}
					if all {
						tag = "c09-const-matrix-arithmetic-folds-to-vector"
					}
				}
				// C09-17: vecN(<scalar>) inside a module-scope const is kept as a Compose with ONE
				// component (and deep-copied like that into functions) instead of a Splat.
				if vt, ok := m.Types[k.Type].Inner.(ir.VectorType); ok && len(k.Components) == 1 && vt.Size > 1 {
					if _, isLit := f.Expressions[k.Components[0]].Kind.(ir.Literal); isLit {
						tag = "c09-const-splat-as-single-component-compose"
					}
				}
			}
		case ir.ExprAs:
			// C09-12: bitcast of an abstract literal
			if k.Convert == nil && isAbstractLiteral(f, int(k.Expr)) {
				tag = "c09-bitcast-of-abstract-literal"
			}
		case ir.Literal:
			// C09-12: the abstract literal itself, when a bitcast uses it
			if h == is.Expr && isAbstractLiteral(f, h) {
				for i := h + 1; i < len(f.Expressions); i++ {
					if as, ok := f.Expressions[i].Kind.(ir.ExprAs); ok && as.Convert == nil && int(as.Expr) == h {
						tag = "c09-bitcast-of-abstract-literal"
					}
				}
			}
		}
		return tag != ""
	})
	return tag
}

// dependsOn: pred holds for h or for one of its transitive operands.
func dependsOn(f *ir.Function, h int, depth int, pred func(h int) bool) bool {
	if h < 0 || h >= len(f.Expressions) || depth > 64 {
		return false
	}
	if pred(h) {
		return true
	}
	for _, op := range irx.Operands(f.Expressions[h].Kind) {
		if int(op) < h && dependsOn(f, int(op), depth+1, pred) {
			return true
		}
	}
	return false
}

// dependsOnPtrArgSwizzle: h is, or is computed from, a Swizzle applied directly
// to a FunctionArgument of pointer type.
func dependsOnPtrArgSwizzle(m *ir.Module, f *ir.Function, h int, depth int) bool {
	if h < 0 || h >= len(f.Expressions) || depth > 64 {
		return false
	}
	if sw, ok := f.Expressions[h].Kind.(ir.ExprSwizzle); ok && int(sw.Vector) < len(f.Expressions) {
		if fa, ok := f.Expressions[sw.Vector].Kind.(ir.ExprFunctionArgument); ok && int(fa.Index) < len(f.Arguments) {
			th := f.Arguments[fa.Index].Type
			if int(th) < len(m.Types) {
				if _, isPtr := m.Types[th].Inner.(ir.PointerType); isPtr {
					return true
				}
			}
		}
	}
	for _, op := range irx.Operands(f.Expressions[h].Kind) {
		if int(op) < h && dependsOnPtrArgSwizzle(m, f, int(op), depth+1) {
			return true
		}
	}
	return false
}

// suppress marks the issues covered by an active known-finding tag.
func suppress(v verdict) map[int]bool {
	out := map[int]bool{}
	for i, is := range v.issues {
		if tag := matchKnown(v.module, is); tag != "" && excludedQuiet(tag) {
			out[i] = true
			ev.Class("known:" + tag)
		}
	}
	// C09-13: ir.Validate wants @group/@binding unique over the whole module; WGSL
	// only forbids two resources with one binding inside a single entry point's interface.
	// naga.Validate errors are keyed -1-i.
	const dupTag = "c09-validate-duplicate-binding-across-entry-points"
	for i, e := range v.nagaErrs {
		if strings.Contains(e, "duplicate binding @group(") && excludedQuiet(dupTag) && !bindingSharedWithinEntryPoint(v.module) {
			out[-1-i] = true
			ev.Class("known:" + dupTag)
		}
	}
	return out
}

// ---- bookkeeping shared by both sub-checks ----------------------------------------------

func record(v verdict, src string) {
	ev.Eval(ev.HashS(src), v.nontrivial)
	if v.nontrivial {
		ev.Class("nontrivial")
	}
	st := v.stats
	if st.TypifyUnsupported > 0 {
		ev.ClassN("unchecked:typify-unsupported-exprs", int64(st.TypifyUnsupported))
	}
	if st.DeadUnemitted > 0 {
		ev.ClassN("allowed:dead-unemitted-exprs", int64(st.DeadUnemitted))
	}
	if st.UnreachableReturns > 0 {
		ev.ClassN("allowed:unreachable-returns", int64(st.UnreachableReturns))
	}
	if st.AtomicStores > 0 {
		ev.ClassN("allowed:store-to-atomic", int64(st.AtomicStores))
	}
	ev.ClassN("checked:expressions", int64(st.Expressions))
	ev.ClassN("checked:stores", int64(st.StoresChecked))
	ev.ClassN("checked:calls", int64(st.CallsChecked))
	ev.ClassN("checked:emits", int64(st.Emits))
	switch {
	case st.MaxExprsInFunction >= 100:
		ev.Class("size:max-fn-exprs>=100")
	case st.MaxExprsInFunction >= 20:
		ev.Class("size:max-fn-exprs>=20")
	default:
		ev.Class("size:max-fn-exprs<20")
	}
	ev.Class("depth:" + strconv.Itoa(min(st.MaxBlockDepth, 6)))
}

// ---- sub-check 1: the corpus ----------------------------------------------------------------

func TestPropCorpus(t *testing.T) {
	ev.Rule("corpus: every /repo/snapshot/testdata/in/*.wgsl that parses and lowers, once (files are split over the shards); " +
		"non-trivial = some function has >= 20 expressions and a nested block; distinct = hash of the WGSL text")
	ev.Assume("irx.StrictValidate / irx.Typify (independent re-implementation of upstream naga's valid:: and proc::typifier rules) is the oracle")
	files, _ := filepath.Glob("/repo/snapshot/testdata/in/*.wgsl")
	sort.Strings(files)
	if len(files) == 0 {
		ev.Inconclusive("corpus not found under /repo/snapshot/testdata/in")
		return
	}
	shards, _ := strconv.Atoi(os.Getenv("VERIF_SHARDS"))
	if shards <= 0 {
		shards = 1
	}
	for i, p := range files {
		if i%shards != ev.ShardIndex()%shards {
			continue
		}
		b, err := os.ReadFile(p)
		if err != nil {
			continue
		}
		src := string(b)
		v := judgeSrc(src)
		if v.rejected != "" {
			ev.Class("corpus-rejected")
			continue
		}
		ev.Class("source:corpus")
		record(v, src)
		if ev.WantSample("corpus") {
			ev.Sample("corpus", map[string]any{"file": filepath.Base(p), "exprs": v.stats.Expressions})
		}
		ok, msg := report(v, suppress(v))
		if !ok {
			msg = filepath.Base(p) + ": " + msg
			ev.Fail(checkName, wcase{WGSL: src}, msg)
			t.Errorf("%s", msg)
		}
	}
}

// ---- sub-check 2: generated programs --------------------------------------------------------

// sources lists the program generators; adding one (e.g. verif/internal/wgen)
// is one more entry here.
var sources = []struct {
	name string
	gen  func(t *rapid.T) string
}{
	{"local", func(t *rapid.T) string {
		p := genProgram(t)
		for _, f := range p.Features {
			ev.Class("feat:" + f)
		}
		return p.Src
	}},
}

func programs(t *rapid.T) string {
	i := 0
	if len(sources) > 1 {
		i = rapid.IntRange(0, len(sources)-1).Draw(t, "source")
	}
	ev.Class("source:" + sources[i].name)
	return sources[i].gen(t)
}

func TestPropGenerated(t *testing.T) {
	ev.Rule("generated: typed rapid generator of valid WGSL modules (checks/c09/gen*_test.go): structs, arrays, matrices, " +
		"uniform/storage/private/workgroup globals, module consts, helpers with value and pointer parameters, let/var/const, " +
		"compound assignment, ++/--, if/else chains, switch, loop+continuing+break-if, for, while, break/continue, shadowing, " +
		"swizzles, constant and dynamic indexing, numeric/bit/pack/relational builtins, select, arrayLength, atomics, barriers, " +
		"vertex/fragment/compute entry points with IO structs; programs naga rejects are counted (rejected:*) and skipped")
	ev.Assume("a program rejected by naga.Parse / naga.LowerWithSource is outside C09 (acceptance is C08)")
	rapid.Check(t, func(t *rapid.T) {
		src := programs(t)
		v := judgeSrc(src)
		if v.rejected != "" {
			if hunt != nil {
				hunt.rej[v.rejected]++
				if ex, ok := hunt.rejEx[v.rejected]; !ok || len(src) < len(ex) {
					hunt.rejEx[v.rejected] = src
				}
			}
			ev.Class("rejected:" + v.rejected)
			if ev.WantSample("rejected") {
				ev.Sample("rejected", map[string]any{"reason": v.rejected, "wgsl": src})
			}
			return
		}
		record(v, src)
		if ev.WantSample("generated") && v.nontrivial {
			ev.Sample("generated", wcase{WGSL: src})
		}
		sup := suppress(v)
		if hunt != nil {
			hunt.add(v, sup, src)
			return
		}
		ok, msg := report(v, sup)
		if !ok {
			ev.Fail(checkName, wcase{WGSL: src}, msg)
			t.Fatalf("%s", msg)
		}
	})
	if hunt != nil {
		hunt.dump(t)
	}
}

// hunt mode (development aid): C09_HUNT=<dir> collects every unsuppressed
// issue by rule+kind instead of failing, and writes one example per class.
type hunter struct {
	dir    string
	counts map[string]int
	first  map[string]string
	rej    map[string]int
	rejEx  map[string]string
	n      int
}

var reNum2 = regexp.MustCompile(`#[0-9]+`)

var hunt = func() *hunter {
	if d := os.Getenv("C09_HUNT"); d != "" {
		return &hunter{dir: d, counts: map[string]int{}, first: map[string]string{}, rej: map[string]int{}, rejEx: map[string]string{}}
	}
	return nil
}()

func (h *hunter) add(v verdict, sup map[int]bool, src string) {
	h.n++
	seen := map[string]bool{}
	for i, is := range v.issues {
		if sup[i] {
			continue
		}
		key := is.Rule + "/" + fmt.Sprintf("%T", exprKind(is, is.Expr))
		switch k := exprKind(is, is.Expr).(type) {
		case ir.ExprMath:
			key += fmt.Sprintf("/fun%d", k.Fun)
		case ir.ExprBinary:
			key += fmt.Sprintf("/op%d", k.Op)
		}
		if v.module != nil && (!is.Recorded.IsZero() || !is.Inferred.IsZero()) {
			key += " rec=" + irx.TypeString(v.module, irx.InnerOf(v.module, is.Recorded)) + " inf=" + irx.TypeString(v.module, irx.InnerOf(v.module, is.Inferred))
			key = reNum2.ReplaceAllString(key, "")
		}
		if seen[key] {
			continue
		}
		seen[key] = true
		h.counts[key]++
		if _, ok := h.first[key]; !ok || len(src) < len(h.first[key]) {
			h.first[key] = "// " + is.String() + "\n" + src
		}
	}
	for _, e := range v.nagaErrs {
		key := "naga.validate/" + shortReason(e)
		if seen[key] {
			continue
		}
		seen[key] = true
		h.counts[key]++
		if _, ok := h.first[key]; !ok || len(src) < len(h.first[key]) {
			h.first[key] = "// " + e + "\n" + src
		}
	}
}

func (h *hunter) dump(t *testing.T) {
	os.MkdirAll(h.dir, 0o755)
	var keys []string
	for k := range h.counts {
		keys = append(keys, k)
	}
	sort.Strings(keys)
	fmt.Printf("HUNT: %d programs judged\n", h.n)
	var rk []string
	for k := range h.rej {
		rk = append(rk, k)
	}
	sort.Strings(rk)
	for i, k := range rk {
		name := filepath.Join(h.dir, fmt.Sprintf("rej%02d.wgsl", i))
		os.WriteFile(name, []byte("// "+k+"\n"+h.rejEx[k]), 0o644)
		fmt.Printf("HUNT-REJ %5d  %s  -> %s\n", h.rej[k], k, name)
	}
	for i, k := range keys {
		name := filepath.Join(h.dir, fmt.Sprintf("issue%02d.wgsl", i))
		os.WriteFile(name, []byte(h.first[k]), 0o644)
		fmt.Printf("HUNT %5d  %s  -> %s\n", h.counts[k], k, name)
	}
}
