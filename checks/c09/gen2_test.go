package c09

import (
	"fmt"
	"strings"

	"pgregory.net/rapid"
)

// ---- l-values ---------------------------------------------------------------------

type lvalue struct {
	s string
	t *ty
}

// lvalueOf walks randomly from a writable binding down to an assignable place.
func (g *gen) lvalueOf(b *binding) (lvalue, bool) {
	e := b.name
	if b.kind == "ptr" {
		e = "(*" + b.name + ")"
		if g.chance("derefWhole", 40) {
			return lvalue{"*" + b.name, b.t}, !(b.t.k == kStruct && b.t.sd.opaque)
		}
	}
	t := b.t
	for depth := 0; depth < 4; depth++ {
		opaque := t.k == kStruct && t.sd.opaque
		if !opaque && (t.k == kScalar || g.chance("stop", 45)) {
			return lvalue{e, t}, true
		}
		switch t.k {
		case kVec:
			return lvalue{fmt.Sprintf("%s.%c", e, swz[g.pick("comp", t.n)]), scalar(t.sc)}, true
		case kMat:
			e = fmt.Sprintf("%s[%d]", e, g.pick("col", t.c))
			t = vec(t.r, "f32")
		case kArray:
			if g.chance("dyn", 40) {
				e = fmt.Sprintf("%s[%s]", e, g.dynIndex(t.n))
			} else {
				e = fmt.Sprintf("%s[%d]", e, g.pick("idx", t.n))
			}
			t = t.elem
		case kStruct:
			var ms []member
			for _, m := range t.sd.members {
				if m.atomic == "" {
					ms = append(ms, m)
				}
			}
			if len(ms) == 0 {
				return lvalue{}, false
			}
			m := ms[g.pick("member", len(ms))]
			if m.rtArr != nil {
				e = fmt.Sprintf("%s.%s[%s]", e, m.name, g.smallIndex())
				t = m.rtArr
			} else {
				e = e + "." + m.name
				t = m.t
			}
		}
	}
	if t.k == kStruct && t.sd.opaque {
		return lvalue{}, false
	}
	return lvalue{e, t}, true
}

func (g *gen) writables() []*binding {
	var out []*binding
	for _, b := range g.visible() {
		if b.write {
			out = append(out, b)
		}
	}
	return out
}

// ---- statements -------------------------------------------------------------------

func (g *gen) exprDepth() int { return g.intn("exprDepth", 1, g.maxDepth) }

func (g *gen) poolType() *ty { return g.pool[g.pick("poolT", len(g.pool))] }

func (g *gen) localName(prefix string, nested bool) string {
	if nested && g.chance("shadow", 15) {
		var cands []string
		cur := map[string]bool{}
		for _, b := range g.scopes[len(g.scopes)-1] {
			cur[b.name] = true
		}
		for i := 0; i < len(g.scopes)-1; i++ {
			for _, b := range g.scopes[i] {
				if !cur[b.name] && !strings.HasPrefix(b.name, "i_") && b.kind != "ptr" {
					cands = append(cands, b.name)
				}
			}
		}
		if len(cands) > 0 {
			g.feat("shadowing")
			return cands[g.pick("shadowName", len(cands))]
		}
	}
	return g.fresh(prefix)
}

func (g *gen) stmtLet(nested bool) {
	t := g.poolType()
	e := g.genExpr(t, g.exprDepth())
	name := g.localName("l", nested)
	switch {
	case g.chance("typed", 40):
		if t.k == kScalar && t.sc != "bool" && g.chance("absInit", 30) {
			g.line("let %s: %s = %s;", name, t, g.scalarLit(t.sc, true))
			e.konst = true
		} else {
			g.line("let %s: %s = %s;", name, t, e.s)
		}
	default:
		g.line("let %s = %s;", name, e.s)
	}
	// naga folds constants through `let`, so constness is tracked through it
	g.declare(&binding{name: name, t: t, kind: "let", konst: e.konst})
}

func (g *gen) stmtVar(nested bool) {
	t := g.poolType()
	name := g.localName("v", nested)
	switch g.pick("varForm", 4) {
	case 0:
		g.line("var %s: %s;", name, t)
	case 1:
		g.line("var %s = %s;", name, g.genExpr(t, g.exprDepth()).s)
	case 2:
		// declared type + abstract constructor initialiser
		if t.k == kVec && t.sc != "bool" {
			parts := make([]string, t.n)
			for i := range parts {
				parts[i] = g.scalarLit(t.sc, true)
			}
			g.feat("abstract-vec-init")
			g.line("var %s: %s = vec%d(%s);", name, t, t.n, strings.Join(parts, ", "))
			break
		}
		fallthrough
	default:
		g.line("var %s: %s = %s;", name, t, g.genExpr(t, g.exprDepth()).s)
	}
	g.declare(&binding{name: name, t: t, kind: "var", space: "function", write: true, ref: true})
	if g.chance("ptrLet", 8) {
		p := g.fresh("p")
		g.line("let %s = &%s;", p, name)
		g.feat("pointer-let")
		g.declare(&binding{name: p, t: t, kind: "ptr", space: "function", write: true, ref: true})
	}
}

func (g *gen) stmtConst() {
	t := g.poolType()
	if t.k == kStruct || t.k == kArray {
		t = tI32
	}
	name := g.fresh("k")
	if g.chance("typed", 50) {
		g.line("const %s: %s = %s;", name, t, g.constValue(t, 0))
	} else {
		g.line("const %s = %s;", name, g.constValue(t, 0))
	}
	g.feat("local-const")
	g.constDecl[name] = true
	g.declare(&binding{name: name, t: t, kind: "const", konst: true})
}

func (g *gen) stmtAssign() bool {
	ws := g.writables()
	if len(ws) == 0 {
		return false
	}
	b := ws[g.pick("target", len(ws))]
	lv, ok := g.lvalueOf(b)
	if !ok {
		return false
	}
	t := lv.t
	form := g.pick("assignForm", 10)
	if (strings.HasPrefix(lv.s, "*arg") || (strings.HasPrefix(lv.s, "(*arg") && strings.HasSuffix(lv.s, ")"))) && excluded("c09-compound-assign-through-pointer-param") {
		form = 0 // C09-9: `*p op= e` / `(*p)++` on a pointer parameter omits the Load
	}
	switch {
	case form <= 4:
		rhs := g.genExpr(t, g.exprDepth()).s
		if t.k == kScalar && t.sc != "bool" && g.chance("absRhs", 20) {
			rhs = g.scalarLit(t.sc, true)
		} else if t.k == kVec && t.sc != "bool" && g.chance("absVecRhs", 10) {
			parts := make([]string, t.n)
			for i := range parts {
				parts[i] = g.scalarLit(t.sc, true)
			}
			rhs = fmt.Sprintf("vec%d(%s)", t.n, strings.Join(parts, ", "))
			g.feat("abstract-vec-assign")
		}
		g.line("%s = %s;", lv.s, rhs)
	case form <= 7 && t.numeric():
		ops := []string{"+=", "-=", "*="}
		if t.isInt() {
			ops = append(ops, "&=", "|=", "^=")
		}
		op := ops[g.pick("cop", len(ops))]
		rhs := g.genExpr(t, g.exprDepth()-1).s
		if t.k == kScalar && g.chance("absRhs", 30) {
			rhs = g.scalarLit(t.sc, true)
		}
		g.feat("compound-assign")
		g.line("%s %s %s;", lv.s, op, rhs)
	case form == 8 && t.isInt():
		if t.k == kScalar {
			g.feat("inc-dec")
			g.line("%s%s;", lv.s, []string{"++", "--"}[g.pick("incdec", 2)])
		} else {
			g.feat("compound-assign")
			g.line("%s %s vec%d<u32>(%du);", lv.s, []string{"<<=", ">>="}[g.pick("shop", 2)], t.n, g.intn("amt", 0, 7))
		}
	case form == 9 && t.numeric():
		g.feat("compound-assign")
		switch {
		case t.isFloat() && t.k == kScalar:
			g.line("%s /= %s;", lv.s, []string{"2.0", "4.0f", "0.5", "2"}[g.pick("div", 4)])
		case t.isFloat():
			g.line("%s /= %s(%s);", lv.s, t, []string{"2.0", "4.0", "0.5"}[g.pick("div", 3)])
		case t.k == kScalar:
			g.line("%s %s %d;", lv.s, []string{"/=", "%="}[g.pick("divop", 2)], g.intn("div", 1, 9))
		default:
			g.line("%s %s %s(%d);", lv.s, []string{"/=", "%="}[g.pick("divop", 2)], t, g.intn("div", 1, 9))
		}
	default:
		g.line("%s = %s;", lv.s, g.genExpr(t, g.exprDepth()).s)
	}
	return true
}

func (g *gen) stmtPhony() {
	t := g.poolType()
	g.feat("phony")
	g.line("_ = %s;", g.genExpr(t, g.exprDepth()).s)
}

func (g *gen) stmtCall() bool {
	var cands []*fnDef
	for _, h := range g.helpers {
		if g.canCall(h) {
			cands = append(cands, h)
		}
	}
	if len(cands) == 0 {
		return false
	}
	h := cands[g.pick("callee", len(cands))]
	g.feat("call-stmt")
	if h.result != nil && g.chance("bind", 50) {
		name := g.fresh("r")
		g.line("let %s = %s;", name, g.callText(h, 2))
		g.declare(&binding{name: name, t: h.result, kind: "let"})
		return true
	}
	g.line("%s;", g.callText(h, 2))
	return true
}

// terminator possibly ends a nested block with return / break / continue / discard.
func (g *gen) terminator() {
	if g.inCont {
		return
	}
	switch g.pick("term", 10) {
	case 0, 1:
		if g.fn.result != nil {
			g.feat("early-return")
			g.line("return %s;", g.genExpr(g.fn.result, 2).s)
		} else {
			g.feat("early-return")
			g.line("return;")
		}
	case 2, 3:
		if g.loop > 0 || g.inSwitch > 0 {
			g.feat("break")
			g.line("break;")
		}
	case 4:
		if g.loop > 0 {
			g.feat("continue")
			g.line("continue;")
		}
	case 5:
		if g.stage == "fragment" && g.chance("discard", 30) {
			g.feat("discard")
			g.line("discard;")
		}
	}
}

func (g *gen) nestedBlock(depth, n int, withTerm bool) {
	g.line("{")
	g.block(depth, n, withTerm)
	g.line("}")
}

// block emits the body between braces (the caller prints them).
func (g *gen) block(depth, n int, withTerm bool) {
	g.ind++
	g.push()
	g.stmts(depth, n)
	if withTerm && g.chance("terminate", 35) {
		g.terminator()
	}
	g.pop()
	g.ind--
}

func (g *gen) stmts(depth, n int) {
	for i := 0; i < n && g.budget > 0; i++ {
		g.budget--
		g.stmt(depth)
	}
}

func (g *gen) stmt(depth int) {
	nested := depth > 0
	canNest := depth < 3 && g.budget > 1
	for try := 0; try < 3; try++ {
		k := g.pick("stmtKind", 100)
		switch {
		case k < 16:
			g.stmtLet(nested)
			return
		case k < 28:
			g.stmtVar(nested)
			return
		case k < 31:
			g.stmtConst()
			return
		case k < 50:
			if g.stmtAssign() {
				return
			}
		case k < 53:
			g.stmtPhony()
			return
		case k < 59:
			if g.stmtCall() {
				return
			}
		case k < 70 && canNest:
			g.stmtIf(depth)
			return
		case k < 76 && canNest:
			g.stmtSwitch(depth)
			return
		case k < 81 && canNest && !g.inCont:
			g.stmtLoop(depth)
			return
		case k < 87 && canNest && !g.inCont:
			g.stmtFor(depth)
			return
		case k < 91 && canNest && !g.inCont:
			g.stmtWhile(depth)
			return
		case k < 95 && canNest:
			g.feat("nested-block")
			g.nestedBlock(depth+1, g.intn("blockLen", 1, 3), true)
			return
		case k < 100:
			if g.stmtAtomic() {
				return
			}
		}
	}
	g.stmtLet(nested)
}

func (g *gen) cond() string { return g.genExpr(tBool, g.intn("condDepth", 1, 2)).s }

func (g *gen) stmtIf(depth int) {
	g.feat("if")
	c := g.cond()
	if g.chance("parenCond", 40) {
		c = "(" + c + ")"
	}
	g.line("if %s {", c)
	g.block(depth+1, g.intn("ifLen", 1, 3), true)
	arms := g.intn("elseIfs", 0, 2)
	for i := 0; i < arms; i++ {
		g.feat("else-if")
		g.line("} else if %s {", g.cond())
		g.block(depth+1, g.intn("ifLen", 1, 2), true)
	}
	if g.chance("else", 55) {
		g.feat("else")
		g.line("} else {")
		g.block(depth+1, g.intn("ifLen", 1, 3), true)
	}
	g.line("}")
}

func (g *gen) stmtSwitch(depth int) {
	g.feat("switch")
	sc := []string{"i32", "u32"}[g.pick("selT", 2)]
	sel := g.genExpr(scalar(sc), g.intn("selDepth", 1, 2)).s
	g.line("switch %s {", sel)
	g.ind++
	ncases := g.intn("ncases", 0, 3)
	used := map[int]bool{}
	defaultAt := g.intn("defaultAt", 0, ncases)
	suffix := map[string]string{"i32": "i", "u32": "u"}[sc]
	g.inSwitch++
	for i := 0; i <= ncases; i++ {
		if i == defaultAt {
			if g.chance("defaultWithCase", 20) {
				v := g.intn("caseVal", 0, 20)
				if !used[v] {
					used[v] = true
					g.line("case %d%s, default: {", v, suffix)
				} else {
					g.line("default: {")
				}
			} else {
				g.line("default: {")
			}
			g.block(depth+1, g.intn("caseLen", 0, 2), true)
			g.line("}")
			continue
		}
		var vals []string
		for j := g.intn("nvals", 1, 2); j > 0; j-- {
			v := g.intn("caseVal", 0, 20)
			if used[v] {
				continue
			}
			used[v] = true
			s := fmt.Sprintf("%d%s", v, suffix)
			if g.chance("absCase", 25) {
				s = fmt.Sprint(v)
			}
			vals = append(vals, s)
		}
		if len(vals) == 0 {
			continue
		}
		g.line("case %s: {", strings.Join(vals, ", "))
		g.block(depth+1, g.intn("caseLen", 0, 2), true)
		g.line("}")
	}
	g.inSwitch--
	g.ind--
	g.line("}")
}

func (g *gen) counter() (name, sc string) {
	sc = []string{"i32", "u32"}[g.pick("ctrT", 2)]
	return g.fresh("i_"), sc
}

func (g *gen) stmtLoop(depth int) {
	g.feat("loop")
	name, sc := g.counter()
	sfx := map[string]string{"i32": "i", "u32": "u"}[sc]
	g.line("var %s = 0%s;", name, sfx)
	g.declare(&binding{name: name, t: scalar(sc), kind: "var", space: "function", ref: true})
	limit := g.intn("limit", 1, 5)
	g.line("loop {")
	g.ind++
	g.push()
	breakIf := g.chance("breakIf", 50)
	if !breakIf || g.chance("alsoIfBreak", 30) {
		g.line("if %s >= %d%s { break; }", name, limit, sfx)
	}
	g.loop++
	savedSwitch := g.inSwitch
	g.inSwitch = 0
	g.stmts(depth+1, g.intn("loopLen", 1, 3))
	g.inSwitch = savedSwitch
	g.loop--
	g.line("continuing {")
	g.ind++
	g.push()
	g.feat("continuing")
	g.inCont = true
	savedLoop := g.loop
	g.loop = 0
	g.line("%s%s;", name, []string{"++", " += 1", fmt.Sprintf(" = %s + 1%s", name, sfx)}[g.pick("incForm", 3)])
	g.stmts(depth+2, g.intn("contLen", 0, 2))
	if breakIf {
		g.feat("break-if")
		if g.chance("complexBreakIf", 40) {
			g.line("break if %s >= %d%s || %s;", name, limit, sfx, g.cond())
		} else {
			g.line("break if %s >= %d%s;", name, limit, sfx)
		}
	}
	g.loop = savedLoop
	g.inCont = false
	g.pop()
	g.ind--
	g.line("}")
	g.pop()
	g.ind--
	g.line("}")
}

func (g *gen) stmtFor(depth int) {
	g.feat("for")
	name, sc := g.counter()
	sfx := map[string]string{"i32": "i", "u32": "u"}[sc]
	init := fmt.Sprintf("var %s = 0%s", name, sfx)
	if sc == "i32" && g.chance("absInit", 40) {
		init = fmt.Sprintf("var %s = 0", name)
	}
	limit := g.intn("limit", 1, 5)
	upd := []string{name + "++", name + " += 1", fmt.Sprintf("%s = %s + 1%s", name, name, sfx)}[g.pick("updForm", 3)]
	g.push()
	switch g.pick("forForm", 5) {
	case 0:
		g.line("var %s = 0%s;", name, sfx)
		g.line("for (; %s < %d%s; %s) {", name, limit, sfx, upd)
	default:
		g.line("for (%s; %s < %d%s; %s) {", init, name, limit, sfx, upd)
	}
	g.declare(&binding{name: name, t: scalar(sc), kind: "var", space: "function", ref: true})
	g.loop++
	savedSwitch := g.inSwitch
	g.inSwitch = 0
	g.block(depth+1, g.intn("forLen", 1, 3), true)
	g.inSwitch = savedSwitch
	g.loop--
	g.line("}")
	g.pop()
}

func (g *gen) stmtWhile(depth int) {
	g.feat("while")
	name, sc := g.counter()
	sfx := map[string]string{"i32": "i", "u32": "u"}[sc]
	g.line("var %s = 0%s;", name, sfx)
	g.declare(&binding{name: name, t: scalar(sc), kind: "var", space: "function", ref: true})
	limit := g.intn("limit", 1, 5)
	c := fmt.Sprintf("%s < %d%s", name, limit, sfx)
	if g.chance("extraCond", 30) {
		c = fmt.Sprintf("%s && %s", c, paren(g.genExpr(tBool, 1)))
	}
	if g.chance("parenCond", 50) {
		c = "(" + c + ")"
	}
	g.line("while %s {", c)
	g.ind++
	g.push()
	g.line("%s++;", name)
	g.loop++
	savedSwitch := g.inSwitch
	g.inSwitch = 0
	g.stmts(depth+1, g.intn("whileLen", 1, 3))
	if g.chance("terminate", 25) {
		g.terminator()
	}
	g.inSwitch = savedSwitch
	g.loop--
	g.pop()
	g.ind--
	g.line("}")
}

// stmtAtomic emits an atomic operation on the storage buffer (any stage but
// vertex) or, at the top level of a compute entry point, on workgroup memory.
func (g *gen) stmtAtomic() bool {
	if g.bufVar == nil || !g.bufVar.write || g.stage == "vertex" || g.stage == "" {
		return false
	}
	var ms []member
	for _, m := range g.bufVar.t.sd.members {
		if m.atomic != "" {
			ms = append(ms, m)
		}
	}
	if len(ms) == 0 {
		return false
	}
	m := ms[g.pick("atomicMember", len(ms))]
	ptr := fmt.Sprintf("&%s.%s", g.bufVar.name, m.name)
	g.atomicOp(ptr, m.atomic)
	return true
}

func (g *gen) atomicOp(ptr, sc string) {
	t := scalar(sc)
	val := func() string { return g.genExpr(t, 1).s }
	g.feat("atomic")
	switch g.pick("atomicOp", 6) {
	case 0:
		g.line("atomicStore(%s, %s);", ptr, val())
	case 1:
		name := g.fresh("a")
		g.line("let %s = atomicLoad(%s);", name, ptr)
		g.declare(&binding{name: name, t: t, kind: "let"})
	case 2:
		fn := []string{"atomicAdd", "atomicSub", "atomicMax", "atomicMin", "atomicAnd", "atomicOr", "atomicXor", "atomicExchange"}[g.pick("afn", 8)]
		name := g.fresh("a")
		g.line("let %s = %s(%s, %s);", name, fn, ptr, val())
		g.declare(&binding{name: name, t: t, kind: "let"})
	case 3:
		fn := []string{"atomicAdd", "atomicMax", "atomicOr"}[g.pick("afn", 3)]
		g.line("%s(%s, %s);", fn, ptr, val())
	case 4:
		name := g.fresh("a")
		g.feat("atomic-cmpxchg")
		g.line("let %s = atomicCompareExchangeWeak(%s, %s, %s);", name, ptr, val(), val())
		if g.chance("useOld", 60) {
			n2 := g.fresh("a")
			g.line("let %s = %s.old_value;", n2, name)
			g.declare(&binding{name: n2, t: t, kind: "let"})
		}
		if g.chance("useExchanged", 60) {
			n3 := g.fresh("a")
			g.line("let %s = %s.exchanged;", n3, name)
			g.declare(&binding{name: n3, t: tBool, kind: "let"})
		}
	default:
		g.line("if atomicLoad(%s) > %s {", ptr, val())
		g.ind++
		g.line("atomicStore(%s, %s);", ptr, val())
		g.ind--
		g.line("}")
	}
}

// ---- declarations -----------------------------------------------------------------

func (g *gen) hostType(allowArr bool) *ty {
	scs := []string{"i32", "u32", "f32", "f32"}
	switch g.pick("hostT", 6) {
	case 0, 1:
		return scalar(scs[g.pick("sc", 4)])
	case 2, 3:
		return vec(g.intn("vn", 2, 4), scs[g.pick("sc", 4)])
	case 4:
		return mat(g.intn("mc", 2, 4), g.intn("mr", 2, 4))
	}
	if allowArr {
		return arr(g.hostType(false), g.intn("an", 1, 4))
	}
	return vec(4, "f32")
}

func (g *gen) genStructs() {
	n := g.intn("nStructs", 0, 2)
	for i := 0; i < n; i++ {
		sd := &structDef{name: g.fresh("S")}
		nm := g.intn("nMembers", 1, 4)
		for j := 0; j < nm; j++ {
			var t *ty
			if j > 0 && len(g.structs) > 0 && g.chance("nestedStruct", 20) {
				t = &ty{k: kStruct, sd: g.structs[g.pick("inner", len(g.structs))]}
			} else {
				t = g.hostType(true)
			}
			sd.members = append(sd.members, member{name: fmt.Sprintf("m%d", j), t: t})
		}
		g.emitStruct(sd, nil)
		g.structs = append(g.structs, sd)
		g.pool = append(g.pool, &ty{k: kStruct, sd: sd})
		g.feat("struct")
	}
}

func (g *gen) emitStruct(sd *structDef, attrs []string) {
	g.line("struct %s {", sd.name)
	for i, m := range sd.members {
		a := ""
		if attrs != nil && attrs[i] != "" {
			a = attrs[i] + " "
		}
		switch {
		case m.atomic != "":
			g.line("    %s%s: atomic<%s>,", a, m.name, m.atomic)
		case m.rtArr != nil:
			g.line("    %s%s: array<%s>,", a, m.name, m.rtArr)
		default:
			g.line("    %s%s: %s,", a, m.name, m.t)
		}
	}
	g.line("}")
}

func (g *gen) genPool() {
	g.pool = []*ty{tI32, tU32, tF32, tBool, tI32, tU32, tF32, tF32}
	scs := []string{"i32", "u32", "f32", "f32", "bool"}
	for i := g.intn("nVecTypes", 2, 5); i > 0; i-- {
		g.pool = append(g.pool, vec(g.intn("vn", 2, 4), scs[g.pick("vsc", len(scs))]))
	}
	for i := g.intn("nMatTypes", 0, 2); i > 0; i-- {
		g.pool = append(g.pool, mat(g.intn("mc", 2, 4), g.intn("mr", 2, 4)))
	}
	for i := g.intn("nArrTypes", 0, 2); i > 0; i-- {
		g.pool = append(g.pool, arr(g.hostType(false), g.intn("an", 1, 4)))
		g.feat("array")
	}
}

func (g *gen) genGlobals(hasCompute bool) {
	slot := 0
	// module constants
	for i := g.intn("nConsts", 0, 3); i > 0; i-- {
		t := g.poolType()
		if t.k == kStruct || t.k == kArray || t.k == kMat {
			t = tF32
		}
		name := g.fresh("C")
		switch {
		case t.k == kScalar && t.sc == "i32" && g.chance("abstractConst", 40):
			g.feat("abstract-module-const")
			g.line("const %s = %d;", name, g.intn("lit", 0, 9))
		case g.chance("typed", 50):
			g.line("const %s: %s = %s;", name, t, g.constValue(t, 0))
		default:
			g.line("const %s = %s;", name, g.constValue(t, 0))
		}
		g.feat("module-const")
		g.constDecl[name] = true
		g.globals = append(g.globals, &binding{name: name, t: t, kind: "global", konst: true})
	}
	// uniform
	if g.chance("uniform", 65) {
		sd := &structDef{name: g.fresh("U")}
		for j := g.intn("nUMembers", 1, 4); j > 0; j-- {
			var t *ty
			switch g.pick("uT", 5) {
			case 0:
				t = scalar([]string{"i32", "u32", "f32"}[g.pick("sc", 3)])
			case 1, 2:
				t = vec(g.intn("vn", 2, 4), []string{"i32", "u32", "f32"}[g.pick("sc", 3)])
			case 3:
				t = mat(g.intn("mc", 2, 4), []int{2, 4}[g.pick("mr", 2)])
			default:
				t = arr(vec(4, []string{"i32", "u32", "f32"}[g.pick("sc", 3)]), g.intn("an", 1, 4))
			}
			sd.members = append(sd.members, member{name: fmt.Sprintf("u%d", j), t: t})
		}
		g.emitStruct(sd, nil)
		name := g.fresh("g_u")
		g.line("@group(0) @binding(%d) var<uniform> %s: %s;", slot, name, sd.name)
		slot++
		g.feat("uniform")
		g.globals = append(g.globals, &binding{name: name, t: &ty{k: kStruct, sd: sd}, kind: "global", space: "uniform", ref: true})
	}
	// read-write storage buffer with atomics and a runtime array
	if g.chance("storage", 65) {
		sd := &structDef{name: g.fresh("B"), opaque: true}
		if g.chance("atomicU", 70) {
			sd.members = append(sd.members, member{name: "cnt", atomic: "u32"})
		}
		if g.chance("atomicI", 40) {
			sd.members = append(sd.members, member{name: "flag", atomic: "i32"})
		}
		for j := g.intn("nBMembers", 1, 3); j > 0; j-- {
			sd.members = append(sd.members, member{name: fmt.Sprintf("b%d", j), t: g.hostType(true)})
		}
		if len(g.structs) > 0 && g.chance("structMember", 40) {
			sd.members = append(sd.members, member{name: "s", t: &ty{k: kStruct, sd: g.structs[g.pick("inner", len(g.structs))]}})
		}
		if g.chance("runtimeArray", 70) {
			sd.members = append(sd.members, member{name: "data", rtArr: g.hostType(false)})
			g.feat("runtime-array")
		}
		g.emitStruct(sd, nil)
		name := g.fresh("g_b")
		g.line("@group(0) @binding(%d) var<storage, read_write> %s: %s;", slot, name, sd.name)
		slot++
		g.feat("storage-rw")
		b := &binding{name: name, t: &ty{k: kStruct, sd: sd}, kind: "global", space: "storage_rw", write: true, ref: true, shaped: true}
		g.globals = append(g.globals, b)
		g.bufVar = b
	}
	// read-only storage
	if g.chance("storageRO", 35) {
		sd := &structDef{name: g.fresh("R"), opaque: true}
		sd.members = append(sd.members, member{name: "n", t: tU32})
		sd.members = append(sd.members, member{name: "items", rtArr: g.hostType(false)})
		g.emitStruct(sd, nil)
		name := g.fresh("g_r")
		acc := "read"
		g.line("@group(1) @binding(0) var<storage, %s> %s: %s;", acc, name, sd.name)
		g.feat("storage-ro")
		g.globals = append(g.globals, &binding{name: name, t: &ty{k: kStruct, sd: sd}, kind: "global", space: "storage", ref: true, shaped: true})
	}
	// private
	for i := g.intn("nPrivate", 0, 2); i > 0; i-- {
		t := g.poolType()
		name := g.fresh("g_p")
		if g.chance("init", 50) {
			g.line("var<private> %s: %s = %s;", name, t, g.constValue(t, 0))
		} else {
			g.line("var<private> %s: %s;", name, t)
		}
		g.feat("private")
		g.globals = append(g.globals, &binding{name: name, t: t, kind: "global", space: "private", write: true, ref: true})
	}
	// workgroup (compute only)
	if hasCompute && g.chance("workgroup", 70) {
		n1 := g.fresh("g_w")
		g.line("var<workgroup> %s: array<u32, 8>;", n1)
		g.wgVars = append(g.wgVars, &binding{name: n1, t: arr(tU32, 8), kind: "global", space: "workgroup", write: true, ref: true})
		n2 := g.fresh("g_w")
		g.line("var<workgroup> %s: atomic<%s>;", n2, []string{"u32", "i32"}[g.pick("wat", 2)])
		g.wgVars = append(g.wgVars, &binding{name: n2, t: nil, kind: "global", space: "workgroup"})
		n3 := g.fresh("g_w")
		t3 := []*ty{tF32, tI32, vec(2, "f32")}[g.pick("wt", 3)]
		g.line("var<workgroup> %s: %s;", n3, t3)
		g.wgVars = append(g.wgVars, &binding{name: n3, t: t3, kind: "global", space: "workgroup", write: true, ref: true})
		g.feat("workgroup")
	}
	g.line("")
}

// ---- functions ----------------------------------------------------------------------

func (g *gen) beginFn(f *fnDef, stage string, budget int) {
	g.fn = f
	g.stage = stage
	g.budget = budget
	g.loop, g.inSwitch, g.inCont = 0, 0, false
	g.scopes = nil
	g.push() // parameters + top-level locals share the function scope
	for _, p := range f.params {
		g.declare(p)
	}
}

func (g *gen) genHelper(idx int) {
	f := &fnDef{name: g.fresh("fn_")}
	np := g.intn("nParams", 0, 3)
	havePtr := false
	for i := 0; i < np; i++ {
		t := g.poolType()
		name := fmt.Sprintf("arg%d", i)
		if !havePtr && g.chance("ptrParam", 25) {
			havePtr = true
			f.params = append(f.params, &binding{name: name, t: t, kind: "ptr", space: "function", write: true, ref: true})
			f.ptr = append(f.ptr, true)
			g.feat("pointer-param")
			continue
		}
		f.params = append(f.params, &binding{name: name, t: t, kind: "param"})
		f.ptr = append(f.ptr, false)
	}
	if g.chance("hasResult", 75) {
		f.result = g.poolType()
	}
	ps := make([]string, len(f.params))
	for i, p := range f.params {
		if f.ptr[i] {
			ps[i] = fmt.Sprintf("%s: ptr<function, %s>", p.name, p.t)
		} else {
			ps[i] = fmt.Sprintf("%s: %s", p.name, p.t)
		}
	}
	res := ""
	if f.result != nil {
		res = " -> " + f.result.String()
	}
	g.line("fn %s(%s)%s {", f.name, strings.Join(ps, ", "), res)
	g.beginFn(f, "", g.intn("helperBudget", 1, 8))
	g.ind++
	g.stmts(0, g.budget)
	if f.result != nil {
		g.line("return %s;", g.genExpr(f.result, g.exprDepth()).s)
	} else if g.chance("explicitReturn", 20) {
		g.line("return;")
	}
	g.ind--
	g.line("}")
	g.line("")
	g.helpers = append(g.helpers, f)
}

type ioField struct {
	name string
	t    *ty
	attr string
}

func (g *gen) ioStruct(prefix string, fields []ioField) *ty {
	sd := &structDef{name: g.fresh(prefix)}
	attrs := make([]string, len(fields))
	for i, f := range fields {
		sd.members = append(sd.members, member{name: f.name, t: f.t})
		attrs[i] = f.attr
	}
	g.emitStruct(sd, attrs)
	return &ty{k: kStruct, sd: sd}
}

func (g *gen) userIO(n int, flatInts bool) []ioField {
	var out []ioField
	for i := 0; i < n; i++ {
		var t *ty
		switch g.pick("ioT", 4) {
		case 0:
			t = scalar([]string{"f32", "i32", "u32"}[g.pick("sc", 3)])
		default:
			t = vec(g.intn("vn", 2, 4), []string{"f32", "f32", "i32", "u32"}[g.pick("sc", 4)])
		}
		attr := fmt.Sprintf("@location(%d)", i)
		interp := ""
		if flatInts && t.sc != "f32" {
			interp = "@interpolate(flat)"
		} else if flatInts && g.chance("interp", 30) {
			interp = []string{"@interpolate(linear)", "@interpolate(perspective, centroid)", "@interpolate(flat)", "@interpolate(linear, sample)", "@interpolate(perspective)"}[g.pick("interp", 5)]
		}
		if interp != "" {
			// the attributes of one declaration may come in any order
			if g.chance("interpFirst", 50) {
				g.feat("io-interpolate-before-location")
				attr = interp + " " + attr
			} else {
				attr += " " + interp
			}
		}
		out = append(out, ioField{fmt.Sprintf("f%d", i), t, attr})
	}
	return out
}

func (g *gen) genVertex(varying []ioField) {
	f := &fnDef{name: "vs_main"}
	var params []string
	if g.chance("vertexIndex", 70) {
		params = append(params, "@builtin(vertex_index) vi: u32")
		f.params = append(f.params, &binding{name: "vi", t: tU32, kind: "param"})
	}
	if g.chance("instanceIndex", 40) {
		params = append(params, "@builtin(instance_index) ii: u32")
		f.params = append(f.params, &binding{name: "ii", t: tU32, kind: "param"})
	}
	ins := g.userIO(g.intn("nVertexInputs", 0, 3), false)
	if len(ins) > 0 && g.chance("inputStruct", 50) {
		st := g.ioStruct("VIn", ins)
		params = append(params, "vin: "+st.String())
		f.params = append(f.params, &binding{name: "vin", t: st, kind: "param"})
		g.feat("io-struct-input")
	} else {
		for _, in := range ins {
			params = append(params, fmt.Sprintf("%s %s: %s", in.attr, in.name, in.t))
			f.params = append(f.params, &binding{name: in.name, t: in.t, kind: "param"})
		}
	}
	for range f.params {
		f.ptr = append(f.ptr, false)
	}
	outFields := append([]ioField{{"pos", vec(4, "f32"), "@builtin(position)"}}, varying...)
	if g.chance("posLast", 30) {
		outFields = append(append([]ioField{}, varying...), ioField{"pos", vec(4, "f32"), "@builtin(position)"})
	}
	if len(varying) == 0 && g.chance("barePosition", 60) {
		f.result = vec(4, "f32")
		g.line("@vertex")
		g.line("fn vs_main(%s) -> @builtin(position) vec4<f32> {", strings.Join(params, ", "))
	} else {
		f.result = g.ioStruct("VOut", outFields)
		g.feat("io-struct-output")
		g.line("@vertex")
		g.line("fn vs_main(%s) -> %s {", strings.Join(params, ", "), f.result)
	}
	g.entryBody(f, "vertex")
}

func (g *gen) genFragment(varying []ioField) {
	f := &fnDef{name: "fs_main"}
	var params []string
	if len(varying) > 0 {
		if g.chance("inputStruct", 60) {
			fields := append([]ioField{}, varying...)
			if g.chance("fragPos", 50) {
				fields = append(fields, ioField{"fragpos", vec(4, "f32"), "@builtin(position)"})
			}
			st := g.ioStruct("FIn", fields)
			params = append(params, "fin: "+st.String())
			f.params = append(f.params, &binding{name: "fin", t: st, kind: "param"})
			g.feat("io-struct-input")
		} else {
			for _, in := range varying {
				params = append(params, fmt.Sprintf("%s %s: %s", in.attr, in.name, in.t))
				f.params = append(f.params, &binding{name: in.name, t: in.t, kind: "param"})
			}
		}
	}
	if g.chance("frontFacing", 40) {
		params = append(params, "@builtin(front_facing) ff: bool")
		f.params = append(f.params, &binding{name: "ff", t: tBool, kind: "param"})
	}
	if g.chance("sampleIndex", 20) {
		params = append(params, "@builtin(sample_index) si: u32")
		f.params = append(f.params, &binding{name: "si", t: tU32, kind: "param"})
	}
	for range f.params {
		f.ptr = append(f.ptr, false)
	}
	header := ""
	switch g.pick("fragOut", 5) {
	case 4:
		// dual-source blending: two outputs share location 0 and differ by @blend_src, written in either order
		a, b := "@location(0) @blend_src(0)", "@location(0) @blend_src(1)"
		if g.chance("blendFirst", 50) {
			a, b = "@blend_src(0) @location(0)", "@blend_src(1) @location(0)"
		}
		f.result = g.ioStruct("FDual", []ioField{{"color", vec(4, "f32"), a}, {"blend", vec(4, "f32"), b}})
		g.feat("io-dual-source")
		g.needDualSource = true
		header = fmt.Sprintf("fn fs_main(%s) -> %s {", strings.Join(params, ", "), f.result)
	case 0:
		fields := []ioField{{"color", vec(4, "f32"), "@location(0)"}}
		if g.chance("depth", 60) {
			fields = append(fields, ioField{"depth", tF32, "@builtin(frag_depth)"})
		}
		if g.chance("second", 40) {
			fields = append(fields, ioField{"extra", vec(g.intn("vn", 2, 4), []string{"f32", "u32", "i32"}[g.pick("sc", 3)]), "@location(1)"})
		}
		f.result = g.ioStruct("FOut", fields)
		g.feat("io-struct-output")
		header = fmt.Sprintf("fn fs_main(%s) -> %s {", strings.Join(params, ", "), f.result)
	case 1:
		f.result = nil
		header = fmt.Sprintf("fn fs_main(%s) {", strings.Join(params, ", "))
	default:
		f.result = vec(4, "f32")
		header = fmt.Sprintf("fn fs_main(%s) -> @location(0) vec4<f32> {", strings.Join(params, ", "))
	}
	g.line("@fragment")
	g.line("%s", header)
	g.entryBody(f, "fragment")
}

func (g *gen) genCompute() {
	f := &fnDef{name: "cs_main"}
	var params []string
	add := func(attr, name string, t *ty) {
		params = append(params, fmt.Sprintf("@builtin(%s) %s: %s", attr, name, t))
		f.params = append(f.params, &binding{name: name, t: t, kind: "param"})
	}
	if g.chance("gid", 75) {
		add("global_invocation_id", "gid", vec(3, "u32"))
	}
	if g.chance("lidx", 50) {
		add("local_invocation_index", "lidx", tU32)
	}
	if g.chance("lid", 30) {
		add("local_invocation_id", "lid", vec(3, "u32"))
	}
	if g.chance("wid", 30) {
		add("workgroup_id", "wid", vec(3, "u32"))
	}
	if g.chance("nwg", 20) {
		add("num_workgroups", "nwg", vec(3, "u32"))
	}
	for range f.params {
		f.ptr = append(f.ptr, false)
	}
	dims := g.intn("wgDims", 1, 3)
	sz := make([]string, dims)
	for i := range sz {
		sz[i] = fmt.Sprint([]int{1, 2, 4, 8}[g.pick("wgSize", 4)])
	}
	g.line("@compute @workgroup_size(%s)", strings.Join(sz, ", "))
	g.line("fn cs_main(%s) {", strings.Join(params, ", "))
	g.entryBody(f, "compute")
}

func (g *gen) entryBody(f *fnDef, stage string) {
	g.beginFn(f, stage, g.intn("entryBudget", 6, 22))
	g.ind++
	if stage == "compute" && len(g.wgVars) > 0 {
		g.computePrologue()
	}
	g.stmts(0, g.budget)
	if stage == "compute" && len(g.wgVars) > 0 && g.chance("epilogueBarrier", 50) {
		g.line("workgroupBarrier();")
		g.line("%s[0] = %s;", g.wgVars[0].name, g.genExpr(tU32, 2).s)
	}
	if f.result != nil {
		if f.result.k == kStruct && g.chance("viaVar", 50) {
			name := g.fresh("out")
			g.line("var %s: %s;", name, f.result)
			for _, m := range f.result.sd.members {
				g.line("%s.%s = %s;", name, m.name, g.genExpr(m.t, g.exprDepth()).s)
			}
			g.line("return %s;", name)
		} else {
			g.line("return %s;", g.genExpr(f.result, g.exprDepth()).s)
		}
	}
	g.ind--
	g.line("}")
	g.line("")
}

// computePrologue exercises workgroup memory, barriers and workgroupUniformLoad
// at the top level of the entry point (uniform control flow).
func (g *gen) computePrologue() {
	arrV, atomV, plainV := g.wgVars[0], g.wgVars[1], g.wgVars[2]
	idx := "0u"
	for _, p := range g.fn.params {
		if p.name == "lidx" {
			idx = "lidx % 8u"
		}
	}
	g.line("%s[%s] = %s;", arrV.name, idx, g.genExpr(tU32, 2).s)
	if g.chance("wgPlainStore", 60) {
		g.line("%s = %s;", plainV.name, g.genExpr(plainV.t, 2).s)
	}
	g.feat("barrier")
	g.line("workgroupBarrier();")
	if g.chance("storageBarrier", 30) {
		g.line("storageBarrier();")
	}
	if g.chance("wgul", 50) {
		name := g.fresh("w")
		g.feat("workgroupUniformLoad")
		g.line("let %s = workgroupUniformLoad(&%s);", name, plainV.name)
		g.declare(&binding{name: name, t: plainV.t, kind: "let"})
	}
	name := g.fresh("w")
	g.line("let %s = %s[%s];", name, arrV.name, g.dynIndex(8))
	g.declare(&binding{name: name, t: tU32, kind: "let"})
	if g.chance("wgAtomic", 60) {
		// the atomic's scalar kind is in its declaration text; use add with a literal that fits both
		g.feat("atomic")
		n2 := g.fresh("w")
		g.line("let %s = atomicAdd(&%s, 1);", n2, atomV.name)
		_ = n2
	}
}

// ---- whole program ------------------------------------------------------------------

type program struct {
	Src      string
	Features []string
}

// genProgram draws one WGSL module.
func genProgram(t *rapid.T) program {
	g := &gen{t: t, features: map[string]bool{}, constDecl: map[string]bool{}}
	g.maxDepth = g.intn("maxExprDepth", 2, 4)
	stages := g.intn("stages", 0, 3) // 0: vertex+fragment, 1: compute, 2: all three, 3: fragment only
	hasCompute := stages == 1 || stages == 2
	g.genPool()
	g.genStructs()
	g.genGlobals(hasCompute)
	for i := g.intn("nHelpers", 0, 3); i > 0; i-- {
		g.genHelper(i)
	}
	if stages == 0 || stages == 2 {
		varying := g.userIO(g.intn("nVarying", 0, 3), true)
		g.genVertex(varying)
		g.genFragment(varying)
	}
	if stages == 3 {
		g.genFragment(g.userIO(g.intn("nVarying", 0, 2), true))
	}
	if hasCompute {
		g.genCompute()
	}
	var fs []string
	for f := range g.features {
		fs = append(fs, f)
	}
	sortStrings(fs)
	src := g.out.String()
	if g.needDualSource {
		src = "enable dual_source_blending;\n" + src
	}
	return program{Src: src, Features: fs}
}

func sortStrings(s []string) {
	for i := 1; i < len(s); i++ {
		for j := i; j > 0 && s[j] < s[j-1]; j-- {
			s[j], s[j-1] = s[j-1], s[j]
		}
	}
}
