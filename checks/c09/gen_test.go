package c09

// A typed generator of valid WGSL programs.  Every random decision is a rapid
// draw.  Programs are built type-directed: genExpr(t) only produces
// expressions whose WGSL type is exactly t, statements only refer to names
// that are in scope, control-flow statements respect the WGSL behaviour rules
// (break/continue only inside loops, no return inside continuing, every
// function with a result ends in a return, barriers only in uniform control
// flow at the top level of a compute entry point).
//
// Hazards that would make a program invalid through *constant evaluation*
// (division by a zero constant, i32 overflow, sqrt of a negative constant, …)
// are avoided by construction: divisors are positive literals or max(e, 1),
// integer literals are 0..9, products/shifts of two constant operands are not
// generated, domain-restricted builtins get clamped arguments.

import (
	"fmt"
	"strings"

	"pgregory.net/rapid"
)

type tkind int

const (
	kScalar tkind = iota
	kVec
	kMat
	kArray
	kStruct
)

type ty struct {
	k    tkind
	sc   string // scalar kind: "i32" "u32" "f32" "bool" (component kind for vec/mat)
	n    int    // vec size / array length
	c, r int    // matrix columns, rows
	elem *ty
	sd   *structDef
}

type structDef struct {
	name    string
	members []member
	opaque  bool // holds atomics / runtime arrays: never used as a value
}

type member struct {
	name   string
	t      *ty
	atomic string // "i32"/"u32" when the member is atomic<…>
	rtArr  *ty    // element type when the member is a runtime-sized array
}

func (t *ty) String() string {
	switch t.k {
	case kScalar:
		return t.sc
	case kVec:
		return fmt.Sprintf("vec%d<%s>", t.n, t.sc)
	case kMat:
		return fmt.Sprintf("mat%dx%d<%s>", t.c, t.r, t.sc)
	case kArray:
		return fmt.Sprintf("array<%s, %d>", t.elem, t.n)
	case kStruct:
		return t.sd.name
	}
	return "?"
}

func (t *ty) eq(o *ty) bool { return t.String() == o.String() }

func scalar(sc string) *ty        { return &ty{k: kScalar, sc: sc} }
func vec(n int, sc string) *ty    { return &ty{k: kVec, sc: sc, n: n} }
func mat(c, r int) *ty            { return &ty{k: kMat, sc: "f32", c: c, r: r} }
func arr(e *ty, n int) *ty        { return &ty{k: kArray, elem: e, n: n} }
func (t *ty) numeric() bool       { return (t.k == kScalar || t.k == kVec) && t.sc != "bool" }
func (t *ty) isInt() bool         { return (t.k == kScalar || t.k == kVec) && (t.sc == "i32" || t.sc == "u32") }
func (t *ty) isFloat() bool       { return (t.k == kScalar || t.k == kVec) && t.sc == "f32" }
func (t *ty) isBool() bool        { return (t.k == kScalar || t.k == kVec) && t.sc == "bool" }
func (t *ty) withSc(s string) *ty { c := *t; c.sc = s; return &c }

var (
	tI32  = scalar("i32")
	tU32  = scalar("u32")
	tF32  = scalar("f32")
	tBool = scalar("bool")
)

// binding is a name visible in expressions.
type binding struct {
	name   string
	t      *ty    // value type (pointee type for pointers)
	kind   string // "let" "var" "const" "param" "global" "ptr"
	space  string // for var/global/ptr: "function" "private" "uniform" "storage" "storage_rw" "workgroup"
	konst  bool   // a constant expression (module/local const)
	write  bool   // can be assigned through
	ref    bool   // memory view (var/global/ptr): dynamic indexing allowed, & can be taken
	shaped bool   // opaque struct (only member paths)
}

type fnDef struct {
	name   string
	params []*binding
	ptr    []bool // parameter i is ptr<function, T>
	result *ty
}

type gen struct {
	t              *rapid.T
	out            strings.Builder
	needDualSource bool // the module needs `enable dual_source_blending;`
	structs        []*structDef
	globals        []*binding
	helpers        []*fnDef
	scopes         [][]*binding
	nameN          int
	pool           []*ty // types that circulate
	loop           int   // nesting of loops (break/continue allowed)
	inCont         bool  // inside a continuing block
	inSwitch       int
	fn             *fnDef
	stage          string
	ind            int
	budget         int
	maxDepth       int
	features       map[string]bool
	constDecl      map[string]bool // names declared by `const` (module or local scope)
	bufVar         *binding        // the opaque storage buffer, if any
	wgVars         []*binding
}

func (g *gen) feat(s string) { g.features[s] = true }

func (g *gen) intn(label string, lo, hi int) int { return rapid.IntRange(lo, hi).Draw(g.t, label) }
func (g *gen) chance(label string, pct int) bool { return rapid.IntRange(0, 99).Draw(g.t, label) < pct }
func (g *gen) pick(label string, n int) int      { return rapid.IntRange(0, n-1).Draw(g.t, label) }

func (g *gen) fresh(prefix string) string {
	g.nameN++
	return fmt.Sprintf("%s%d", prefix, g.nameN)
}

func (g *gen) line(format string, a ...any) {
	g.out.WriteString(strings.Repeat("    ", g.ind))
	fmt.Fprintf(&g.out, format, a...)
	g.out.WriteString("\n")
}

func (g *gen) push()              { g.scopes = append(g.scopes, nil) }
func (g *gen) pop()               { g.scopes = g.scopes[:len(g.scopes)-1] }
func (g *gen) declare(b *binding) { g.scopes[len(g.scopes)-1] = append(g.scopes[len(g.scopes)-1], b) }

// visible returns the bindings in scope, innermost first, shadowed names removed.
func (g *gen) visible() []*binding {
	seen := map[string]bool{}
	var out []*binding
	for i := len(g.scopes) - 1; i >= 0; i-- {
		s := g.scopes[i]
		for j := len(s) - 1; j >= 0; j-- {
			if !seen[s[j].name] {
				seen[s[j].name] = true
				out = append(out, s[j])
			}
		}
	}
	for _, b := range g.globals {
		if !seen[b.name] && g.globalUsable(b) {
			seen[b.name] = true
			out = append(out, b)
		}
	}
	return out
}

func (g *gen) globalUsable(b *binding) bool {
	if b.space == "workgroup" {
		return false // only touched by dedicated compute statements
	}
	return true
}

// ---- literals and constructors ------------------------------------------------

func (g *gen) intLit(sc string, abstractOK bool) string {
	v := g.intn("lit", 0, 9)
	if abstractOK && g.chance("abs", 30) {
		return fmt.Sprint(v)
	}
	if sc == "i32" {
		if g.chance("neg", 15) && v > 0 {
			return fmt.Sprintf("-%di", v)
		}
		return fmt.Sprintf("%di", v)
	}
	return fmt.Sprintf("%du", v)
}

var floatLits = []string{"0.0", "0.5", "1.0", "1.5", "2.0", "0.25", "3.0", "-1.0", "-0.5", "4.0", "0.125"}

func (g *gen) floatLit(abstractOK bool) string {
	s := floatLits[g.pick("flit", len(floatLits))]
	if abstractOK && g.chance("abs", 35) {
		if g.chance("absint", 25) {
			return fmt.Sprint(g.intn("lit", 0, 4))
		}
		return s
	}
	if g.chance("fsuffix", 50) {
		return s + "f"
	}
	return "f32(" + s + ")"
}

// scalarLit is a literal of concrete scalar type sc (abstractOK: the context converts abstract literals).
func (g *gen) scalarLit(sc string, abstractOK bool) string {
	switch sc {
	case "i32", "u32":
		return g.intLit(sc, abstractOK)
	case "f32":
		return g.floatLit(abstractOK)
	}
	if g.chance("b", 50) {
		return "true"
	}
	return "false"
}

// constValue is a constant expression of type t built from literals only.
func (g *gen) constValue(t *ty, depth int) string {
	switch t.k {
	case kScalar:
		return g.scalarLit(t.sc, false)
	case kVec:
		if g.chance("zero", 10) {
			return t.String() + "()"
		}
		if g.chance("splat", 20) {
			return fmt.Sprintf("%s(%s)", t, g.scalarLit(t.sc, true))
		}
		if t.n == 4 && depth < 2 && g.chance("nestedCtor", 15) {
			h := vec(2, t.sc)
			if excluded("c09-const-splat-as-single-component-compose") {
				// C09-17: a splat (or zero value) nested in a constant constructor is mis-flattened
				full := func() string {
					return fmt.Sprintf("%s(%s, %s)", h, g.scalarLit(t.sc, true), g.scalarLit(t.sc, true))
				}
				return fmt.Sprintf("%s(%s, %s)", t, full(), full())
			}
			return fmt.Sprintf("%s(%s, %s)", t, g.constValue(h, depth+1), g.constValue(h, depth+1))
		}
		parts := make([]string, t.n)
		for i := range parts {
			parts[i] = g.scalarLit(t.sc, true)
		}
		return fmt.Sprintf("%s(%s)", t, strings.Join(parts, ", "))
	case kMat:
		if g.chance("zero", 15) {
			return t.String() + "()"
		}
		cols := make([]string, t.c)
		for i := range cols {
			cols[i] = g.constValue(vec(t.r, "f32"), depth+1)
		}
		return fmt.Sprintf("%s(%s)", t, strings.Join(cols, ", "))
	case kArray:
		if g.chance("zero", 15) {
			return t.String() + "()"
		}
		es := make([]string, t.n)
		for i := range es {
			es[i] = g.constValue(t.elem, depth+1)
		}
		return fmt.Sprintf("%s(%s)", t, strings.Join(es, ", "))
	case kStruct:
		if g.chance("zero", 15) {
			return t.String() + "()"
		}
		ms := make([]string, len(t.sd.members))
		for i, m := range t.sd.members {
			ms[i] = g.constValue(m.t, depth+1)
		}
		return fmt.Sprintf("%s(%s)", t, strings.Join(ms, ", "))
	}
	return "0"
}

// ---- access paths ---------------------------------------------------------------

type path struct {
	s     string
	konst bool
}

var swz = "xyzw"

// paths enumerates ways to read a value of type want out of expression e of type t.
func (g *gen) paths(e string, t *ty, want *ty, ref, konst bool, depth int, out *[]path) {
	if t.eq(want) && !(t.k == kStruct && t.sd.opaque) {
		*out = append(*out, path{e, konst})
	}
	if depth >= 2 {
		return
	}
	if g.constDecl[e] && t.k != kVec && !(t.k == kArray && t.elem.k == kScalar) &&
		excludedQuiet("c09-const-composite-access-folds-to-flat-scalar") {
		return // C09-3: accesses into a `const` matrix / array of composites / struct are mis-folded
	}
	switch t.k {
	case kVec:
		if want.k == kScalar && want.sc == t.sc {
			*out = append(*out, path{fmt.Sprintf("%s.%c", e, swz[g.pick("comp", t.n)]), konst})
			if ref && g.fnHas(tU32) {
				*out = append(*out, path{fmt.Sprintf("%s[%s]", e, g.dynIndex(t.n)), false})
			}
		}
		ptrArgSwz := strings.HasPrefix(e, "(*arg") && excludedQuiet("c09-swizzle-of-pointer-param-without-load")
		if want.k == kVec && want.sc == t.sc && !(want.n == t.n && depth == 0) && !ptrArgSwz {
			var sb strings.Builder
			for i := 0; i < want.n; i++ {
				sb.WriteByte(swz[g.pick("swz", t.n)])
			}
			*out = append(*out, path{e + "." + sb.String(), konst})
		}
	case kMat:
		col := vec(t.r, "f32")
		idx := fmt.Sprint(g.pick("col", t.c))
		k := konst
		if g.fnHas(tU32) && g.chance("dynmat", 40) && !excludedQuiet("c09-matrix-dynamic-column") {
			// a run-time column index, on references and on by-value matrices alike
			idx = g.dynIndex(t.c)
			k = false
		}
		g.paths(e+"["+idx+"]", col, want, ref, k, depth+1, out)
	case kArray:
		idx := fmt.Sprint(g.pick("idx", t.n))
		k := konst
		if ref && g.chance("dyn", 40) {
			idx = g.dynIndex(t.n)
			k = false
		}
		g.paths(e+"["+idx+"]", t.elem, want, ref, k, depth+1, out)
	case kStruct:
		for _, m := range t.sd.members {
			switch {
			case m.atomic != "":
			case m.rtArr != nil:
				if ref && depth < 2 {
					g.paths(fmt.Sprintf("%s.%s[%s]", e, m.name, g.smallIndex()), m.rtArr, want, ref, false, depth+1, out)
				}
			default:
				g.paths(e+"."+m.name, m.t, want, ref, konst, depth+1, out)
			}
		}
	}
}

// fnHas reports whether some u32 value is readily available (for dynamic indices).
func (g *gen) fnHas(t *ty) bool {
	for _, b := range g.visible() {
		if b.t.eq(t) && !b.shaped && b.kind != "ptr" {
			return true
		}
	}
	return false
}

// dynIndex is a u32 index expression that is in range [0,n) whatever its operand.
func (g *gen) dynIndex(n int) string {
	var cands []string
	for _, b := range g.visible() {
		if b.kind == "ptr" || b.shaped {
			continue
		}
		if b.t.eq(tU32) {
			cands = append(cands, b.name)
		} else if b.t.eq(tI32) && !b.konst {
			cands = append(cands, "u32("+b.name+")")
		}
	}
	if len(cands) == 0 {
		return fmt.Sprint(g.pick("idx", n))
	}
	c := cands[g.pick("dynidx", len(cands))]
	g.feat("dynamic-index")
	if g.chance("min", 50) {
		return fmt.Sprintf("min(%s, %du)", c, n-1)
	}
	return fmt.Sprintf("%s %% %du", c, n)
}

func (g *gen) smallIndex() string {
	if g.chance("dyn", 50) {
		return g.dynIndex(4)
	}
	return fmt.Sprint(g.pick("idx", 4))
}

// leafs returns the readable paths of type t over everything in scope.
func (g *gen) leafs(t *ty) []path {
	var out []path
	for _, b := range g.visible() {
		e := b.name
		if b.kind == "ptr" {
			e = "(*" + b.name + ")"
		}
		g.paths(e, b.t, t, b.ref, b.konst, 0, &out)
	}
	return out
}

// ---- expressions ----------------------------------------------------------------

type expr struct {
	s     string
	konst bool
}

// genExpr produces an expression of type t.  Its konst flag is recomputed from
// the text: "possibly constant" = mentions no runtime binding and no user
// function (naga folds builtins, conversions and lets of constants).
func (g *gen) genExpr(t *ty, d int) expr {
	e := g.genExpr0(t, d)
	e.konst = g.possiblyConst(e.s)
	return e
}

func isIdentByte(c byte) bool {
	return c == '_' || (c >= 'a' && c <= 'z') || (c >= 'A' && c <= 'Z') || (c >= '0' && c <= '9')
}

func (g *gen) possiblyConst(s string) bool {
	var names map[string]*binding
	for i := 0; i < len(s); {
		c := s[i]
		if !(c == '_' || (c >= 'a' && c <= 'z') || (c >= 'A' && c <= 'Z')) {
			if c >= '0' && c <= '9' { // skip a numeric literal with its suffix
				for i < len(s) && (isIdentByte(s[i]) || s[i] == '.') {
					i++
				}
				continue
			}
			i++
			continue
		}
		j := i
		for j < len(s) && isIdentByte(s[j]) {
			j++
		}
		id := s[i:j]
		prevDot := i > 0 && s[i-1] == '.'
		i = j
		if prevDot {
			continue // member / swizzle
		}
		if strings.HasPrefix(id, "fn_") {
			return false
		}
		if names == nil {
			names = map[string]*binding{}
			for _, b := range g.visible() {
				names[b.name] = b
			}
			for _, b := range g.wgVars {
				names[b.name] = b
			}
		}
		if b, ok := names[id]; ok && !b.konst {
			return false
		}
	}
	return true
}

func (g *gen) genExpr0(t *ty, d int) expr {
	if d <= 0 {
		return g.leaf(t)
	}
	switch t.k {
	case kScalar:
		switch t.sc {
		case "bool":
			return g.boolExpr(d)
		default:
			return g.numExpr(t, d)
		}
	case kVec:
		if t.sc == "bool" {
			return g.bvecExpr(t, d)
		}
		return g.numExpr(t, d)
	case kMat:
		return g.matExpr(t, d)
	}
	return g.compositeExpr(t, d)
}

func (g *gen) leaf(t *ty) expr {
	ls := g.leafs(t)
	if len(ls) > 0 && g.chance("useVar", 75) {
		p := ls[g.pick("leaf", len(ls))]
		return expr{p.s, p.konst}
	}
	return expr{g.constValue(t, 0), true}
}

func paren(e expr) string { return "(" + e.s + ")" }

// operand generates an operand of type t for a binary operator whose other
// side is concrete; an abstract literal may be used when allowed.
func (g *gen) operand(t *ty, d int, abstractOK bool) expr {
	if abstractOK && t.k == kScalar && t.sc != "bool" && g.chance("absOperand", 20) {
		g.feat("abstract-operand")
		return expr{g.scalarLit(t.sc, true), true}
	}
	e := g.genExpr(t, d)
	return expr{paren(e), e.konst}
}

func (g *gen) callHelper(t *ty, d int) (expr, bool) {
	var cands []*fnDef
	for _, h := range g.helpers {
		if h.result != nil && h.result.eq(t) && g.canCall(h) {
			cands = append(cands, h)
		}
	}
	if len(cands) == 0 {
		return expr{}, false
	}
	h := cands[g.pick("helper", len(cands))]
	g.feat("call-in-expr")
	return expr{g.callText(h, d), false}, true
}

// canCall: pointer parameters need a local var of the pointee type.
func (g *gen) canCall(h *fnDef) bool {
	for i, p := range h.params {
		if h.ptr[i] && len(g.localVars(p.t)) == 0 {
			return false
		}
	}
	return true
}

func (g *gen) localVars(t *ty) []*binding {
	var out []*binding
	for _, b := range g.visible() {
		if b.kind == "var" && b.space == "function" && b.t.eq(t) {
			out = append(out, b)
		}
	}
	return out
}

func (g *gen) callText(h *fnDef, d int) string {
	args := make([]string, len(h.params))
	for i, p := range h.params {
		if h.ptr[i] {
			vs := g.localVars(p.t)
			args[i] = "&" + vs[g.pick("ptrarg", len(vs))].name
			g.feat("pointer-arg")
			continue
		}
		if p.t.k == kScalar && p.t.sc != "bool" && g.chance("absArg", 15) {
			args[i] = g.scalarLit(p.t.sc, true)
			continue
		}
		args[i] = g.genExpr(p.t, d-1).s
	}
	return fmt.Sprintf("%s(%s)", h.name, strings.Join(args, ", "))
}

func (g *gen) numExpr(t *ty, d int) expr {
	isVec := t.k == kVec
	sc := t.sc
	scT := scalar(sc)
	for try := 0; try < 4; try++ {
		switch g.pick("numProd", 14) {
		case 0, 1:
			return g.leaf(t)
		case 2, 3, 4: // arithmetic
			ops := []string{"+", "-", "*"}
			l := g.operand(t, d-1, false)
			var r expr
			if isVec && g.chance("vecScalar", 30) {
				r = g.operand(scT, d-1, true) // vec op scalar
				g.feat("vec-scalar-arith")
			} else {
				r = g.operand(t, d-1, !isVec)
			}
			op := ops[g.pick("op", len(ops))]
			if l.konst && r.konst && op == "*" {
				op = "+"
			}
			if g.chance("swap", 30) && !(l.konst && r.konst) {
				l, r = r, l
				if op == "-" && isVec {
					op = "+"
				}
			}
			return expr{l.s + " " + op + " " + r.s, l.konst && r.konst}
		case 5: // division / modulo with a safe divisor
			l := g.operand(t, d-1, false)
			op := "/"
			if g.chance("mod", 40) {
				op = "%"
			}
			var r string
			switch {
			case isVec && sc == "f32":
				r = fmt.Sprintf("%s(%s)", t, []string{"2.0", "4.0", "0.5", "1.5"}[g.pick("div", 4)])
			case isVec:
				r = fmt.Sprintf("%s(%d)", t, g.intn("div", 1, 9))
			case sc == "f32":
				r = []string{"2.0", "4.0", "0.5f", "1.5f", "3"}[g.pick("div", 5)]
			case sc == "i32":
				if g.chance("maxdiv", 30) {
					r = "max(" + g.genExpr(t, d-2).s + ", 1i)"
				} else {
					r = fmt.Sprintf("%d", g.intn("div", 1, 9))
				}
			default:
				if g.chance("maxdiv", 30) {
					r = "max(" + g.genExpr(t, d-2).s + ", 1u)"
				} else {
					r = fmt.Sprintf("%du", g.intn("div", 1, 9))
				}
			}
			g.feat("div-mod")
			return expr{l.s + " " + op + " " + r, false}
		case 6: // unary
			if sc == "u32" {
				e := g.operand(t, d-1, false)
				return expr{"~" + e.s, e.konst}
			}
			e := g.operand(t, d-1, false)
			if sc == "i32" && g.chance("not", 40) {
				return expr{"~" + e.s, e.konst}
			}
			return expr{"-" + e.s, e.konst}
		case 7: // bitwise / shifts
			if sc == "f32" {
				continue
			}
			if g.chance("shift", 40) {
				l := g.operand(t, d-1, false)
				op := []string{"<<", ">>"}[g.pick("sh", 2)]
				amt := fmt.Sprintf("%du", g.intn("amt", 0, 7))
				if !isVec && g.chance("dynamt", 30) {
					amt = "(" + g.genExpr(tU32, d-2).s + " & 7u)"
				}
				if isVec {
					amt = fmt.Sprintf("vec%d<u32>(%s)", t.n, amt)
				}
				if l.konst {
					op = ">>"
				}
				g.feat("shift")
				return expr{l.s + " " + op + " " + amt, false}
			}
			l := g.operand(t, d-1, false)
			r := g.operand(t, d-1, !isVec)
			op := []string{"&", "|", "^"}[g.pick("bop", 3)]
			return expr{l.s + " " + op + " " + r.s, l.konst && r.konst}
		case 8: // builtin
			if e, ok := g.numBuiltin(t, d); ok {
				return e
			}
		case 9: // select
			a := g.genExpr(t, d-1)
			b := g.genExpr(t, d-1)
			var c expr
			if isVec && g.chance("vcond", 40) {
				c = g.genExpr(vec(t.n, "bool"), d-1)
			} else {
				c = g.genExpr(tBool, d-1)
			}
			g.feat("select")
			return expr{fmt.Sprintf("select(%s, %s, %s)", a.s, b.s, c.s), false}
		case 10: // conversion
			from := []string{"i32", "u32", "f32"}[g.pick("from", 3)]
			if from == sc {
				continue
			}
			src := g.genExpr(t.withSc(from), d-1)
			if g.chance("bitcast", 30) && !src.konst {
				g.feat("bitcast")
				return expr{fmt.Sprintf("bitcast<%s>(%s)", t, src.s), false}
			}
			g.feat("convert")
			return expr{fmt.Sprintf("%s(%s)", t, src.s), false}
		case 11: // user function
			if e, ok := g.callHelper(t, d); ok {
				return e
			}
		case 12: // constructor from parts (vectors)
			if !isVec {
				continue
			}
			return g.vecCtor(t, d)
		case 13: // reductions to scalar
			if isVec {
				continue
			}
			if e, ok := g.reduce(t, d); ok {
				return e
			}
		}
	}
	return g.leaf(t)
}

func (g *gen) vecCtor(t *ty, d int) expr {
	scT := scalar(t.sc)
	g.feat("vec-ctor")
	name := t.String()
	if g.chance("infer", 25) {
		name = fmt.Sprintf("vec%d", t.n)
	} else if g.chance("alias", 25) {
		name = fmt.Sprintf("vec%d%s", t.n, map[string]string{"i32": "i", "u32": "u", "f32": "f", "bool": "<bool>"}[t.sc])
	}
	inferred := !strings.Contains(name, "<") && !strings.HasSuffix(name, "i") && !strings.HasSuffix(name, "u") && !strings.HasSuffix(name, "f")
	switch {
	case g.chance("splat", 20):
		arg := g.genExpr(scT, d-1)
		if inferred && arg.konst && excluded("c09-folded-abstract-vector-picks-first-vecn-type") {
			name = t.String() // C09-15: an abstract splat folded with an abstract operand gets the wrong vector type
		}
		return expr{fmt.Sprintf("%s(%s)", name, arg.s), false}
	case t.n >= 3 && g.chance("mixed", 35):
		// vecN(vec2, scalars…) or vec4(vec2, vec2) / vecN(vecN-1, s)
		k := g.intn("first", 2, t.n-1)
		parts := []string{g.genExpr(vec(k, t.sc), d-1).s}
		rest := t.n - k
		if rest >= 2 && g.chance("second", 50) {
			parts = append(parts, g.genExpr(vec(rest, t.sc), d-1).s)
		} else {
			for i := 0; i < rest; i++ {
				parts = append(parts, g.genExpr(scT, d-1).s)
			}
		}
		if g.chance("swapParts", 30) && len(parts) == 2 {
			parts[0], parts[1] = parts[1], parts[0]
		}
		return expr{fmt.Sprintf("%s(%s)", name, strings.Join(parts, ", ")), false}
	}
	parts := make([]string, t.n)
	for i := range parts {
		if !inferred && t.sc != "bool" && g.chance("absPart", 20) {
			parts[i] = g.scalarLit(t.sc, true)
		} else {
			parts[i] = g.genExpr(scT, d-1).s
		}
	}
	return expr{fmt.Sprintf("%s(%s)", name, strings.Join(parts, ", ")), false}
}

// reduce produces a scalar out of vectors / matrices.
func (g *gen) reduce(t *ty, d int) (expr, bool) {
	n := g.intn("rn", 2, 4)
	switch t.sc {
	case "f32":
		switch g.pick("fred", 5) {
		case 0:
			g.feat("dot")
			return expr{fmt.Sprintf("dot(%s, %s)", g.genExpr(vec(n, "f32"), d-1).s, g.genExpr(vec(n, "f32"), d-1).s), false}, true
		case 1:
			g.feat("length")
			return expr{fmt.Sprintf("length(%s)", g.genExpr(vec(n, "f32"), d-1).s), false}, true
		case 2:
			g.feat("distance")
			return expr{fmt.Sprintf("distance(%s, %s)", g.genExpr(vec(n, "f32"), d-1).s, g.genExpr(vec(n, "f32"), d-1).s), false}, true
		case 3:
			if excluded("c09-math-transpose-determinant-type") {
				return expr{}, false
			}
			g.feat("determinant")
			return expr{fmt.Sprintf("determinant(%s)", g.genExpr(mat(n, n), d-1).s), false}, true
		case 4:
			fn := []string{"unpack2x16float", "unpack2x16snorm", "unpack2x16unorm"}[g.pick("unp", 3)]
			g.feat("unpack")
			return expr{fmt.Sprintf("%s(%s).%c", fn, g.genExpr(tU32, d-1).s, "xy"[g.pick("c", 2)]), false}, true
		}
	case "i32":
		if g.chance("dot4", 30) {
			g.feat("dot4packed")
			return expr{fmt.Sprintf("dot4I8Packed(%s, %s)", g.genExpr(tU32, d-1).s, g.genExpr(tU32, d-1).s), false}, true
		}
		g.feat("dot")
		return expr{fmt.Sprintf("dot(%s, %s)", g.genExpr(vec(n, "i32"), d-1).s, g.genExpr(vec(n, "i32"), d-1).s), false}, true
	case "u32":
		switch g.pick("ured", 4) {
		case 0:
			fn := []string{"pack4x8snorm", "pack4x8unorm"}[g.pick("pk", 2)]
			g.feat("pack")
			return expr{fmt.Sprintf("%s(%s)", fn, g.genExpr(vec(4, "f32"), d-1).s), false}, true
		case 1:
			fn := []string{"pack2x16snorm", "pack2x16unorm", "pack2x16float"}[g.pick("pk", 3)]
			g.feat("pack")
			return expr{fmt.Sprintf("%s(%s)", fn, g.genExpr(vec(2, "f32"), d-1).s), false}, true
		case 2:
			if g.bufVar != nil {
				for _, m := range g.bufVar.t.sd.members {
					if m.rtArr != nil {
						g.feat("arrayLength")
						return expr{fmt.Sprintf("arrayLength(&%s.%s)", g.bufVar.name, m.name), false}, true
					}
				}
			}
			fallthrough
		default:
			if g.chance("pack4x", 50) {
				g.feat("pack")
				return expr{fmt.Sprintf("pack4xU8(%s)", g.genExpr(vec(4, "u32"), d-1).s), false}, true
			}
			g.feat("dot")
			return expr{fmt.Sprintf("dot(%s, %s)", g.genExpr(vec(n, "u32"), d-1).s, g.genExpr(vec(n, "u32"), d-1).s), false}, true
		}
	}
	return expr{}, false
}

func (g *gen) numBuiltin(t *ty, d int) (expr, bool) {
	a := func() string { return g.genExpr(t, d-1).s }
	call := func(fn string, args ...string) (expr, bool) {
		g.feat("builtin:" + fn)
		return expr{fmt.Sprintf("%s(%s)", fn, strings.Join(args, ", ")), false}, true
	}
	lit := func(s string) string {
		if t.k == kVec {
			return fmt.Sprintf("%s(%s)", t, s)
		}
		return s
	}
	switch t.sc {
	case "f32":
		switch g.pick("fb", 17) {
		case 0:
			return call([]string{"abs", "sign", "floor", "ceil", "round", "trunc", "fract", "saturate"}[g.pick("f1", 8)], a())
		case 1:
			return call([]string{"sin", "cos", "tanh", "atan", "sinh", "cosh", "degrees", "radians"}[g.pick("f1", 8)], fmt.Sprintf("clamp(%s, %s, %s)", a(), lit("-2.0"), lit("2.0")))
		case 2:
			return call([]string{"sqrt", "inverseSqrt", "log", "log2"}[g.pick("f1", 4)], fmt.Sprintf("(abs(%s) + %s)", a(), lit("1.0")))
		case 3:
			return call([]string{"exp", "exp2"}[g.pick("f1", 2)], fmt.Sprintf("clamp(%s, %s, %s)", a(), lit("-4.0"), lit("4.0")))
		case 4:
			return call([]string{"min", "max", "step", "atan2"}[g.pick("f2", 4)], a(), a())
		case 5:
			return call("clamp", a(), lit("-1.0"), lit("3.0"))
		case 6:
			if t.k == kVec && g.chance("mixs", 40) {
				return call("mix", a(), a(), g.genExpr(tF32, d-1).s)
			}
			return call("mix", a(), a(), a())
		case 7:
			return call("fma", a(), a(), a())
		case 8:
			return call("smoothstep", lit("0.0"), lit("1.0"), a())
		case 9:
			return call([]string{"acos", "asin"}[g.pick("f1", 2)], fmt.Sprintf("clamp(%s, %s, %s)", a(), lit("-1.0"), lit("1.0")))
		case 10:
			return call("pow", fmt.Sprintf("(abs(%s) + %s)", a(), lit("0.5")), fmt.Sprintf("clamp(%s, %s, %s)", a(), lit("-2.0"), lit("2.0")))
		case 11:
			if t.k != kVec {
				return call("quantizeToF16", fmt.Sprintf("clamp(%s, -100.0, 100.0)", a()))
			}
			return call("normalize", fmt.Sprintf("(abs(%s) + %s)", a(), lit("1.0")))
		case 12:
			if t.k == kVec && t.n == 3 {
				return call("cross", a(), a())
			}
			if t.k == kVec {
				switch g.pick("geo", 3) {
				case 0:
					return call("reflect", a(), a())
				case 1:
					return call("faceForward", a(), a(), a())
				}
				return call("refract", a(), a(), g.genExpr(tF32, d-1).s)
			}
			return call("ldexp", a(), fmt.Sprintf("clamp(%s, -4, 4)", g.genExpr(tI32, d-1).s))
		case 13:
			g.feat("modf-frexp")
			if g.chance("frexp", 50) {
				return expr{fmt.Sprintf("frexp(%s).fract", a()), false}, true
			}
			return expr{fmt.Sprintf("modf(%s).%s", a(), []string{"fract", "whole"}[g.pick("mf", 2)]), false}, true
		case 14:
			if t.k == kVec && t.n == 4 {
				g.feat("unpack")
				return call([]string{"unpack4x8snorm", "unpack4x8unorm"}[g.pick("u", 2)], g.genExpr(tU32, d-1).s)
			}
			if t.k == kVec && t.n == 2 {
				g.feat("unpack")
				return call([]string{"unpack2x16snorm", "unpack2x16unorm", "unpack2x16float"}[g.pick("u", 3)], g.genExpr(tU32, d-1).s)
			}
			return call("abs", a())
		case 15: // matrix * vector
			if t.k == kVec {
				g.feat("mat-vec-mul")
				c := g.intn("mc", 2, 4)
				if g.chance("vm", 40) {
					return expr{fmt.Sprintf("%s * %s", paren(g.genExpr(vec(c, "f32"), d-1)), paren(g.genExpr(mat(t.n, c), d-1))), false}, true
				}
				return expr{fmt.Sprintf("%s * %s", paren(g.genExpr(mat(c, t.n), d-1)), paren(g.genExpr(vec(c, "f32"), d-1))), false}, true
			}
			return call("tan", fmt.Sprintf("clamp(%s, -1.0, 1.0)", a()))
		default:
			return expr{}, false
		}
	case "i32", "u32":
		switch g.pick("ib", 8) {
		case 0:
			if t.sc == "i32" {
				return call([]string{"abs", "sign"}[g.pick("i1", 2)], a())
			}
			return call("countOneBits", a())
		case 1:
			return call([]string{"min", "max"}[g.pick("i2", 2)], a(), a())
		case 2:
			lo, hi := "1", "7"
			if t.sc == "u32" {
				lo, hi = "1u", "7u"
			}
			return call("clamp", a(), lit(lo), lit(hi))
		case 3:
			return call([]string{"countOneBits", "countLeadingZeros", "countTrailingZeros", "reverseBits", "firstLeadingBit", "firstTrailingBit"}[g.pick("i1", 6)], a())
		case 4:
			return call("extractBits", g.concreteArg(t, a()), fmt.Sprintf("%du", g.intn("off", 0, 8)), fmt.Sprintf("%du", g.intn("cnt", 1, 8)))
		case 5:
			return call("insertBits", g.concreteArg(t, a()), g.concreteArg(t, a()), fmt.Sprintf("%du", g.intn("off", 0, 8)), fmt.Sprintf("%du", g.intn("cnt", 1, 8)))
		case 6:
			if t.k == kVec && t.n == 4 {
				g.feat("unpack")
				if t.sc == "i32" {
					return call("unpack4xI8", g.genExpr(tU32, d-1).s)
				}
				return call("unpack4xU8", g.genExpr(tU32, d-1).s)
			}
			return call("max", a(), a())
		default:
			return call("min", a(), a())
		}
	}
	return expr{}, false
}

// concreteArg wraps a possibly abstract i32 argument in an explicit conversion
// while C09-11 is open (extractBits/insertBits type an abstract-int first
// argument as u32, taken from the offset/count parameters).
func (g *gen) concreteArg(t *ty, s string) string {
	if t.sc == "i32" && g.possiblyConst(s) && excluded("c09-extractbits-abstract-arg-typed-u32") {
		return fmt.Sprintf("%s(%s)", t, s)
	}
	return s
}

func (g *gen) boolExpr(d int) expr {
	for try := 0; try < 4; try++ {
		switch g.pick("boolProd", 8) {
		case 0:
			return g.leaf(tBool)
		case 1, 2, 3: // comparison
			sc := []string{"i32", "u32", "f32"}[g.pick("cmpT", 3)]
			t := scalar(sc)
			l := g.operand(t, d-1, false)
			r := g.operand(t, d-1, true)
			op := []string{"<", "<=", ">", ">=", "==", "!="}[g.pick("cmp", 6)]
			if g.chance("swap", 30) && !(l.konst && r.konst) {
				l, r = r, l
			}
			return expr{l.s + " " + op + " " + r.s, l.konst && r.konst}
		case 4:
			l := g.operand(tBool, d-1, false)
			r := g.operand(tBool, d-1, false)
			op := []string{"&&", "||", "&", "|", "==", "!="}[g.pick("lop", 6)]
			if op == "&&" || op == "||" {
				g.feat("short-circuit")
			}
			return expr{l.s + " " + op + " " + r.s, l.konst && r.konst}
		case 5:
			e := g.operand(tBool, d-1, false)
			return expr{"!" + e.s, e.konst}
		case 6:
			n := g.intn("bn", 2, 4)
			g.feat("all-any")
			return expr{fmt.Sprintf("%s(%s)", []string{"all", "any"}[g.pick("aa", 2)], g.genExpr(vec(n, "bool"), d-1).s), false}
		case 7:
			if e, ok := g.callHelper(tBool, d); ok {
				return e
			}
			g.feat("select")
			return expr{fmt.Sprintf("select(%s, %s, %s)", g.genExpr(tBool, d-1).s, g.genExpr(tBool, d-1).s, g.genExpr(tBool, d-1).s), false}
		}
	}
	return g.leaf(tBool)
}

func (g *gen) bvecExpr(t *ty, d int) expr {
	switch g.pick("bvProd", 6) {
	case 0:
		return g.leaf(t)
	case 1, 2:
		sc := []string{"i32", "u32", "f32"}[g.pick("cmpT", 3)]
		vt := vec(t.n, sc)
		op := []string{"<", "<=", ">", ">=", "==", "!="}[g.pick("cmp", 6)]
		g.feat("vec-compare")
		return expr{paren(g.genExpr(vt, d-1)) + " " + op + " " + paren(g.genExpr(vt, d-1)), false}
	case 3:
		return expr{"!" + paren(g.genExpr(t, d-1)), false}
	case 4:
		op := []string{"&", "|"}[g.pick("bvop", 2)]
		return expr{paren(g.genExpr(t, d-1)) + " " + op + " " + paren(g.genExpr(t, d-1)), false}
	}
	parts := make([]string, t.n)
	for i := range parts {
		parts[i] = g.genExpr(tBool, d-1).s
	}
	return expr{fmt.Sprintf("%s(%s)", t, strings.Join(parts, ", ")), false}
}

func (g *gen) matExpr(t *ty, d int) expr {
	// C09-10: arithmetic over constant matrices is folded into a mistyped Compose.
	noConstArith := excludedQuiet("c09-const-matrix-arithmetic-folds-to-vector")
	switch g.pick("matProd", 8) {
	case 0, 1:
		return g.leaf(t)
	case 2:
		op := []string{"+", "-"}[g.pick("mop", 2)]
		l, r := g.genExpr(t, d-1), g.genExpr(t, d-1)
		if l.konst && r.konst && noConstArith {
			return l
		}
		return expr{paren(l) + " " + op + " " + paren(r), l.konst && r.konst}
	case 3:
		g.feat("mat-scalar-mul")
		s := g.operand(tF32, d-1, !excluded("c09-abstract-literal-times-matrix"))
		m := g.genExpr(t, d-1)
		if s.konst && m.konst && noConstArith {
			return m
		}
		if g.chance("swap", 50) {
			return expr{s.s + " * " + paren(m), s.konst && m.konst}
		}
		return expr{paren(m) + " * " + s.s, s.konst && m.konst}
	case 4:
		k := g.intn("inner", 2, 4)
		g.feat("mat-mat-mul")
		l, r := g.genExpr(mat(k, t.r), d-1), g.genExpr(mat(t.c, k), d-1)
		if l.konst && r.konst && noConstArith {
			return g.leaf(t)
		}
		return expr{paren(l) + " * " + paren(r), l.konst && r.konst}
	case 5:
		if t.c != t.r && excluded("c09-math-transpose-determinant-type") {
			return g.leaf(t)
		}
		g.feat("transpose")
		e := g.genExpr(mat(t.r, t.c), d-1)
		return expr{fmt.Sprintf("transpose(%s)", e.s), e.konst}
	case 6:
		cols := make([]string, t.c)
		k := true
		for i := range cols {
			e := g.genExpr(vec(t.r, "f32"), d-1)
			cols[i] = e.s
			k = k && e.konst
		}
		g.feat("mat-ctor")
		return expr{fmt.Sprintf("%s(%s)", t, strings.Join(cols, ", ")), k}
	}
	es := make([]string, t.c*t.r)
	k := true
	for i := range es {
		e := g.genExpr(tF32, d-1)
		es[i] = e.s
		k = k && e.konst
	}
	g.feat("mat-ctor")
	return expr{fmt.Sprintf("mat%dx%d<f32>(%s)", t.c, t.r, strings.Join(es, ", ")), k}
}

func (g *gen) compositeExpr(t *ty, d int) expr {
	if g.chance("leaf", 40) {
		return g.leaf(t)
	}
	if e, ok := g.callHelper(t, d); ok && g.chance("call", 50) {
		return e
	}
	switch t.k {
	case kArray:
		es := make([]string, t.n)
		for i := range es {
			es[i] = g.genExpr(t.elem, d-1).s
		}
		name := t.String()
		if g.chance("infer", 20) {
			name = "array"
		}
		g.feat("array-ctor")
		return expr{fmt.Sprintf("%s(%s)", name, strings.Join(es, ", ")), false}
	case kStruct:
		ms := make([]string, len(t.sd.members))
		for i, m := range t.sd.members {
			ms[i] = g.genExpr(m.t, d-1).s
		}
		g.feat("struct-ctor")
		return expr{fmt.Sprintf("%s(%s)", t, strings.Join(ms, ", ")), false}
	}
	return g.leaf(t)
}
