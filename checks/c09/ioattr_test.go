//go:build verif

package c09

import (
	"fmt"
	"regexp"
	"strconv"
	"strings"

	"github.com/gogpu/naga/ir"

	"verif/internal/irx"
)

// Source-level oracle for user IO attributes: whatever order the attributes of a struct member, a
// parameter or a function result are written in, the lowered binding must carry exactly the
// @location, @interpolate and @blend_src the source states.  The source side is a small scanner of its
// own (attribute runs in front of `name :` or after `->`), independent of naga's parser.

type srcIO struct {
	owner, name string // struct or function name; name "" for a function result
	loc         int
	interp      string // "", "flat", "linear", "perspective"
	sampling    string // "", "center", "centroid", "sample", "first", "either"
	blend       int    // -1: none
}

var (
	reOwner   = regexp.MustCompile(`\b(struct|fn)\s+([A-Za-z_][A-Za-z0-9_]*)`)
	reAttrRun = regexp.MustCompile(`((?:@[a-z_]+\s*(?:\([^()]*\))?\s*)+)([A-Za-z_][A-Za-z0-9_]*)\s*:`)
	reResult  = regexp.MustCompile(`->\s*((?:@[a-z_]+\s*(?:\([^()]*\))?\s*)+)`)
	reAttr    = regexp.MustCompile(`@([a-z_]+)\s*(?:\(([^()]*)\))?`)
)

func stripComments(src string) string {
	var b strings.Builder
	for i := 0; i < len(src); {
		switch {
		case strings.HasPrefix(src[i:], "//"):
			for i < len(src) && src[i] != '\n' {
				i++
			}
		case strings.HasPrefix(src[i:], "/*"):
			depth := 0
			for i < len(src) {
				if strings.HasPrefix(src[i:], "/*") {
					depth++
					i += 2
				} else if strings.HasPrefix(src[i:], "*/") {
					depth--
					i += 2
					if depth == 0 {
						break
					}
				} else {
					i++
				}
			}
			b.WriteByte(' ')
		default:
			b.WriteByte(src[i])
			i++
		}
	}
	return b.String()
}

func parseAttrRun(run string) (io srcIO, hasLoc, plain bool) {
	io.blend = -1
	plain = true
	for _, m := range reAttr.FindAllStringSubmatch(run, -1) {
		arg := strings.TrimSpace(m[2])
		switch m[1] {
		case "location":
			n, err := strconv.Atoi(strings.TrimRight(arg, "iu"))
			if err != nil {
				plain = false // a constant expression: not judged
			}
			io.loc, hasLoc = n, true
		case "blend_src":
			n, err := strconv.Atoi(strings.TrimRight(arg, "iu"))
			if err != nil {
				plain = false
			}
			io.blend = n
		case "interpolate":
			parts := strings.Split(arg, ",")
			io.interp = strings.TrimSpace(parts[0])
			if len(parts) > 1 {
				io.sampling = strings.TrimSpace(parts[1])
			}
		}
	}
	return io, hasLoc, plain
}

// scanIO lists the located IO declarations of a source whose (owner, name) is unique.
func scanIO(src string) []srcIO {
	src = stripComments(src)
	type own struct {
		off  int
		name string
	}
	var owners []own
	for _, m := range reOwner.FindAllStringSubmatchIndex(src, -1) {
		owners = append(owners, own{m[0], src[m[4]:m[5]]})
	}
	ownerAt := func(off int) string {
		o := ""
		for _, w := range owners {
			if w.off <= off {
				o = w.name
			}
		}
		return o
	}
	var out []srcIO
	count := map[[2]string]int{}
	add := func(off int, run, name string) {
		io, hasLoc, plain := parseAttrRun(run)
		if !hasLoc || !plain {
			return
		}
		io.owner, io.name = ownerAt(off), name
		if io.owner == "" {
			return
		}
		count[[2]string{io.owner, io.name}]++
		out = append(out, io)
	}
	for _, m := range reAttrRun.FindAllStringSubmatchIndex(src, -1) {
		add(m[0], src[m[2]:m[3]], src[m[4]:m[5]])
	}
	for _, m := range reResult.FindAllStringSubmatchIndex(src, -1) {
		add(m[0], src[m[2]:m[3]], "")
	}
	uniq := out[:0]
	for _, io := range out {
		if count[[2]string{io.owner, io.name}] == 1 {
			uniq = append(uniq, io)
		}
	}
	return uniq
}

var interpNames = map[ir.InterpolationKind]string{ir.InterpolationFlat: "flat", ir.InterpolationLinear: "linear", ir.InterpolationPerspective: "perspective"}
var samplingNames = map[ir.InterpolationSampling]string{ir.SamplingCenter: "center", ir.SamplingCentroid: "centroid", ir.SamplingSample: "sample"}

// ioAttrIssues compares the scanned declarations with the bindings of the lowered module.
func ioAttrIssues(src string, m *ir.Module) (issues []irx.Issue) {
	defer func() {
		if r := recover(); r != nil {
			issues = nil // the scanner is best effort: never let it turn into an alarm
		}
	}()
	type key [2]string
	lowered := map[key][]ir.Binding{}
	put := func(owner, name string, b *ir.Binding) {
		if b != nil {
			lowered[key{owner, name}] = append(lowered[key{owner, name}], *b)
		}
	}
	for _, t := range m.Types {
		if st, ok := t.Inner.(ir.StructType); ok && t.Name != "" {
			for _, mem := range st.Members {
				put(t.Name, mem.Name, mem.Binding)
			}
		}
	}
	fn := func(f *ir.Function, name string) {
		for _, a := range f.Arguments {
			put(name, a.Name, a.Binding)
		}
		if f.Result != nil {
			put(name, "", f.Result.Binding)
		}
	}
	for i := range m.Functions {
		fn(&m.Functions[i], m.Functions[i].Name)
	}
	for i := range m.EntryPoints {
		fn(&m.EntryPoints[i].Function, m.EntryPoints[i].Name)
	}
	for _, s := range scanIO(src) {
		bs := lowered[key{s.owner, s.name}]
		if len(bs) != 1 {
			continue // not lowered under that name (unused struct dropped, renamed ...): not judged
		}
		what := s.owner + "." + s.name
		if s.name == "" {
			what = s.owner + " result"
		}
		lb, ok := bs[0].(ir.LocationBinding)
		if !ok {
			issues = append(issues, irx.Issue{Rule: "io.attr.location", Where: what, Msg: fmt.Sprintf("declared @location(%d) but lowered to %T", s.loc, bs[0]), Expr: -1, Value: -1})
			continue
		}
		if int(lb.Location) != s.loc {
			issues = append(issues, irx.Issue{Rule: "io.attr.location", Where: what, Msg: fmt.Sprintf("declared @location(%d), lowered location %d", s.loc, lb.Location), Expr: -1, Value: -1})
		}
		switch {
		case s.blend >= 0 && (lb.BlendSrc == nil || int(*lb.BlendSrc) != s.blend):
			issues = append(issues, irx.Issue{Rule: "io.attr.blend_src", Where: what, Msg: fmt.Sprintf("declared @blend_src(%d), lowered binding has %v", s.blend, blendString(lb.BlendSrc)), Expr: -1, Value: -1})
		case s.blend < 0 && lb.BlendSrc != nil:
			issues = append(issues, irx.Issue{Rule: "io.attr.blend_src", Where: what, Msg: fmt.Sprintf("no @blend_src declared, lowered binding has %v", blendString(lb.BlendSrc)), Expr: -1, Value: -1})
		}
		if s.interp != "" {
			got := "none"
			if lb.Interpolation != nil {
				got = interpNames[lb.Interpolation.Kind]
			}
			if got != s.interp {
				issues = append(issues, irx.Issue{Rule: "io.attr.interpolate", Where: what, Msg: fmt.Sprintf("declared @interpolate(%s), lowered interpolation is %s", s.interp, got), Expr: -1, Value: -1})
			} else if want, known := s.sampling, samplingKnown(s.sampling); known && lb.Interpolation != nil && samplingNames[lb.Interpolation.Sampling] != want {
				issues = append(issues, irx.Issue{Rule: "io.attr.interpolate", Where: what, Msg: fmt.Sprintf("declared sampling %s, lowered sampling is %s", want, samplingNames[lb.Interpolation.Sampling]), Expr: -1, Value: -1})
			}
		}
	}
	return issues
}

func samplingKnown(s string) bool { return s == "center" || s == "centroid" || s == "sample" }

func blendString(p *uint32) string {
	if p == nil {
		return "none"
	}
	return fmt.Sprintf("blend_src %d", *p)
}
