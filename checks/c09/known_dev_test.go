package c09

import (
	"encoding/json"
	"fmt"
	"os"
	"path/filepath"
	"strings"
	"testing"

	"verif/internal/ev"
)

// knownCases are the minimal reproductions of the findings recorded under
// /verif/known/C09-<n>.json (same order as localKnownTags).
var knownCases = []struct {
	n    int
	tag  string
	what string
	wgsl string
}{
	{1, "c09-folded-constant-in-emit-range",
		"constant folding / zero-value expansion / constant deep-copy append Literal (or ZeroValue) expressions while an Emit range is open, so pre-emit expressions are covered by Emit",
		"fn f() -> vec2<u32> {\n    return vec2<u32>(vec2<u32>());\n}\n"},
	{2, "c09-abstract-literal-times-matrix",
		"matrix * abstract-float/int literal (either order) leaves a LiteralAbstractFloat/Int in the function arena (recorded type f32/i32)",
		"fn f(m: mat2x2<f32>) -> mat2x2<f32> {\n    return m * 2.0;\n}\n"},
	{3, "c09-const-composite-access-folds-to-flat-scalar",
		"an access into a `const` composite with nested composites (matrix, array of vectors, struct; module or local const, or inline constructor) is folded as an index into the flattened scalar list: k[1] of mat2x2(1,2,3,4) becomes the scalar literal 2.0",
		"fn f() -> vec2<f32> {\n    const k = mat2x2<f32>(1.0, 2.0, 3.0, 4.0);\n    return k[1];\n}\n"},
	{4, "c09-exprtype-dropped-by-compact-types",
		"ExpressionTypes entry that refers by handle to a type nothing else uses is blanked by CompactTypes (empty TypeResolution for the Splat)",
		"@group(0) @binding(0) var t: texture_2d<f32>;\n@group(0) @binding(1) var s: sampler;\nfn f(a: f32) -> vec4<f32> {\n    return textureSample(t, s, vec2<f32>(a));\n}\n"},
	{5, "c09-stale-exprtype-after-concretize",
		"assigning an abstract constructor to a variable of another scalar kind re-concretises literals/Compose/Splat in place but keeps (or drops) their old ExpressionTypes entries",
		"fn f() {\n    var b: vec2<u32>;\n    b = vec2(44, 45);\n}\n"},
	{6, "c09-atomicstore-value-emitted-after-store",
		"atomicStore(p, e): the Store statement is appended before the Emit that covers p's access chain and e",
		"struct B { cnt: atomic<u32> }\n@group(0) @binding(0) var<storage, read_write> b: B;\n@compute @workgroup_size(1)\nfn main(@builtin(local_invocation_index) i: u32) {\n    atomicStore(&b.cnt, i + 1u);\n}\n"},
	{7, "c09-swizzle-of-pointer-param-without-load",
		"(*p).xy on a pointer PARAMETER is lowered to Swizzle{Vector: FunctionArgument} without a Load (no type can be recorded)",
		"fn f(a: ptr<function, vec3<f32>>) -> vec2<f32> {\n    return (*a).xy;\n}\n"},
	{8, "c09-math-transpose-determinant-type",
		"ExprMath transpose / determinant are recorded with the argument's type (determinant: matrix instead of scalar; transpose of CxR: CxR instead of RxC); the wrong type propagates into let/var types",
		"fn f(m: mat2x3<f32>) -> f32 {\n    let t = transpose(m);\n    return determinant(t * m);\n}\n"},
	{9, "c09-compound-assign-through-pointer-param",
		"`*p op= e` and `(*p)++` on a pointer parameter use the pointer itself as the left operand of the Binary (no Load)",
		"fn f(a: ptr<function, i32>) {\n    *a += 1i;\n}\n"},
	{10, "c09-const-matrix-arithmetic-folds-to-vector",
		"arithmetic over constant matrices (s*M, M*s, M+M, M*M, -M) is folded into a Compose of type vecR holding C*R scalars (M*M even component-wise)",
		"fn f() -> mat2x2<f32> {\n    return 2.0f * mat2x2<f32>(1.0, 2.0, 3.0, 4.0);\n}\n"},
	{11, "c09-extractbits-abstract-arg-typed-u32",
		"extractBits / insertBits with an abstract-int first argument are typed u32 (from the offset/count parameters) instead of i32",
		"fn f() -> i32 {\n    let a = extractBits(1, 1u, 1u);\n    return a;\n}\n"},
	{12, "c09-bitcast-of-abstract-literal",
		"bitcast<f32>(<abstract int>) keeps the LiteralAbstractInt under the As expression",
		"fn f() -> f32 {\n    return bitcast<f32>(1);\n}\n"},
	{13, "c09-validate-duplicate-binding-across-entry-points",
		"naga.Validate reports `duplicate binding` for two resources with the same @group/@binding that are used by different entry points (valid WGSL; accepted by the lowerer)",
		"@group(0) @binding(0) var<uniform> a: vec4<f32>;\n@group(0) @binding(0) var<uniform> b: vec4<f32>;\n@fragment fn fa() -> @location(0) vec4<f32> {\n    return a;\n}\n@fragment fn fb() -> @location(0) vec4<f32> {\n    return b;\n}\n"},
	{14, "c09-abstract-splat-not-concretized",
		"vecN(<abstract literal>) as the right side of a compound assignment, or nested in another constructor, keeps the abstract literal under the Splat",
		"var<private> p: vec4<i32>;\nfn f() {\n    p *= vec4(1);\n}\n"},
	{15, "c09-folded-abstract-vector-picks-first-vecn-type",
		"`vec2(2) + 1` is folded into a Compose typed with the FIRST vec2 type of the arena (here vec2<f32>) while its components are i32 literals",
		"var<private> q: vec2<f32>;\nfn f() -> i32 {\n    let a = vec2(2) + 1;\n    return a.x;\n}\n"},
	{16, "c09-global-expr-type-handle-dropped-by-compact-types",
		"a module const built from nested vector constructors leaves Compose{Type: 0xFFFFFFFF} in GlobalExpressions: the inner vector type is otherwise unused and CompactTypes removes it",
		"const C: vec4<f32> = vec4<f32>(vec2<f32>(1.0, 2.0), vec2<f32>(3.0, 4.0));\nfn f() -> f32 {\n    return C.x;\n}\n"},
	{17, "c09-const-splat-as-single-component-compose",
		"vecN(<scalar>) nested in a module-scope const is stored as Compose{vecN, [one scalar]} (also in GlobalExpressions) and deep-copied like that into function bodies, instead of a Splat",
		"struct S { v: vec4<f32> }\nconst C: vec4<f32> = vec4<f32>(vec2<f32>(0.25), vec2<f32>(0.5));\nfn f() -> S {\n    return S(C);\n}\n"},
}

// TestDevKnownShapes (C09_DEV=1): every known case fails the strict judge, passes
// with its tag active, and fails again when only the OTHER tags are active;
// with C09_DEV=write the replay files under /verif/known are (re)written.
func TestDevKnownShapes(t *testing.T) {
	mode := os.Getenv("C09_DEV")
	if mode == "" {
		t.Skip("C09_DEV not set")
	}
	for _, kc := range knownCases {
		raw, _ := json.Marshal(wcase{WGSL: kc.wgsl})
		ok, msg := judgeRaw(raw)
		if ok {
			t.Errorf("C09-%d: strict judge passes: %s", kc.n, msg)
			continue
		}
		v := judgeSrc(kc.wgsl)
		if v.rejected != "" {
			t.Errorf("C09-%d: rejected: %s", kc.n, v.rejected)
			continue
		}
		sup := suppress(v)
		if ok2, msg2 := report(v, sup); !ok2 {
			t.Errorf("C09-%d: not fully covered by the known shapes:\n%s", kc.n, msg2)
		}
		// only this tag's shape may be needed
		tags := map[string]bool{}
		for i, is := range v.issues {
			if sup[i] {
				tags[matchKnown(v.module, is)] = true
			}
		}
		var ts []string
		for k := range tags {
			ts = append(ts, k)
		}
		fmt.Printf("C09-%d %-55s issues=%d nagaErrs=%d tags=%v\n", kc.n, kc.tag, len(v.issues), len(v.nagaErrs), ts)
		if !localKnownTags[kc.tag] {
			t.Errorf("C09-%d: tag %s is not in localKnownTags", kc.n, kc.tag)
		}
		if mode == "write" {
			first := msg
			if i := strings.Index(first, "\n---"); i >= 0 {
				first = first[:i]
			}
			f := ev.Failure{Property: "C09", Check: checkName, Message: first, Case: raw}
			b, _ := json.MarshalIndent(&f, "", " ")
			p := filepath.Join(ev.Root(), "known", fmt.Sprintf("C09-%d.json", kc.n))
			if err := os.WriteFile(p, append(b, '\n'), 0o644); err != nil {
				t.Error(err)
			}
		}
	}
}
