// Package c19 checks property C19: meaning-neutral edits of a WGSL source
// (blankspace, comments, redundant parentheses, trailing commas, consistent
// renaming) leave acceptance, the lowered module and every backend's output
// unchanged up to names and positions.
package c19

import (
	"bytes"
	"encoding/binary"
	"encoding/json"
	"fmt"
	"os"
	"path/filepath"
	"sort"
	"strings"
	"sync"
	"testing"

	"github.com/gogpu/naga"
	"github.com/gogpu/naga/glsl"
	"github.com/gogpu/naga/hlsl"
	"github.com/gogpu/naga/ir"
	"github.com/gogpu/naga/msl"
	"github.com/gogpu/naga/spirv"
	"pgregory.net/rapid"

	"verif/internal/ev"
	"verif/internal/irx"
	"verif/internal/meta"
	"verif/internal/meta/mgen"
)

func TestMain(m *testing.M) { ev.Main(m, "C19") }

var judges = map[string]ev.Judge{"neutral": judgeNeutral}

func TestKnown(t *testing.T)  { ev.RunKnown(t, "C19", judges) }
func TestReplay(t *testing.T) { ev.RunReplay(t, judges) }

// localExcluded lists the exclusion tags of the findings filed under
// /verif/known/C19-*.json until they are listed in known_findings.json.
var localExcluded = map[string]bool{}

// classTag maps an edit class of package meta to the exclusion tag of the
// finding that covers it.
var classTag = map[string]string{
	"ws.exotic":           "wgsl.blankspace.exotic",
	"comment.line.cr":     "wgsl.linecomment.cr",
	"eol.cr.comment":      "wgsl.linecomment.cr",
	"comment.line.exotic": "wgsl.linecomment.exotic-break",
	"adj.merge.gteq":      "wgsl.template.gteq",
	"paren.const_assert":  "wgsl.const_assert.paren",
	"comma.tmpl.var":      "wgsl.template.trailing-comma",
	"comma.tmpl.ptr":      "wgsl.template.trailing-comma",
	"comma.tmpl.bitcast":  "wgsl.bitcast.trailing-comma",
	"comma.call.bitcast":  "wgsl.bitcast.trailing-comma",
	"comma.tmpl.nested":   "wgsl.template.trailing-comma",
}

func excluded(class string) bool {
	tag, ok := classTag[class]
	if !ok {
		tag = "c19." + class
	}
	if os.Getenv("VERIF_NO_EXCLUDE") != "" {
		return false
	}
	if localExcluded[tag] || ev.ExcludedQuiet(tag) {
		ev.Class("excluded:" + tag)
		return true
	}
	return false
}

// Case is the serialised form of one judged case.
type Case struct {
	Origin string          `json:"origin"` // "corpus:<file>" or "mgen"
	Source string          `json:"source"`
	Edited string          `json:"edited"`
	Edits  []meta.EditDesc `json:"edits"`
	Rename bool            `json:"rename"` // a renaming edit was applied: compare modulo names
}

// ---------------------------------------------------------------------------
// program sources

var (
	corpusOnce  sync.Once
	corpusNames []string
	corpusTexts []string
)

func corpus() ([]string, []string) {
	corpusOnce.Do(func() {
		files, _ := filepath.Glob("/repo/snapshot/testdata/in/*.wgsl")
		sort.Strings(files)
		for _, p := range files {
			b, err := os.ReadFile(p)
			if err != nil || len(b) > 40000 {
				continue
			}
			if _, err := meta.Tokenize(string(b)); err != nil {
				continue
			}
			corpusNames = append(corpusNames, filepath.Base(p))
			corpusTexts = append(corpusTexts, string(b))
		}
	})
	return corpusNames, corpusTexts
}

// programs is the pluggable source of programs: returns (origin, text).
var programs = func(t *rapid.T) (string, string) {
	names, texts := corpus()
	if len(texts) > 0 && rapid.IntRange(0, 9).Draw(t, "fromCorpus") < 5 {
		i := rapid.IntRange(0, len(texts)-1).Draw(t, "corpusIndex")
		return "corpus:" + names[i], texts[i]
	}
	return "mgen", mgen.Program(t)
}

// ---------------------------------------------------------------------------
// observation

type backendOut struct {
	Name string
	Err  string
	Out  []byte
}

type outcome struct {
	Stage    string // "parse", "lower" (rejected there) or "ok"
	Err      string
	Hash     uint64
	HashNN   uint64
	Module   *ir.Module
	Backends []backendOut
}

func lowerFresh(src string) (*ir.Module, string, error) {
	ast, err := naga.Parse(src)
	if err != nil {
		return nil, "parse", err
	}
	m, err := naga.LowerWithSource(ast, src)
	if err != nil {
		return nil, "lower", err
	}
	return m, "ok", nil
}

func guard(name string, f func() ([]byte, error)) (b backendOut) {
	b.Name = name
	defer func() {
		if r := recover(); r != nil {
			b.Err = fmt.Sprintf("panic: %v", r)
			b.Out = nil
		}
	}()
	out, err := f()
	if err != nil {
		b.Err = "error: " + err.Error()
		return
	}
	b.Out = out
	return
}

func observe(src string) (o outcome) {
	defer func() {
		if r := recover(); r != nil {
			o = outcome{Stage: "panic", Err: fmt.Sprint(r)}
		}
	}()
	m, stage, err := lowerFresh(src)
	if err != nil {
		return outcome{Stage: stage, Err: err.Error()}
	}
	o.Stage = "ok"
	o.Module = m
	o.Hash, o.HashNN = irx.Hash(m), irx.HashNoNames(m)
	var eps []string
	for _, e := range m.EntryPoints {
		eps = append(eps, e.Name)
	}
	// every backend gets its own freshly lowered module: some passes work in place
	fresh := func() *ir.Module {
		mm, _, err := lowerFresh(src)
		if err != nil {
			panic("lowering is not repeatable: " + err.Error())
		}
		return mm
	}
	o.Backends = append(o.Backends, guard("spirv", func() ([]byte, error) {
		opt := spirv.DefaultOptions()
		opt.Debug = false
		return naga.GenerateSPIRV(fresh(), opt)
	}))
	o.Backends = append(o.Backends, guard("hlsl", func() ([]byte, error) {
		s, _, err := hlsl.Compile(fresh(), hlsl.DefaultOptions())
		return []byte(s), err
	}))
	o.Backends = append(o.Backends, guard("msl", func() ([]byte, error) {
		s, _, err := msl.Compile(fresh(), msl.DefaultOptions())
		return []byte(s), err
	}))
	for _, name := range eps {
		name := name
		o.Backends = append(o.Backends, guard("glsl:"+name, func() ([]byte, error) {
			opt := glsl.DefaultOptions()
			opt.LangVersion = glsl.Version430
			opt.EntryPoint = name
			s, _, err := glsl.Compile(fresh(), opt)
			return []byte(s), err
		}))
	}
	return o
}

var (
	baseMu    sync.Mutex
	baseCache = map[uint64]*outcome{}
)

func observeCached(src string) *outcome {
	h := ev.HashS(src)
	baseMu.Lock()
	o := baseCache[h]
	baseMu.Unlock()
	if o != nil {
		return o
	}
	oo := observe(src)
	oo.Module = nil
	baseMu.Lock()
	if len(baseCache) < 400 {
		baseCache[h] = &oo
	}
	baseMu.Unlock()
	return &oo
}

// ---------------------------------------------------------------------------
// canonicalisation for renaming edits

// splitIdents cuts a C-family text into identifier tokens and the chunks
// between them (numbers stay inside the chunks).
func splitIdents(b []byte) (idents []string, chunks []string) {
	isStart := func(c byte) bool { return c == '_' || c >= 'a' && c <= 'z' || c >= 'A' && c <= 'Z' }
	isCont := func(c byte) bool { return isStart(c) || c >= '0' && c <= '9' }
	last := 0
	for i := 0; i < len(b); {
		c := b[i]
		switch {
		case isStart(c):
			j := i
			for j < len(b) && isCont(b[j]) {
				j++
			}
			chunks = append(chunks, string(b[last:i]))
			idents = append(idents, string(b[i:j]))
			last = j
			i = j
		case c >= '0' && c <= '9':
			j := i
			for j < len(b) && (isCont(b[j]) || b[j] == '.' ||
				(b[j] == '+' || b[j] == '-') && (b[j-1] == 'e' || b[j-1] == 'E' || b[j-1] == 'p' || b[j-1] == 'P')) {
				j++
			}
			i = j
		default:
			i++
		}
	}
	chunks = append(chunks, string(b[last:]))
	return
}

// alphaEqual compares two backend texts up to a renaming of identifiers:
// everything that is not an identifier must be byte-identical; identifier
// occurrences either keep their spelling or change it, and the changes must
// form a one-to-one relation between spellings.  (A spelling may denote two
// entities - a user name and a backend helper's own parameter of the same
// name - of which only one is renamed, so keeping and changing may coexist.)
func alphaEqual(x, y []byte) (bool, string) {
	ix, cx := splitIdents(x)
	iy, cy := splitIdents(y)
	if len(ix) != len(iy) {
		return false, fmt.Sprintf("identifier count differs: %d / %d", len(ix), len(iy))
	}
	for k := range cx {
		if cx[k] != cy[k] {
			return false, fmt.Sprintf("text between identifiers %d differs: %q / %q", k, cutS(cx[k]), cutS(cy[k]))
		}
	}
	fwd, rev := map[string]string{}, map[string]string{}
	for k := range ix {
		a, b := ix[k], iy[k]
		if a == b {
			continue
		}
		if f, ok := fwd[a]; ok && f != b {
			return false, fmt.Sprintf("identifier %q becomes both %q and %q (occurrence %d)", a, f, b, k)
		}
		if r, ok := rev[b]; ok && r != a {
			return false, fmt.Sprintf("identifiers %q and %q both become %q (occurrence %d)", r, a, b, k)
		}
		fwd[a], rev[b] = b, a
	}
	return true, ""
}

// canonSPIRV drops the instructions that only carry names or source text.
func canonSPIRV(b []byte) []byte {
	if len(b) < 20 || len(b)%4 != 0 {
		return b
	}
	out := append([]byte(nil), b[:20]...)
	for i := 20; i+4 <= len(b); {
		w := binary.LittleEndian.Uint32(b[i:])
		op, n := w&0xffff, int(w>>16)
		if n == 0 || i+4*n > len(b) {
			return b // malformed: compare raw
		}
		switch op {
		case 2, 3, 4, 5, 6, 7, 8, 330: // OpSourceContinued OpSource OpSourceExtension OpName OpMemberName OpString OpLine OpModuleProcessed
		default:
			out = append(out, b[i:i+4*n]...)
		}
		i += 4 * n
	}
	return out
}

func firstDiff(a, b []byte) string {
	n := len(a)
	if len(b) < n {
		n = len(b)
	}
	i := 0
	for i < n && a[i] == b[i] {
		i++
	}
	lo := i - 60
	if lo < 0 {
		lo = 0
	}
	cut := func(x []byte) string {
		hi := i + 60
		if hi > len(x) {
			hi = len(x)
		}
		if lo > len(x) {
			return ""
		}
		return string(x[lo:hi])
	}
	return fmt.Sprintf("first difference at byte %d (lengths %d / %d):\n  before: %q\n  after:  %q", i, len(a), len(b), cut(a), cut(b))
}

// ---------------------------------------------------------------------------
// judge

func judgeNeutral(raw json.RawMessage) (bool, string) {
	var c Case
	if err := json.Unmarshal(raw, &c); err != nil {
		return false, "bad case: " + err.Error()
	}
	v, msg := judge(&c, observe(c.Source))
	return v != "fail", msg
}

// judge returns "ok", "fail" or "unstable".  "unstable" means that compiling
// one and the same text twice gave different results, so the difference seen
// cannot be attributed to the edit (determinism is property C12's business).
func judge(c *Case, before outcome) (string, string) {
	after := observe(c.Edited)
	msg := compare(c, &before, &after)
	if msg == "" {
		return "ok", ""
	}
	for try := 0; try < 6; try++ {
		b2, a2 := observe(c.Source), observe(c.Edited)
		if compare(&Case{}, &before, &b2) != "" || compare(&Case{}, &after, &a2) != "" ||
			compare(c, &b2, &a2) == "" || compare(c, &before, &a2) == "" {
			return "unstable", "compiling the same text twice gives different results; first seen as: " + msg
		}
	}
	return "fail", msg
}

// compare returns "" when after is an admissible result for an edit of before.
func compare(c *Case, beforeP, afterP *outcome) string {
	before, after := *beforeP, *afterP
	if before.Stage != after.Stage {
		return fmt.Sprintf("acceptance changed: before %s (%s), after %s (%s)", before.Stage, cutS(before.Err), after.Stage, cutS(after.Err))
	}
	if before.Stage != "ok" {
		return ""
	}
	// "identical up to the chosen names and source positions": names are never part of the module comparison
	if before.HashNN != after.HashNN {
		if before.Module == nil {
			before.Module, _, _ = lowerFresh(c.Source) // the baseline cache drops modules
		}
		d := ""
		if before.Module != nil && after.Module != nil {
			d = irx.DiffNoNames(before.Module, after.Module)
		}
		return "lowered module differs beyond names: " + cutS(d)
	}
	if !c.Rename && before.Hash != after.Hash {
		if before.Module == nil {
			before.Module, _, _ = lowerFresh(c.Source)
		}
		d := ""
		if before.Module != nil && after.Module != nil {
			d = irx.Diff(before.Module, after.Module)
		}
		return "lowered module differs in names although nothing was renamed: " + cutS(d)
	}
	if len(before.Backends) != len(after.Backends) {
		return fmt.Sprintf("number of backend outputs differs: %d / %d", len(before.Backends), len(after.Backends))
	}
	for i, b := range before.Backends {
		a := after.Backends[i]
		if b.Name != a.Name {
			return fmt.Sprintf("backend output %d is %s before and %s after", i, b.Name, a.Name)
		}
		if (b.Err == "") != (a.Err == "") || strings.HasPrefix(b.Err, "panic") != strings.HasPrefix(a.Err, "panic") {
			return fmt.Sprintf("%s outcome changed: before %q, after %q", b.Name, cutS(b.Err), cutS(a.Err))
		}
		if b.Err != "" {
			continue
		}
		x, y := b.Out, a.Out
		if c.Rename {
			if b.Name != "spirv" {
				if ok, why := alphaEqual(x, y); !ok {
					return fmt.Sprintf("%s output differs beyond names: %s", b.Name, why)
				}
				continue
			}
			x, y = canonSPIRV(x), canonSPIRV(y)
		}
		if !bytes.Equal(x, y) {
			return fmt.Sprintf("%s output differs; %s", b.Name, firstDiff(x, y))
		}
	}
	return ""
}

func cutS(s string) string {
	if len(s) > 600 {
		return s[:600] + "…"
	}
	return s
}

// ---------------------------------------------------------------------------
// property

var neutral = &meta.Neutral{Skip: excluded}

func genCase(t *rapid.T) *Case {
	origin, src := programs(t)
	n := rapid.IntRange(1, 9).Draw(t, "edits")
	if n < 3 && rapid.Bool().Draw(t, "more") {
		n += 3
	}
	out, descs := neutral.Apply(t, src, n)
	c := &Case{Origin: origin, Source: src, Edited: out, Edits: descs}
	for _, d := range descs {
		if d.Class == "rename" {
			c.Rename = true
		}
	}
	return c
}

func nontrivial(c *Case) bool {
	fam := map[string]bool{}
	inExpr := false
	for _, d := range c.Edits {
		fam[d.Family()] = true
		inExpr = inExpr || d.InExpr
	}
	return len(c.Edits) >= 3 && len(fam) >= 2 && inExpr
}

func caseHash(c *Case) uint64 {
	parts := []string{c.Source}
	for _, d := range c.Edits {
		parts = append(parts, d.Class, fmt.Sprint(d.Tok, d.Off), d.Arg)
	}
	return ev.HashS(parts...)
}

func propNeutral(t *rapid.T) {
	c := genCase(t)
	if len(c.Edits) == 0 || c.Edited == c.Source {
		ev.Class("discard:no-edit-site")
		t.Skip("no edit applicable")
	}
	var before outcome
	if strings.HasPrefix(c.Origin, "corpus:") {
		before = *observeCached(c.Source)
	} else {
		before = observe(c.Source)
	}
	verdict, msg := judge(c, before)
	ok := verdict != "fail"
	if verdict == "unstable" {
		ev.Class("unchecked:nondeterministic-compile")
	}
	ev.Eval(caseHash(c), nontrivial(c) && before.Stage == "ok" && verdict == "ok")
	ev.Class("origin:" + strings.SplitN(c.Origin, ":", 2)[0])
	ev.Class("baseline:" + before.Stage)
	for _, d := range c.Edits {
		ev.Class("edit:" + d.Class)
	}
	if c.Rename {
		ev.Class("oracle:modulo-names")
	} else {
		ev.Class("oracle:identical")
	}
	for _, b := range before.Backends {
		if b.Err != "" {
			ev.Class("backend-baseline-error:" + strings.SplitN(b.Name, ":", 2)[0])
		}
	}
	if ev.WantSample("neutral") && nontrivial(c) {
		ev.Sample("neutral", c)
	}
	if !ok {
		ev.Fail("neutral", c, msg)
		t.Fatalf("%s", msg)
	}
}

func TestPropNeutral(t *testing.T) {
	ev.Rule("case = (program, sequence of 1..12 meaning-neutral edits); programs are corpus files /repo/snapshot/testdata/in/*.wgsl " +
		"(rejected ones keep the acceptance half only) and mgen programs; edits drawn by rapid over token boundaries found by an independent " +
		"WGSL tokenizer: blankspace insert/remove, '> >' / '> =' template adjacency, line and nested block comments with hostile text, " +
		"CR/CRLF/LF, exotic blankspace, redundant parentheses, trailing commas, consistent renaming; non-trivial = accepted baseline, " +
		">= 3 edits of >= 2 families with >= 1 inside an expression or template list; distinct = hash(source, edits)")
	ev.Assume("meta's tokenizer and its site rules implement the WGSL grammar correctly (every edit is re-tokenised and must reproduce the expected token sequence)")
	ev.Assume("for renaming edits backend text is compared identifier-occurrence by occurrence: non-identifier text identical, spelling changes one-to-one; SPIR-V is compared without OpName/OpMemberName/OpString/OpSource*/OpLine")
	rapid.Check(t, propNeutral)
}

// FuzzNeutral is the native fuzz target of the thorough tier: the corpus
// index picks the program, the bytes drive the edit draws.
func FuzzNeutral(f *testing.F) {
	f.Add(uint16(0), []byte{1, 2, 3, 4, 5, 6, 7, 8})
	f.Add(uint16(17), []byte("neutral edits"))
	f.Add(uint16(400), bytes.Repeat([]byte{0xa5, 0x3c}, 64))
	names, texts := corpus()
	f.Fuzz(func(t *testing.T, idx uint16, data []byte) {
		prop := func(rt *rapid.T) {
			var origin, src string
			if int(idx) < len(texts) {
				origin, src = "corpus:"+names[idx], texts[idx]
			} else {
				origin, src = "mgen", mgen.Program(rt)
			}
			n := rapid.IntRange(1, 9).Draw(rt, "edits")
			out, descs := neutral.Apply(rt, src, n)
			if len(descs) == 0 || out == src {
				rt.Skip("no edit")
			}
			c := &Case{Origin: origin, Source: src, Edited: out, Edits: descs}
			for _, d := range descs {
				if d.Class == "rename" {
					c.Rename = true
				}
			}
			before := *observeCached(src)
			verdict, msg := judge(c, before)
			ev.Eval(caseHash(c), nontrivial(c) && before.Stage == "ok" && verdict == "ok")
			if verdict == "fail" {
				ev.Fail("neutral", c, msg)
				ev.Flush()
				rt.Fatalf("%s", msg)
			}
		}
		rapid.MakeFuzz(prop)(t, data)
	})
}

// TestKnownLocal replays the findings filed under /verif/known/C19-*.json and
// reports whether they still reproduce (they are excluded from the search by
// localExcluded until known_findings.json lists them).
func TestKnownLocal(t *testing.T) {
	files, _ := filepath.Glob(filepath.Join(ev.Root(), "known", "C19-*.json"))
	sort.Strings(files)
	for _, p := range files {
		r, err := ev.LoadReplay(p)
		if err != nil {
			ev.Inconclusive("known file unreadable: " + p)
			continue
		}
		j := judges[r.Check]
		if j == nil {
			ev.Inconclusive("known file without judge: " + p)
			continue
		}
		ok, msg := j(r.Case)
		if ok {
			fmt.Printf("NOTE: %s no longer reproduces\n", filepath.Base(p))
			ev.Class("known-local:gone")
		} else {
			ev.Class("known-local:reproduced")
			t.Logf("%s still reproduces: %s", filepath.Base(p), cutS(msg))
		}
	}
}
