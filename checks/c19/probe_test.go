package c19

import (
	"fmt"
	"testing"
)

func TestProbe(t *testing.T) {
	base := "@compute @workgroup_size(1) fn main() { var a: vec2<f32> = vec2<f32>(1.0); let b = a.x; }\n"
	cases := map[string]string{
		"base":            base,
		"vt":              "\v" + base,
		"ff":              "\f" + base,
		"nel":             "\u0085" + base,
		"lrm":             "‎" + base,
		"ls":              " " + base,
		"cr-comment":      "// c\r" + base,
		"cr-comment-mid":  "@compute @workgroup_size(1) fn main() { // x\r var a: i32 = 1; // y\r\n }\n",
		"ls-comment":      "// c " + base,
		"gteq":            "@compute @workgroup_size(1) fn main() { var a: vec2<f32>=vec2<f32>(1.0); }\n",
		"gteq-array":      "@compute @workgroup_size(1) fn main() { var a: array<i32,2>=array<i32,2>(1,2); }\n",
		"gtgteq":          "@compute @workgroup_size(1) fn main() { var a: array<vec2<f32>,2>; let b: array<vec2<f32>,2>=a; }\n",
		"gtgteq2":         "@compute @workgroup_size(1) fn main() { var a: array<vec2<f32>>=array<vec2<f32>>(); }\n",
		"ca-paren":        "const A = 3; const_assert (A) == 3;\n" + base,
		"ca-paren-ok":     "const A = 3; const_assert (A == 3);\n" + base,
		"ca-fn":           "const A = 3; @compute @workgroup_size(1) fn main() { const_assert (A + 1) > 2; }\n",
		"comma-var":       "var<private,> x: i32;\n" + base,
		"comma-var2":      "@group(0) @binding(0) var<storage, read_write,> x: array<u32>;\n" + base,
		"comma-ptr":       "fn f(p: ptr<function, i32,>) {}\n" + base,
		"comma-ptr3":      "fn f(p: ptr<function, i32, read_write,>) {}\n" + base,
		"comma-bitcast":   "@compute @workgroup_size(1) fn main() { let b = bitcast<u32,>(1.0); }\n",
		"comma-vec":       "@compute @workgroup_size(1) fn main() { let b = vec2<f32,>(1.0); }\n",
		"comma-array":     "@compute @workgroup_size(1) fn main() { var b: array<u32, 4,>; }\n",
		"comma-array1":    "@group(0) @binding(0) var<storage> x: array<u32,>;\n" + base,
		"comma-nested":    "@compute @workgroup_size(1) fn main() { var b: array<vec2<f32,>>; }\n",
		"comma-nested2":   "@compute @workgroup_size(1) fn main() { var b: array<vec2<f32>,>; }\n",
		"comma-atomic":    "var<workgroup> x: atomic<u32,>;\n" + base,
		"comma-tex":       "@group(0) @binding(0) var t: texture_2d<f32,>;\n" + base,
		"comma-texst":     "@group(0) @binding(0) var t: texture_storage_2d<rgba8unorm, write,>;\n" + base,
		"comma-attr":      "@compute @workgroup_size(1,) fn main() { }\n",
		"comma-case":      "@compute @workgroup_size(1) fn main() { loop { switch 1 { case 1, 2,: { } default: { } } break; } }\n",
		"comma-case2":     "@compute @workgroup_size(1) fn main() { loop { switch 1 { case 1, { } default { } } break; } }\n",
		"unterminated":    base + "/* never closed",
		"paren-lhs-ptr":   "fn f(p: ptr<function, i32>) { (*p) += 1; }\n" + base,
		"hexfloat":        "const x = 0x1p1;\n" + base,
		"dotfloat":        "const x = .5;\n" + base,
		"block-cr":        "/* a\rb */" + base,
		"paren-lit-u32":   "@compute @workgroup_size(1) fn main() { var a: u32 = (1); let b: f32 = (2); let c = 1u << (3); }\n",
		"paren-arraysize": "@compute @workgroup_size(1) fn main() { var a: array<u32, (4)>; }\n",
		"paren-idx":       "@compute @workgroup_size(1) fn main() { var a: array<u32, 4>; let b = (a)[(1)]; let c = (a[1]); }\n",
	}
	for k, src := range cases {
		o := observe(src)
		be := ""
		for _, b := range o.Backends {
			if b.Err != "" {
				be += " " + b.Name + ":" + cutS(b.Err)
			}
		}
		fmt.Printf("%-16s %-6s %s%s\n", k, o.Stage, cutS(o.Err), be)
	}
}
