#!/usr/bin/env python3
"""Apply one seeded defect to the scratch copy /tmp/meta-mut and run a check against it.
usage: meta-mutants.py <check> <mutant-name>|list|all"""
import subprocess, sys, shutil, os, re, time

LEX = 'wgsl/internal/parser/lexer.go'
PAR = 'wgsl/internal/parser/parser.go'
LOW = 'wgsl/internal/lower/lower.go'

M = {
 # ---- C19
 'c19-comment-no-nest': ('C19', LEX, '''		if l.peek() == '/' && l.peekNext() == '*' {
			l.advance()
			l.advance()
			depth++
		} else if''', '''		if false {
		} else if'''),
 'c19-gtgt-greedy': ('C19', PAR, '''	// Handle >> splitting: when expecting >, accept >> and split it
	if kind == TokenGreater && p.check(TokenGreaterGreater) {
		p.splitGreaterGreater()
	}
}''', '''}'''),
 'c19-array-trailing-comma': ('C19', PAR, '''					// Allow trailing comma after size: array<u32, 1,>
					p.match(TokenComma)''', '''					// (mutant) no trailing comma after size'''),
 'c19-struct-trailing-comma': ('C19', PAR, '''		// Optional comma between members
		p.match(TokenComma)''', '''		// (mutant) a comma must be followed by another member
		if p.match(TokenComma) && p.check(TokenRightBrace) {
			return nil, &ParseError{Message: errExpectedMemberName, Token: p.peek()}
		}'''),
 'c19-paren-literal-concrete': ('C19', PAR, '''		if err := p.expectErr(TokenRightParen); err != nil {
			return nil, err
		}
		return expr, nil
''', '''		if err := p.expectErr(TokenRightParen); err != nil {
			return nil, err
		}
		if lit, ok := expr.(*Literal); ok && lit.Kind == TokenIntLiteral {
			last := lit.Value[len(lit.Value)-1]
			if last >= '0' && last <= '9' {
				return &Literal{Kind: lit.Kind, Value: lit.Value + "i", Span: lit.Span}, nil
			}
		}
		return expr, nil
'''),
 'c19-column-only (must not fire)': ('C19', LEX, '''				l.line++
				l.column = 0
			}
			l.advance()''', '''				l.line++
				l.column = 7
			}
			l.advance()'''),
 'c19-line-comment-swallows-next-line': ('C19', LEX, '''			for l.peek() != '\\n' && !l.isAtEnd() {
				l.advance()
			}
''', '''			for l.peek() != '\\n' && !l.isAtEnd() {
				l.advance()
			}
			if l.pos >= 2 && l.source[l.pos-1] == '\\\\' {
				l.advance()
				for l.peek() != '\\n' && !l.isAtEnd() {
					l.advance()
				}
			}
'''),
 'c19-rename-sensitive-lowering': ('C19', LOW, '''	if handle, ok := l.locals[name]; ok {
		// Mark as used for unused variable warnings
		l.usedLocals[name] = true
		return handle, nil
	}
''', '''	if handle, ok := l.locals[name]; ok {
		// Mark as used for unused variable warnings
		l.usedLocals[name] = true
		if strings.HasPrefix(name, "zq") && handle > 0 {
			return handle - 1, nil
		}
		return handle, nil
	}
'''),
 # ---- C11
 'c11-undeclared-lvalue-ignored': ('C11', LOW, '''		pointer, err = l.lowerExpressionForRef(assign.Left, target)
	}
	if err != nil {
		return err
	}''', '''		pointer, err = l.lowerExpressionForRef(assign.Left, target)
	}
	if err != nil && strings.Contains(err.Error(), "unresolved identifier") {
		return nil
	}
	if err != nil {
		return err
	}'''),
 'c11-extra-args-accepted': ('C11', LOW, '''		if len(args) != len(fn.Arguments) {
			return 0, fmt.Errorf("function '%s' expects %d argument(s), got %d", funcName, len(fn.Arguments), len(args))
		}''', '''		if len(args) < len(fn.Arguments) {
			return 0, fmt.Errorf("function '%s' expects %d argument(s), got %d", funcName, len(fn.Arguments), len(args))
		}
		args = args[:len(fn.Arguments)]'''),
 'c11-mustuse-ignored-in-continuing': ('C11', LOW, '''		for _, stmt := range nonBreakIfStmts {
			if err := l.lowerStatement(stmt, &continuing); err != nil {
				return err
			}
		}
''', '''		savedMustUse := l.funcMustUse
		l.funcMustUse = map[string]bool{}
		for _, stmt := range nonBreakIfStmts {
			if err := l.lowerStatement(stmt, &continuing); err != nil {
				l.funcMustUse = savedMustUse
				return err
			}
		}
		l.funcMustUse = savedMustUse
'''),
 'c11-semicolon-prev-column': ('C11', PAR, '''	return p.expectErr(TokenSemicolon)
}''', '''	if err := p.expectErr(TokenSemicolon); err != nil {
		err.Token = p.previous()
		return err
	}
	return nil
}'''),
 'c11-semicolon-optional-before-brace': ('C11', PAR, '''	if p.inForHeader {
		return nil
	}
	return p.expectErr(TokenSemicolon)''', '''	if p.inForHeader || p.check(TokenRightBrace) {
		return nil
	}
	return p.expectErr(TokenSemicolon)'''),
 'c11-swizzle-mixed-accepted': ('C11', LOW, None, None),
 'c11-semantic-position-line-1': ('C11', LOW, '''func (l *Lowerer) addError(message string, span parser.Span) {
	l.errors.Add''', '''func (l *Lowerer) addError(message string, span parser.Span) {
	span.Start.Line, span.Start.Column = 1, 1
	l.errors.Add'''),
}

def run(name):
    check, path, old, new = M[name]
    if old is None:
        return None
    src = os.path.join('/repo', path)
    dst = os.path.join('/tmp/meta-mut', path)
    text = open(src).read()
    if text.count(old) != 1:
        print(f'{name}: pattern occurs {text.count(old)} times -- not applied'); return None
    open(dst, 'w').write(text.replace(old, new))
    env = dict(os.environ, VERIF_MODFILE='/tmp/meta-mut.mod', VERIF_SEED=os.environ.get('VERIF_SEED', '1'))
    t0 = time.time()
    p = subprocess.run(['./check', check, 'quick'], cwd='/verif', env=env, capture_output=True, text=True)
    out = p.stdout + p.stderr
    shutil.copyfile(src, dst)
    viol = [l for l in out.splitlines() if l.startswith('VIOLATION') or l.startswith('  check=')]
    last = out.strip().splitlines()[-1] if out.strip() else ''
    print(f'== {name}: exit={p.returncode} wall={time.time()-t0:.0f}s')
    for l in viol[:4]: print('   ', l[:300])
    if p.returncode == 2: print(out[-1500:])
    print('   ', last[:200])
    return p.returncode

if __name__ == '__main__':
    which = sys.argv[1]
    names = [n for n in M if which in ('all', n) or n.startswith(which)]
    for n in names:
        run(n)
