package c19

import (
	"encoding/json"
	"fmt"
	"os"
	"testing"

	"verif/internal/ev"
)

// TestDump prints the backend outputs of a replay file (VERIF_DUMP=path, VERIF_DUMP_BACKEND=name).
func TestDump(t *testing.T) {
	p := os.Getenv("VERIF_DUMP")
	if p == "" {
		t.Skip()
	}
	r, err := ev.LoadReplay(p)
	if err != nil {
		t.Fatal(err)
	}
	var c Case
	json.Unmarshal(r.Case, &c)
	want := os.Getenv("VERIF_DUMP_BACKEND")
	for i, src := range []string{c.Source, c.Edited} {
		o := observe(src)
		fmt.Printf("===== %d stage=%s err=%s\n", i, o.Stage, o.Err)
		for _, b := range o.Backends {
			if b.Name == want {
				os.WriteFile(fmt.Sprintf("/tmp/meta-dump-%d.txt", i), b.Out, 0o644)
			}
		}
		os.WriteFile(fmt.Sprintf("/tmp/meta-dump-%d.wgsl", i), []byte(src), 0o644)
	}
}
