package c10

import (
	"fmt"
	"os"
	"strconv"
	"strings"
	"testing"
)

// TestTiming: development aid: C10_TIMING="family:n1,n2,..." prints worker timings.
func TestTiming(t *testing.T) {
	spec := os.Getenv("C10_TIMING")
	if spec == "" {
		t.Skip()
	}
	p := strings.SplitN(spec, ":", 2)
	for _, a := range amplifiers {
		if a.name != p[0] {
			continue
		}
		for _, ns := range strings.Split(p[1], ",") {
			n, _ := strconv.Atoi(ns)
			in := &Input{API: "all", Opts: "default", Kind: "amp:" + a.name, Src: a.f(n)}
			ok, msg, rep := verdict(in)
			fmt.Printf("%s n=%d bytes=%d ok=%v ms=%.0f stage=%s err=%.80s %s\n", a.name, n, len(in.Src), ok, rep.Millis, rep.Stage, rep.Err, msg)
		}
	}
}
