// Package c10 checks property C10: no input makes the compiler panic,
// crash, hang or exhaust memory.
package c10

import (
	"encoding/json"
	"fmt"
	"math"
	"os"
	"path/filepath"
	"regexp"
	"sort"
	"strconv"
	"strings"
	"sync"
	"testing"
	"time"
	"unicode"

	"github.com/gogpu/naga"
	"github.com/gogpu/naga/dxil"
	"github.com/gogpu/naga/glsl"
	"github.com/gogpu/naga/hlsl"
	"github.com/gogpu/naga/ir"
	"github.com/gogpu/naga/msl"
	"github.com/gogpu/naga/spirv"
	"github.com/gogpu/naga/wgsl"
	"pgregory.net/rapid"

	"verif/internal/ev"
	"verif/internal/sandbox"
	"verif/internal/wgen"
	"verif/internal/wref"
)

func TestMain(m *testing.M) {
	sandbox.Serve(handle) // never returns in worker mode
	ev.Main(m, "C10")
}

var judges = map[string]ev.Judge{"input": judgeInput}

func TestKnown(t *testing.T)  { ev.RunKnown(t, "C10", judges) }
func TestReplay(t *testing.T) { ev.RunReplay(t, judges) }

// ---------------------------------------------------------------------------
// Worker side

func handle(req sandbox.Request) sandbox.Reply {
	var rep sandbox.Reply
	src := req.Src
	alt := req.Opts == "alt"
	switch req.API {
	case "tokenize":
		_, err := wgsl.NewLexer(src).Tokenize()
		rep.Stage = "tokenize"
		setErr(&rep, err)
		return rep
	case "compile":
		o := naga.DefaultOptions()
		if alt {
			o.Debug = true
			o.SPIRVVersion = spirv.Version{Major: 1, Minor: 5}
		}
		_, err := naga.CompileWithOptions(src, o)
		rep.Stage = "compile"
		setErr(&rep, err)
		return rep
	}
	// "all": every stage, then every backend on the lowered module
	rep.Stage = "tokenize"
	ast, err := naga.Parse(src)
	if err != nil {
		setErr(&rep, err)
		return rep
	}
	rep.Stage = "parse"
	if strings.TrimSpace(src) != "" {
		rep.Decls = 1
	}
	m, err := naga.LowerWithSource(ast, src)
	if err != nil {
		setErr(&rep, err)
		return rep
	}
	rep.Stage = "lower"
	rep.Decls = len(m.Types) + len(m.Functions) + len(m.EntryPoints) + len(m.GlobalVariables) + len(m.Constants)
	if _, err := naga.Validate(m); err != nil {
		rep.Err = "validate: " + err.Error()
	}
	runBackends(m, alt, req.API != "all-nodxil")
	rep.Stage = "backends"
	rep.OK = true
	return rep
}

func setErr(rep *sandbox.Reply, err error) {
	if err != nil {
		rep.Err = err.Error()
		if len(rep.Err) > 300 {
			rep.Err = rep.Err[:300]
		}
	} else {
		rep.OK = true
	}
}

func runBackends(m *ir.Module, alt bool, withDXIL bool) {
	so := spirv.Options{Version: spirv.Version1_3}
	ho := hlsl.DefaultOptions()
	ho.FakeMissingBindings = true
	mo := msl.DefaultOptions()
	mo.FakeMissingBindings = true
	gv := glsl.Version{Major: 4, Minor: 50}
	do := dxil.DefaultOptions()
	if alt {
		so = spirv.Options{Version: spirv.Version{Major: 1, Minor: 0}, Debug: true, ForceLoopBounding: true}
		ho.ShaderModel = hlsl.ShaderModel6_0
		ho.RestrictIndexing = true
		ho.ZeroInitializeWorkgroupMemory = true
		ho.ForceLoopBounding = true
		mo.LangVersion = msl.Version{Major: 3, Minor: 0}
		mo.ZeroInitializeWorkgroupMemory = true
		mo.ForceLoopBounding = true
		gv = glsl.Version{Major: 3, Minor: 10, ES: true}
		do.UseBypassHash = true
	}
	_, _ = spirv.NewBackend(so).Compile(m)
	_, _, _ = hlsl.Compile(m, ho)
	_, _, _ = msl.Compile(m, mo)
	for _, ep := range m.EntryPoints {
		_, _, _ = glsl.Compile(m, glsl.Options{LangVersion: gv, EntryPoint: ep.Name})
	}
	if withDXIL {
		_, _ = dxil.Compile(m, do)
	}
}

// ---------------------------------------------------------------------------
// Parent side

// Input is the serialisable case.
type Input struct {
	API  string `json:"api"`
	Opts string `json:"opts"`
	Src  string `json:"src"`
	Kind string `json:"kind"` // generator family (informational)
}

var (
	workerMu sync.Mutex
	worker   *sandbox.Worker
)

func getWorker() *sandbox.Worker {
	workerMu.Lock()
	defer workerMu.Unlock()
	if worker == nil {
		w, err := sandbox.NewWorker("-test.run=^$")
		if err != nil {
			panic(err)
		}
		worker = w
	}
	return worker
}

const budget = 10 * time.Second

// verdict runs the input in the worker. ok=false means a C10 violation.
func verdict(in *Input) (ok bool, msg string, rep sandbox.Reply) {
	return verdictBudget(in, budget)
}

func verdictBudget(in *Input, budget time.Duration) (ok bool, msg string, rep sandbox.Reply) {
	w := getWorker()
	res, err := w.Do(sandbox.Request{API: in.API, Src: in.Src, Opts: in.Opts}, budget)
	if err != nil {
		ev.Inconclusive("sandbox: " + err.Error())
		return true, "", rep
	}
	switch res.Outcome {
	case sandbox.Answered:
		if res.Reply.Panic != "" {
			return false, "panic: " + res.Reply.Panic + "\n" + trimStack(res.Reply.Stack), res.Reply
		}
		return true, "", res.Reply
	case sandbox.Died:
		reason := "worker died"
		if res.Exit == sandbox.ExitHeap {
			reason = fmt.Sprintf("memory exhaustion (heap above %.0f MB for a %d-byte input)", sandbox.HeapLimitMB, len(in.Src))
		}
		return false, reason + ": " + firstLines(res.Stderr, 6), rep
	case sandbox.TimedOut:
		if budget >= 100*time.Second {
			return false, fmt.Sprintf("no answer within %v for a %d-byte input (hang or super-polynomial time)", budget, len(in.Src)), rep
		}
		// a busy machine is not a defect: re-run with 12x the budget
		res2, err := w.Do(sandbox.Request{API: in.API, Src: in.Src, Opts: in.Opts}, 12*budget)
		if err != nil {
			ev.Inconclusive("sandbox: " + err.Error())
			return true, "", rep
		}
		switch res2.Outcome {
		case sandbox.Answered:
			if res2.Reply.Panic != "" {
				return false, "panic: " + res2.Reply.Panic, res2.Reply
			}
			ev.Class("slow-but-answered")
			return true, "", res2.Reply
		case sandbox.Died:
			return false, "worker died on re-run: " + firstLines(res2.Stderr, 6), rep
		default:
			return false, fmt.Sprintf("no answer within %v for a %d-byte input (hang or super-polynomial time)", 12*budget, len(in.Src)), rep
		}
	}
	return true, "", rep
}

// ampVerdict judges an amplifier input of size parameter n.  Time and memory
// that grow like a small polynomial are allowed by the property, so the size
// is doubled from a small start and the next size is only run while the last
// one answered quickly.  Wall-clock time of one input varies by more than an
// order of magnitude with heap state, so growth is judged on the bytes
// allocated during the call (deterministic) and time only decides extreme
// cases.  A violation is: a panic or fatal outcome at any size; allocation
// growing faster than n^3.5 between two consecutive sizes (>= 256 MB at the
// larger one); or no answer within 120 s at a size whose half answered
// within 2 s.
func ampVerdict(in *Input, n int) (bool, string, sandbox.Reply) {
	fam := strings.TrimPrefix(in.Kind, "amp:")
	var f func(int) string
	for _, a := range amplifiers {
		if a.name == fam {
			f = a.f
		}
	}
	if f == nil {
		return verdict(in)
	}
	size := n >> 6
	if size < 16 {
		size = 16
	}
	if size > n {
		size = n
	}
	var prev sandbox.Reply
	prevSize := 0
	for {
		cur := *in
		cur.Src = f(size)
		ok, msg, r := verdictBudget(&cur, 120*time.Second)
		if !ok {
			*in = cur
			if prevSize > 0 && strings.HasPrefix(msg, "no answer") {
				msg = fmt.Sprintf("%s; n=%d answered in %.0f ms, so growth to n=%d is far steeper than cubic", msg, prevSize, prev.Millis, size)
			}
			return false, msg, r
		}
		if prevSize > 0 && size*2 >= prevSize*3 && r.AllocMB >= 256 && prev.AllocMB > 0.5 {
			exp := math.Log2(r.AllocMB/prev.AllocMB) / math.Log2(float64(size)/float64(prevSize))
			if exp > 3.5 {
				*in = cur
				return false, fmt.Sprintf("super-cubic memory growth: n=%d allocates %.0f MB, n=%d allocates %.0f MB (exponent %.1f)", prevSize, prev.AllocMB, size, r.AllocMB, exp), r
			}
		}
		if size >= n {
			return true, "", r
		}
		if r.Millis > 2000 {
			ev.Class("amp-polynomial-slow:" + fam)
			return true, "", r
		}
		next := size * 2
		if next > n {
			next = n
		}
		prev, prevSize, size = r, size, next
	}
}

func trimStack(s string) string {
	lines := strings.Split(s, "\n")
	var keep []string
	for _, l := range lines {
		if strings.Contains(l, "naga/") || strings.Contains(l, "panic") {
			keep = append(keep, strings.TrimSpace(l))
		}
		if len(keep) > 12 {
			break
		}
	}
	return strings.Join(keep, "\n")
}

func firstLines(s string, n int) string {
	l := strings.Split(strings.TrimSpace(s), "\n")
	if len(l) > n {
		l = l[:n]
	}
	return strings.Join(l, " | ")
}

func judgeInput(raw json.RawMessage) (bool, string) {
	var in Input
	if err := json.Unmarshal(raw, &in); err != nil {
		return false, "bad case: " + err.Error()
	}
	ok, msg, _ := verdict(&in)
	return ok, msg
}

// ---------------------------------------------------------------------------
// Generators

var (
	corpusOnce sync.Once
	corpus     []string
)

func loadCorpus() {
	corpusOnce.Do(func() {
		files, _ := filepath.Glob("/repo/snapshot/testdata/in/*.wgsl")
		sort.Strings(files)
		for _, f := range files {
			b, err := os.ReadFile(f)
			if err == nil && len(b) < 12000 {
				corpus = append(corpus, string(b))
			}
		}
	})
}

var vocab = []string{"fn", "var", "let", "const", "struct", "if", "else", "for", "while", "loop", "switch", "case", "default", "break", "continue",
	"continuing", "return", "discard", "override", "alias", "enable", "requires", "diagnostic", "const_assert", "true", "false",
	"@compute", "@vertex", "@fragment", "@workgroup_size", "@group", "@binding", "@location", "@builtin", "@align", "@size", "@id", "@must_use", "@interpolate",
	"i32", "u32", "f32", "f16", "bool", "vec2", "vec3", "vec4", "vec2<f32>", "vec3<i32>", "vec4f", "mat2x2", "mat4x4<f32>", "mat3x3f", "array", "atomic", "ptr",
	"texture_2d<f32>", "sampler", "texture_storage_2d<rgba8unorm, write>", "function", "private", "workgroup", "uniform", "storage", "read", "write", "read_write",
	"(", ")", "{", "}", "[", "]", "<", ">", ",", ";", ":", ".", "->", "=", "==", "!=", "<=", ">=", "<<", ">>", "&&", "||", "&", "|", "^", "~", "!", "+", "-", "*", "/", "%",
	"+=", "-=", "*=", "/=", "%=", "&=", "|=", "^=", "<<=", ">>=", "++", "--", "_", "@", "//", "/*", "*/", "\n", " ",
	"0", "1", "1u", "1i", "0x7fffffff", "4294967295u", "2147483648", "1.0", "1e38", "1e39f", "0x1p127", "1.0h", "3.4e38f", "0xffffffffffffffff", "999999999999999999999", ".5", "1.", "0.0e0",
	"a", "b", "x", "main", "position", "global_invocation_id", "vertex_index", "abs", "min", "select", "arrayLength", "textureSample", "bitcast<f32>", "workgroupBarrier", "atomicAdd",
	"é", " ", " ", "\x00", "\"", "'", "\\", "#", "$", "`"}

func genTokenSoup(t *rapid.T) string {
	n := rapid.IntRange(1, 400).Draw(t, "ntok")
	var b strings.Builder
	for i := 0; i < n; i++ {
		b.WriteString(vocab[rapid.IntRange(0, len(vocab)-1).Draw(t, "tok")])
		if rapid.IntRange(0, 3).Draw(t, "sp") > 0 {
			b.WriteByte(' ')
		}
	}
	return b.String()
}

func validProgram(t *rapid.T) string {
	loadCorpus()
	if len(corpus) > 0 && rapid.IntRange(0, 1).Draw(t, "vk") == 0 {
		return corpus[rapid.IntRange(0, len(corpus)-1).Draw(t, "ci")]
	}
	f := wgen.DefaultFeatures()
	f.MaxStmts = 12
	f.ConstOK = wref.ConstOK
	return wgen.GenExec(t, f).Src
}

// splitTokens is a rough lexical split good enough for token-level mutation.
func splitTokens(s string) []string {
	var out []string
	i := 0
	isId := func(c byte) bool {
		return c == '_' || c >= '0' && c <= '9' || c >= 'a' && c <= 'z' || c >= 'A' && c <= 'Z' || c >= 0x80
	}
	for i < len(s) {
		c := s[i]
		switch {
		case c == ' ' || c == '\n' || c == '\t' || c == '\r':
			j := i
			for j < len(s) && (s[j] == ' ' || s[j] == '\n' || s[j] == '\t' || s[j] == '\r') {
				j++
			}
			out = append(out, s[i:j])
			i = j
		case isId(c):
			j := i
			for j < len(s) && (isId(s[j]) || s[j] == '.' && j+1 < len(s) && s[j+1] >= '0' && s[j+1] <= '9') {
				j++
			}
			out = append(out, s[i:j])
			i = j
		default:
			out = append(out, s[i:i+1])
			i++
		}
	}
	return out
}

func genMutation(t *rapid.T) string {
	src := validProgram(t)
	toks := splitTokens(src)
	if len(toks) == 0 {
		return src
	}
	n := rapid.IntRange(1, 6).Draw(t, "nmut")
	for k := 0; k < n && len(toks) > 0; k++ {
		i := rapid.IntRange(0, len(toks)-1).Draw(t, "mi")
		switch rapid.IntRange(0, 8).Draw(t, "mk") {
		case 0: // delete
			toks = append(toks[:i], toks[i+1:]...)
		case 1: // duplicate
			toks = append(toks[:i+1], toks[i:]...)
		case 2: // swap with another
			j := rapid.IntRange(0, len(toks)-1).Draw(t, "mj")
			toks[i], toks[j] = toks[j], toks[i]
		case 3: // replace by vocabulary token
			toks[i] = vocab[rapid.IntRange(0, len(vocab)-1).Draw(t, "mv")]
		case 4: // splice a range from elsewhere
			j := rapid.IntRange(0, len(toks)-1).Draw(t, "sj")
			l := rapid.IntRange(1, 12).Draw(t, "sl")
			if j+l > len(toks) {
				l = len(toks) - j
			}
			seg := append([]string(nil), toks[j:j+l]...)
			toks = append(toks[:i], append(seg, toks[i:]...)...)
		case 5: // replace identifier by another identifier from the program
			j := rapid.IntRange(0, len(toks)-1).Draw(t, "ij")
			toks[i] = toks[j]
		case 6: // truncate
			toks = toks[:i]
		case 7: // cut or stretch an identifier-like token (vec3 -> vec, mat2x2 -> mat2x, texture_2d -> texture_)
			tk := toks[i]
			if len(tk) >= 2 && (tk[0] == '_' || unicode.IsLetter(rune(tk[0]))) {
				if rapid.IntRange(0, 2).Draw(t, "cut") > 0 {
					toks[i] = tk[:rapid.IntRange(1, len(tk)-1).Draw(t, "keep")]
				} else {
					toks[i] = tk + string("x2_f<"[rapid.IntRange(0, 4).Draw(t, "ext")])
				}
			}
		case 8: // put a type-like stub where a token was: a generic name with or without arguments
			toks[i] = typeStubs[rapid.IntRange(0, len(typeStubs)-1).Draw(t, "stub")]
		}
	}
	return strings.Join(toks, "")
}

// typeStubs: spellings around the predeclared generic type names, complete and incomplete.
var typeStubs = []string{"mat<f32>", "matx<f32>", "mat2<f32>", "mat2x<f32>", "mat2x2<>", "mat9x9<f32>", "vec<f32>", "vec5<f32>", "vec2<>", "vec2<vec2<f32>>",
	"vec2<f32, f32>", "array<>", "array<i32, >", "array<array<>, 2>", "ptr<>", "ptr<function>", "ptr<function, >", "atomic<>", "atomic<f32>", "atomic<vec2<u32>>",
	"texture_2d<>", "texture_2d", "texture_<f32>", "texture_storage_2d<>", "texture_storage_2d<rgba8unorm>", "texture_storage_2d<f32, write>", "sampler<f32>",
	"binding_array<>", "binding_array<f32>", "mat2x2", "vec3", "mat2x2f<f32>", "vec3f<f32>", "bitcast<>", "bitcast<mat2x2<f32>>", "i32<f32>", "f32<>"}

// genBuiltinArity calls a builtin function with a drawn number of arguments drawn from a pool
// of plausible values (every texture kind, samplers, coordinates, indices, atomics): mostly
// invalid calls that the front end must refuse with an error, whatever the count and order.
var arityBuiltins = []string{"textureSample", "textureSampleBias", "textureSampleLevel", "textureSampleGrad", "textureSampleCompare",
	"textureSampleCompareLevel", "textureSampleBaseClampToEdge", "textureGather", "textureGatherCompare", "textureLoad", "textureStore",
	"textureDimensions", "textureNumLayers", "textureNumLevels", "textureNumSamples", "atomicAdd", "atomicLoad", "atomicStore",
	"atomicCompareExchangeWeak", "atomicExchange", "select", "clamp", "mix", "smoothstep", "fma", "dot", "cross", "pack4x8unorm",
	"unpack2x16float", "extractBits", "insertBits", "arrayLength", "bitcast<u32>", "vec4<f32>", "mat2x2<f32>", "array<u32, 2>", "modf", "frexp", "ldexp",
	"workgroupUniformLoad", "dpdx", "fwidth", "all", "any", "transpose", "determinant", "refract", "faceForward", "distance", "normalize"}

var arityArgs = []string{"t1", "t2", "t2a", "t3", "tc", "tca", "tms", "td", "tda", "tdc", "tdca", "tdms", "ts", "ts3", "tu", "smp", "smpc",
	"vec2<f32>(0.5)", "vec3<f32>(0.5)", "vec4<f32>(0.5)", "0.5", "1", "1u", "1i", "vec2<i32>(1)", "vec3<i32>(1)", "vec2<u32>(1u)", "vec2<f32>(0.1, 0.2)",
	"&at", "&ati", "&buf.arr", "buf.arr[0]", "true", "vec3<bool>(true)", "mat2x2<f32>(1.0, 0.0, 0.0, 1.0)", "&wg", "0"}

const arityPrelude = `@group(0) @binding(0) var t1: texture_1d<f32>;
@group(0) @binding(1) var t2: texture_2d<f32>;
@group(0) @binding(2) var t2a: texture_2d_array<f32>;
@group(0) @binding(3) var t3: texture_3d<f32>;
@group(0) @binding(4) var tc: texture_cube<f32>;
@group(0) @binding(5) var tca: texture_cube_array<f32>;
@group(0) @binding(6) var tms: texture_multisampled_2d<f32>;
@group(0) @binding(7) var td: texture_depth_2d;
@group(0) @binding(8) var tda: texture_depth_2d_array;
@group(0) @binding(9) var tdc: texture_depth_cube;
@group(0) @binding(10) var tdca: texture_depth_cube_array;
@group(0) @binding(11) var tdms: texture_depth_multisampled_2d;
@group(0) @binding(12) var ts: texture_storage_2d<rgba8unorm, write>;
@group(0) @binding(13) var ts3: texture_storage_3d<r32uint, read_write>;
@group(0) @binding(14) var tu: texture_2d<u32>;
@group(0) @binding(15) var smp: sampler;
@group(0) @binding(16) var smpc: sampler_comparison;
struct Buf { n: u32, arr: array<u32> }
@group(1) @binding(0) var<storage, read_write> buf: Buf;
@group(1) @binding(1) var<storage, read_write> at: atomic<u32>;
@group(1) @binding(2) var<storage, read_write> ati: atomic<i32>;
var<workgroup> wg: u32;
`

func genBuiltinArity(t *rapid.T) string {
	var b strings.Builder
	b.WriteString(arityPrelude)
	stage := rapid.SampledFrom([]string{"@fragment fn main() -> @location(0) vec4<f32> {", "@compute @workgroup_size(1) fn main() {"}).Draw(t, "stage")
	b.WriteString(stage + "\n")
	for k := rapid.IntRange(1, 8).Draw(t, "ncalls"); k > 0; k-- {
		fn := rapid.SampledFrom(arityBuiltins).Draw(t, "fn")
		n := rapid.IntRange(0, 8).Draw(t, "nargs")
		if rapid.Bool().Draw(t, "near") {
			n = rapid.IntRange(2, 6).Draw(t, "nargsNear") // around the real arities
		}
		args := make([]string, n)
		for i := range args {
			args[i] = rapid.SampledFrom(arityArgs).Draw(t, "arg")
		}
		if strings.HasPrefix(fn, "texture") && n > 0 && rapid.IntRange(0, 3).Draw(t, "tex0") > 0 {
			args[0] = rapid.SampledFrom(arityArgs[:15]).Draw(t, "tex") // a texture first, as in every real overload
			if n > 1 && rapid.Bool().Draw(t, "smp1") {
				args[1] = rapid.SampledFrom([]string{"smp", "smpc"}).Draw(t, "smp")
			}
		}
		call := fn + "(" + strings.Join(args, ", ") + ")"
		switch rapid.IntRange(0, 2).Draw(t, "use") {
		case 0:
			b.WriteString("  let r" + fmt.Sprint(k) + " = " + call + ";\n")
		case 1:
			b.WriteString("  _ = " + call + ";\n")
		default:
			b.WriteString("  " + call + ";\n")
		}
	}
	if strings.HasPrefix(stage, "@fragment") {
		b.WriteString("  return vec4<f32>(0.0);\n")
	}
	b.WriteString("}\n")
	return b.String()
}

// amplifier families: each returns a source built from a size parameter n.
var amplifiers = []struct {
	name string
	per  int // approximate bytes per unit of n
	f    func(n int) string
}{
	{"paren-nest", 2, func(n int) string {
		return "fn f() -> i32 { return " + strings.Repeat("(", n) + "1" + strings.Repeat(")", n) + "; }"
	}},
	{"unary-nest", 1, func(n int) string { return "fn f() -> i32 { return " + strings.Repeat("-", n) + "1; }" }},
	{"not-nest", 1, func(n int) string { return "fn f() -> bool { return " + strings.Repeat("!", n) + "true; }" }},
	{"block-nest", 2, func(n int) string { return "fn f() { " + strings.Repeat("{", n) + strings.Repeat("}", n) + " }" }},
	{"if-nest", 14, func(n int) string {
		return "fn f(x: i32) { " + strings.Repeat("if x > 0 { ", n) + strings.Repeat("}", n) + " }"
	}},
	{"loop-nest", 8, func(n int) string {
		return "fn f() { " + strings.Repeat("loop { ", n) + "break;" + strings.Repeat("}", n) + " }"
	}},
	{"array-type-nest", 9, func(n int) string {
		return "var<private> a: " + strings.Repeat("array<", n) + "i32" + strings.Repeat(", 2>", n) + ";\n@compute @workgroup_size(1) fn main() { }"
	}},
	{"array-type-nest-used", 9, func(n int) string {
		return "var<private> a: " + strings.Repeat("array<", n) + "i32" + strings.Repeat(", 3>", n) + ";\n@compute @workgroup_size(1) fn main() { var b = a; }"
	}},
	{"array-huge-size", 1, func(n int) string {
		return fmt.Sprintf("var<private> a: array<array<i32, %d>, %d>;\n@compute @workgroup_size(1) fn main() { var b = a; }", n*1000, n*1000)
	}},
	{"vec-ctor-nest", 10, func(n int) string {
		return "fn f() -> vec2<f32> { return " + strings.Repeat("vec2<f32>(", n) + "1.0" + strings.Repeat(")", n) + "; }"
	}},
	{"call-chain", 30, func(n int) string {
		var b strings.Builder
		b.WriteString("fn fq0() -> i32 { return 1; }\n")
		for i := 1; i <= n; i++ {
			fmt.Fprintf(&b, "fn fq%d() -> i32 { return fq%d(); }\n", i, i-1)
		}
		return b.String()
	}},
	{"call-cycle", 72, func(n int) string {
		// a call graph with a cycle of length n (n = 1: a function that calls itself): WGSL forbids it, so the
		// answer is an error from some stage - but every pass that walks callees must terminate
		var b strings.Builder
		b.WriteString("@group(0) @binding(0) var<storage, read_write> o: i32;\nvar<private> p: i32;\nvar<workgroup> w: i32;\n")
		if n%2 == 0 {
			// n functions that each call themselves, all reached from the entry point
			for i := 0; i < n; i++ {
				fmt.Fprintf(&b, "fn fq%d(k: i32) -> i32 { if k <= 0 { return p + w; } p += 1; return fq%d(k - 1) + 1; }\n", i, i)
			}
			b.WriteString("@compute @workgroup_size(1) fn main() { o = 0")
			for i := 0; i < n; i++ {
				fmt.Fprintf(&b, " + fq%d(3)", i)
			}
			b.WriteString("; }\n")
			return b.String()
		}
		for i := 0; i < n; i++ {
			fmt.Fprintf(&b, "fn fq%d(k: i32) -> i32 { if k <= 0 { return p + w; } p += 1; return fq%d(k - 1) + 1; }\n", i, (i+1)%n)
		}
		b.WriteString("@compute @workgroup_size(1) fn main() { o = fq0(3); }\n")
		return b.String()
	}},
	{"call-cycle-void", 40, func(n int) string {
		var b strings.Builder
		b.WriteString("@group(0) @binding(0) var<storage, read_write> o: i32;\n")
		for i := 0; i < n; i++ {
			fmt.Fprintf(&b, "fn fq%d() { if o > 0 { o -= 1; fq%d(); } }\n", i, (i+1)%n)
		}
		b.WriteString("@fragment fn main() -> @location(0) vec4<f32> { fq0(); return vec4<f32>(f32(o)); }\n")
		return b.String()
	}},
	{"call-diamond", 48, func(n int) string {
		// every helper calls the previous one twice: 2^n paths through a graph of n nodes
		var b strings.Builder
		b.WriteString("fn fq0() -> i32 { return 1; }\n")
		for i := 1; i <= n; i++ {
			fmt.Fprintf(&b, "fn fq%d() -> i32 { return fq%d() + fq%d(); }\n", i, i-1, i-1)
		}
		fmt.Fprintf(&b, "@group(0) @binding(0) var<storage, read_write> o: i32;\n@compute @workgroup_size(1) fn main() { o = fq%d(); }\n", n)
		return b.String()
	}},
	{"call-diamond-global", 52, func(n int) string {
		var b strings.Builder
		b.WriteString("@group(0) @binding(0) var<storage, read_write> o: i32;\nvar<private> p: i32;\nfn fq0() -> i32 { p += 1; return o; }\n")
		for i := 1; i <= n; i++ {
			fmt.Fprintf(&b, "fn fq%d() -> i32 { return fq%d() + fq%d(); }\n", i, i-1, i-1)
		}
		fmt.Fprintf(&b, "@compute @workgroup_size(1) fn main() { o = fq%d(); }\n", n)
		return b.String()
	}},
	{"let-diamond", 22, func(n int) string {
		// an expression DAG: every let uses the previous one twice
		var b strings.Builder
		b.WriteString("@group(0) @binding(0) var<storage, read_write> o: u32;\n@compute @workgroup_size(1) fn main() { let a0 = o;\n")
		for i := 1; i <= n; i++ {
			fmt.Fprintf(&b, "let a%d = a%d + a%d;\n", i, i-1, i-1)
		}
		fmt.Fprintf(&b, "o = a%d; }\n", n)
		return b.String()
	}},
	{"let-diamond-phony", 24, func(n int) string {
		// the DAG is only discarded: `_ = aN` makes a backend ask whether the whole expression is pure
		var b strings.Builder
		b.WriteString("fn f(x: f32) { let a0 = x + x;\n")
		for i := 1; i <= n; i++ {
			fmt.Fprintf(&b, "let a%d = a%d + a%d;\n", i, i-1, i-1)
		}
		fmt.Fprintf(&b, "_ = a%d; }\n@compute @workgroup_size(1) fn main() { f(1.0); }\n", n)
		return b.String()
	}},
	{"let-diamond-select", 40, func(n int) string {
		// the same DAG through select / swizzle / compose / conversion nodes, stored through a dynamic index
		var b strings.Builder
		b.WriteString("@group(0) @binding(0) var<storage, read_write> o: array<vec2<f32>, 4>;\n@compute @workgroup_size(1) fn main(@builtin(local_invocation_index) li: u32) { let a0 = o[li];\n")
		for i := 1; i <= n; i++ {
			switch i % 3 {
			case 0:
				fmt.Fprintf(&b, "let a%d = select(a%d, a%d.yx, a%d.x < 1.0);\n", i, i-1, i-1, i-1)
			case 1:
				fmt.Fprintf(&b, "let a%d = vec2<f32>(a%d.x, a%d.y);\n", i, i-1, i-1)
			default:
				fmt.Fprintf(&b, "let a%d = vec2<f32>(vec2<i32>(a%d)) * a%d;\n", i, i-1, i-1)
			}
		}
		fmt.Fprintf(&b, "o[u32(a%d.x) %% 4u] = a%d; }\n", n, n)
		return b.String()
	}},
	{"const-diamond-local-override", 22, func(n int) string {
		// function-scope consts whose initialisers reach an override (not a const-expression: must be refused or handled)
		var b strings.Builder
		b.WriteString("override ov: i32 = 1;\n@compute @workgroup_size(1) fn main() { const a0 = ov + ov;\n")
		for i := 1; i <= n; i++ {
			fmt.Fprintf(&b, "const a%d = a%d + a%d;\n", i, i-1, i-1)
		}
		fmt.Fprintf(&b, "var r = a%d; }\n", n)
		return b.String()
	}},
	{"const-diamond-local", 22, func(n int) string {
		var b strings.Builder
		b.WriteString("@group(0) @binding(0) var<storage, read_write> o: i32;\n@compute @workgroup_size(1) fn main() { const a0 = 1 + 0;\n")
		for i := 1; i <= n; i++ {
			fmt.Fprintf(&b, "const a%d = a%d ^ a%d;\n", i, i-1, i-1)
		}
		fmt.Fprintf(&b, "o = a%d; }\n", n)
		return b.String()
	}},
	{"const-diamond", 26, func(n int) string {
		var b strings.Builder
		b.WriteString("const c0 = 1u;\n")
		for i := 1; i <= n; i++ {
			fmt.Fprintf(&b, "const c%d = c%d ^ c%d;\n", i, i-1, i-1)
		}
		fmt.Fprintf(&b, "@group(0) @binding(0) var<storage, read_write> o: u32;\n@compute @workgroup_size(1) fn main() { o = c%d; }\n", n)
		return b.String()
	}},
	{"alias-chain", 22, func(n int) string {
		var b strings.Builder
		b.WriteString("alias T0 = i32;\n")
		for i := 1; i <= n; i++ {
			fmt.Fprintf(&b, "alias T%d = T%d;\n", i, i-1)
		}
		fmt.Fprintf(&b, "var<private> v: T%d;\n", n)
		return b.String()
	}},
	{"struct-chain", 30, func(n int) string {
		var b strings.Builder
		b.WriteString("struct S0 { a: i32 }\n")
		for i := 1; i <= n; i++ {
			fmt.Fprintf(&b, "struct S%d { a: S%d }\n", i, i-1)
		}
		fmt.Fprintf(&b, "var<private> v: S%d;\n@compute @workgroup_size(1) fn main() { var w = v; }", n)
		return b.String()
	}},
	{"binary-chain", 4, func(n int) string { return "fn f() -> i32 { return 1" + strings.Repeat(" + 1", n) + "; }" }},
	{"long-ident", 1, func(n int) string { return "fn " + strings.Repeat("a", n) + "() { }" }},
	{"long-digits", 1, func(n int) string { return "const c = " + strings.Repeat("9", n) + ";" }},
	{"long-float", 1, func(n int) string {
		return "const c = 1." + strings.Repeat("9", n) + "e" + strings.Repeat("9", n%300+1) + ";"
	}},
	{"comment-nest", 4, func(n int) string { return strings.Repeat("/*", n) + strings.Repeat("*/", n) + " fn f() { }" }},
	{"comment-open", 2, func(n int) string { return strings.Repeat("/*", n) + " fn f() { }" }},
	{"many-decls", 24, func(n int) string {
		var b strings.Builder
		for i := 0; i < n; i++ {
			fmt.Fprintf(&b, "const c%d: i32 = %d;\n", i, i)
		}
		return b.String()
	}},
	{"template-nest", 4, func(n int) string {
		return "var<private> a: " + strings.Repeat("ptr<", n) + strings.Repeat(">", n) + ";"
	}},
	{"index-chain", 3, func(n int) string {
		return "fn f(a: array<i32, 4>) -> i32 { return a" + strings.Repeat("[0]", n) + "; }"
	}},
	{"member-chain", 2, func(n int) string { return "fn f(a: vec4<f32>) -> f32 { return a" + strings.Repeat(".x", n) + "; }" }},
	{"switch-cases", 14, func(n int) string {
		var b strings.Builder
		b.WriteString("fn f(x: i32) { switch x { ")
		for i := 0; i < n; i++ {
			fmt.Fprintf(&b, "case %d: { } ", i)
		}
		b.WriteString("default: { } } }")
		return b.String()
	}},
	{"else-if-chain", 24, func(n int) string {
		return "fn f(x: i32) { if x == 0 { }" + strings.Repeat(" else if x == 1 { }", n) + " }"
	}},
	{"attr-repeat", 10, func(n int) string { return strings.Repeat("@must_use ", n) + "fn f() -> i32 { return 1; }" }},
	{"open-braces", 1, func(n int) string { return "fn f() " + strings.Repeat("{", n) }},
	{"open-parens", 1, func(n int) string { return "fn f() { let x = " + strings.Repeat("(", n) }},
	{"open-brackets", 1, func(n int) string { return "fn f(a: array<i32,4>) { let x = a" + strings.Repeat("[", n) }},
	{"open-templates", 6, func(n int) string { return "var<private> a: " + strings.Repeat("array<", n) }},
}

func maxBytes() int {
	if ev.Thorough() {
		return 64 << 10
	}
	return 16 << 10
}

func genAmplifier(t *rapid.T) (string, string, int) {
	for tries := 0; tries < 8; tries++ {
		a := amplifiers[rapid.IntRange(0, len(amplifiers)-1).Draw(t, "amp")]
		if ev.Excluded("c10.amp." + a.name) {
			continue
		}
		maxN := maxBytes() / a.per
		if maxN < 2 {
			maxN = 2
		}
		// bias towards large n
		n := rapid.IntRange(1, maxN).Draw(t, "n")
		if rapid.IntRange(0, 1).Draw(t, "big") == 1 {
			n = maxN - rapid.IntRange(0, maxN/8).Draw(t, "nd")
		}
		src := a.f(n)
		if len(src) > maxBytes() {
			src = a.f(maxN / 2)
			n = maxN / 2
		}
		if len(src) > maxBytes() {
			continue
		}
		return src, a.name, n
	}
	return "fn f() { }", "none", 1
}

func TestPropInputs(t *testing.T) {
	ev.Rule("inputs <= 16 KiB (quick) / 64 KiB (thorough): arbitrary bytes, token soups from the WGSL vocabulary incl. hostile numerals, token-level mutations (delete/duplicate/swap/replace/splice/truncate, identifier cutting / stretching, incomplete generic type spellings) of corpus and generated valid programs, and 40 amplifier families (nesting, chains, diamonds over let / const / call / select, call cycles, long tokens, unterminated constructs) parameterised by n; each input runs in an isolated worker through tokenize / parse / lower / validate / one-call compile / all five backends with default or alternate options; violation = recovered panic, worker death (fatal error, live heap > 1.5 GB), no answer within 120 s on a re-run, or (amplifiers, sizes doubled while the previous one answers within 2 s) allocation growing faster than n^3.5; non-trivial = non-blank input accepted by the parser (or lowered to a module with >= 1 type/function/global), or an amplifier with n >= 64; distinct = hash of bytes+api+options")
	ev.Assume("the polynomial time/memory bound is approximated by generous fixed limits (120 s, 1.5 GB live heap) and by the growth exponent of allocated bytes on amplifier families; CPU-only super-polynomial work shows up only as a missing answer")
	rapid.Check(t, func(t *rapid.T) {
		in := &Input{API: "all", Opts: "default"}
		if rapid.IntRange(0, 1).Draw(t, "alt") == 1 {
			in.Opts = "alt"
		}
		switch rapid.IntRange(0, 9).Draw(t, "api") {
		case 0:
			in.API = "tokenize"
		case 1:
			in.API = "compile"
		}
		ampN := 0
		switch k := rapid.IntRange(0, 9).Draw(t, "family"); {
		case k == 0:
			in.Kind = "bytes"
			in.Src = string(rapid.SliceOfN(rapid.Byte(), 0, 2048).Draw(t, "bytes"))
		case k <= 2:
			in.Kind = "token-soup"
			in.Src = genTokenSoup(t)
		case k <= 5:
			in.Kind = "mutation"
			in.Src = genMutation(t)
		case k == 6:
			in.Kind = "builtin-arity"
			in.Src = genBuiltinArity(t)
		default:
			var name string
			in.Src, name, ampN = genAmplifier(t)
			in.Kind = "amp:" + name
		}
		if len(in.Src) > maxBytes() {
			in.Src = in.Src[:maxBytes()]
		}
		if skipKnown(in) {
			ev.Class("skipped-known-signature")
			return
		}
		if strings.HasPrefix(in.Kind, "amp:call-diamond") && in.API == "all" && ev.Excluded("c10.dxil-inline-exponential") {
			// open finding C10-5: dxil.Compile inlines every helper, a diamond call graph of n
			// functions becomes 2^n copies; the other stages and backends are still judged
			in.API = "all-nodxil"
		}
		var ok bool
		var msg string
		var rep sandbox.Reply
		if ampN >= 64 {
			ok, msg, rep = ampVerdict(in, ampN)
		} else {
			ok, msg, rep = verdict(in)
		}
		ev.Eval(ev.HashS(in.Src, in.API, in.Opts), rep.Decls >= 1 || ampN >= 64)
		ev.Class("family:" + in.Kind)
		ev.Class("api:" + in.API)
		if rep.Stage != "" {
			ev.Class("stage:" + rep.Stage)
		}
		if rep.Millis > 1000 {
			ev.Class("slow>1s:" + in.Kind)
		}
		if (rep.Decls >= 1 || ampN >= 64) && ev.WantSample(in.Kind) {
			ev.Sample(in.Kind, map[string]any{"api": in.API, "opts": in.Opts, "src": in.Src, "stage": rep.Stage, "ms": rep.Millis})
		}
		if !ok {
			ev.Fail("input", in, msg)
			t.Fatalf("%s\n--- input (%d bytes, %s) ---\n%.600s", msg, len(in.Src), in.Kind, in.Src)
		}
	})
}

// skipKnown keeps generated search away from the root causes of open known
// findings (signatures are deliberately narrow).
func skipKnown(in *Input) bool {
	for _, s := range knownSignatures {
		if ev.ExcludedQuiet(s.tag) && s.match(in.Src) {
			ev.Class("excluded:" + s.tag)
			return true
		}
	}
	return false
}

type signature struct {
	tag   string
	match func(src string) bool
}

func maxNesting(src string, open, close byte) int {
	d, m := 0, 0
	for i := 0; i < len(src); i++ {
		switch src[i] {
		case open:
			d++
			if d > m {
				m = d
			}
		case close:
			if d > 0 {
				d--
			}
		}
	}
	return m
}

var reArrayLen = regexp.MustCompile(`,\s*(\d+)\s*[iu]?\s*>`)

// arrayProduct multiplies the fixed array lengths written in the source
// (capped): a rough measure of how many elements zero-value expansion of the
// declared types can produce.
func arrayProduct(src string) float64 {
	p := 1.0
	for _, m := range reArrayLen.FindAllStringSubmatch(src, -1) {
		n, err := strconv.ParseFloat(m[1], 64)
		if err != nil || n < 1 {
			continue
		}
		p *= n
		if p > 1e18 {
			return p
		}
	}
	return p
}

var knownSignatures = []signature{
	// C10-1: per-element expansion of zero values / constructors of (nested) arrays
	{"c10.array-expansion", func(src string) bool { return arrayProduct(src) > 50000 }},
}

// TestPropArityExhaustive enumerates (texture builtin, first-argument texture kind, argument count):
// a finite space swept completely on every run (split over the shards).  The remaining arguments
// come from a fixed rotation of plausible values, so well-formed calls occur as well.
func TestPropArityExhaustive(t *testing.T) {
	ev.Rule("exhaustive: every texture builtin x every texture kind as first argument x 0..8 arguments (other arguments from a fixed rotation), compute and fragment stage; same crash / hang / memory oracle")
	shard, shards := ev.ShardIndex(), 1
	if n, err := strconv.Atoi(os.Getenv("VERIF_SHARDS")); err == nil && n > 0 {
		shards = n
	}
	rot := []string{"smp", "vec2<f32>(0.5)", "1", "vec2<f32>(0.1, 0.2)", "vec2<f32>(0.3)", "vec2<i32>(1)", "0.5", "1u"}
	rotC := []string{"smpc", "vec3<f32>(0.5)", "1i", "0.5", "vec3<f32>(0.1)", "vec3<f32>(0.2)", "vec2<i32>(1)", "0"}
	idx := 0
	for _, fn := range arityBuiltins {
		if !strings.HasPrefix(fn, "texture") {
			continue
		}
		for _, tex := range arityArgs[:15] {
			for n := 0; n <= 8; n++ {
				for variant := 0; variant < 2; variant++ {
					idx++
					if idx%shards != shard {
						continue
					}
					args := []string{}
					pool := rot
					if variant == 1 {
						pool = rotC
					}
					for i := 0; i < n; i++ {
						if i == 0 {
							args = append(args, tex)
						} else {
							args = append(args, pool[(i-1)%len(pool)])
						}
					}
					src := arityPrelude + "@compute @workgroup_size(1) fn main() {\n  _ = " + fn + "(" + strings.Join(args, ", ") + ");\n}\n"
					if fn == "textureStore" {
						src = arityPrelude + "@compute @workgroup_size(1) fn main() {\n  " + fn + "(" + strings.Join(args, ", ") + ");\n}\n"
					}
					in := &Input{API: "all", Opts: "default", Kind: "arity-exhaustive", Src: src}
					ok, msg, rep := verdict(in)
					ev.Eval(ev.HashS(in.Src, in.API, in.Opts), rep.Decls >= 1)
					ev.Class("family:arity-exhaustive")
					if rep.Stage != "" {
						ev.Class("arity-stage:" + rep.Stage)
					}
					if !ok {
						ev.Fail("input", in, msg)
						t.Fatalf("%s\n--- input ---\n%s", msg, src[len(arityPrelude):])
					}
				}
			}
		}
	}
}

// TestPropNoValueExhaustive puts every call that yields no value (a user function without result, the
// barriers, atomicStore, textureStore) into every position where WGSL requires a value: a finite space
// swept completely on every run.  Whether the front end refuses the program or not, no stage may crash,
// hang or exhaust memory on it (the type of such an "expression" is undefined, which is where a
// compiler that hands out a dummy handle gets into trouble).
func TestPropNoValueExhaustive(t *testing.T) {
	ev.Rule("exhaustive: 8 calls without result x 38 value positions (operands of every operator class, conditions, selectors, initialisers, indices, arguments, constructor and conversion operands, return values) x {entry point, helper}; same crash / hang / memory oracle")
	shard, shards := ev.ShardIndex(), 1
	if n, err := strconv.Atoi(os.Getenv("VERIF_SHARDS")); err == nil && n > 0 {
		shards = n
	}
	const prelude = `var<workgroup> wa: atomic<u32>;
@group(0) @binding(0) var<storage, read_write> o: array<u32, 8>;
@group(0) @binding(1) var ts: texture_storage_2d<rgba8unorm, write>;
fn v() { }
fn vo() { o[7] = 1u; }
fn takes(a: u32) -> u32 { return a; }
`
	producers := []string{"v()", "vo()", "workgroupBarrier()", "storageBarrier()", "textureBarrier()", "atomicStore(&wa, 1u)",
		"textureStore(ts, vec2<i32>(0), vec4<f32>(0.0))", "v( )"}
	positions := []string{
		"if @ { }", "if !@ { }", "switch @ { default { } }", "loop { continuing { break if @; } }", "while @ { break; }",
		"for (var i = @; false; ) { }", "for (; @; ) { break; }", "let r = -@;", "let r = !@;", "let r = ~@;", "let r = *@;", "let r = &@;",
		"let r = @ + 1;", "let r = 1u << @;", "let r = @ == @;", "let r = true && @;", "let r = select(@, @, @);", "let r = select(1, 2, @);",
		"let r = bitcast<f32>(@);", "let r = f32(@);", "let r = vec2<f32>(@);", "let r = vec2(@, 1.0);", "let r = array<u32, 2>(@, 1u);",
		"let r = max(@, 1);", "let r = abs(@);", "let r = takes(@);", "let r = o[@];", "o[@] = 1u;", "o[0] = @;", "o[0] += @;",
		"let r = @.x;", "let r = @[0];", "let r = @;", "var r = @;", "var r: u32 = @;", "const r = @;", "_ = @;", "let r = atomicAdd(&wa, @);",
	}
	idx := 0
	for _, prod := range producers {
		for _, pos := range positions {
			for helper := 0; helper < 2; helper++ {
				idx++
				if idx%shards != shard {
					continue
				}
				body := strings.ReplaceAll(pos, "@", prod)
				src := prelude + "@compute @workgroup_size(1) fn main() {\n  " + body + "\n}\n"
				if helper == 1 {
					src = prelude + "fn h() -> u32 {\n  " + body + "\n  return " + prod + ";\n}\n@compute @workgroup_size(1) fn main() { o[1] = h(); }\n"
				}
				in := &Input{API: "all", Opts: "default", Kind: "no-value-exhaustive", Src: src}
				ok, msg, rep := verdict(in)
				ev.Eval(ev.HashS(in.Src, in.API, in.Opts), true)
				ev.Class("family:no-value-exhaustive")
				if rep.Stage != "" {
					ev.Class("no-value-stage:" + rep.Stage)
				}
				if !ok {
					ev.Fail("input", in, msg)
					t.Fatalf("%s\n--- input ---\n%s", msg, in.Src)
				}
			}
		}
	}
}
