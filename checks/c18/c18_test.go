// Package c18 checks property C18: whenever the DXIL backend returns bytes they
// form a well-formed, self-consistent DXBC container with sound LLVM bitcode;
// otherwise it returns an ordinary error; and its output is deterministic.
package c18

import (
	"bytes"
	"encoding/json"
	"fmt"
	"math/bits"
	"os"
	"path/filepath"
	"regexp"
	"sort"
	"strings"
	"testing"

	"github.com/gogpu/naga"
	"github.com/gogpu/naga/dxil"
	"github.com/gogpu/naga/ir"
	"pgregory.net/rapid"

	"verif/internal/dxbc"
	"verif/internal/ev"
)

func TestMain(m *testing.M) { ev.Main(m, "C18") }

var judges = map[string]ev.Judge{
	"generated":      judgeRaw,
	"corpus":         judgeRaw,
	"generated-rate": judgeRate,
	"corpus-rate":    judgeRate,
}

func TestKnown(t *testing.T)  { ev.RunKnown(t, "C18", judges) }
func TestReplay(t *testing.T) { ev.RunReplay(t, judges) }

// outcome is everything the properties want to know about one judged case.
type outcome struct {
	ok        bool
	msg       string
	class     string // "ok", "error:…", "panic", "gen-rejected:…", "no-entry"
	bytes     []byte
	container *dxbc.Container
	blocks    int
	insts     int
	funcs     int
	upgraded  bool
	panicMsg  string
	msgs      []string
}

func judgeRaw(raw json.RawMessage) (bool, string) {
	var c testCase
	if err := json.Unmarshal(raw, &c); err != nil {
		return false, "bad case: " + err.Error()
	}
	o := judge(&c)
	return o.ok, o.msg
}

func stageOf(s ir.ShaderStage) string {
	switch s {
	case ir.StageVertex:
		return "vertex"
	case ir.StageFragment:
		return "fragment"
	case ir.StageCompute:
		return "compute"
	case ir.StageMesh:
		return "mesh"
	case ir.StageTask:
		return "task"
	}
	return fmt.Sprintf("stage%d", s)
}

// lower parses and lowers the source afresh and isolates the entry point
// (dxil.Compile translates EntryPoints[0] only).
func lower(c *testCase) (*ir.Module, string) {
	ast, err := naga.Parse(c.WGSL)
	if err != nil {
		return nil, "gen-rejected:parse"
	}
	var mod *ir.Module
	func() {
		defer func() {
			if r := recover(); r != nil {
				mod, err = nil, fmt.Errorf("panic in lower: %v", r)
			}
		}()
		mod, err = naga.LowerWithSource(ast, c.WGSL)
	}()
	if err != nil || mod == nil {
		return nil, "gen-rejected:lower"
	}
	if c.Origin == "gen" {
		// Guards the oracle against mistakes of the generator: only programs
		// naga's own validator accepts are judged.
		if errs, verr := naga.Validate(mod); verr != nil || len(errs) > 0 {
			return nil, "gen-rejected:validate"
		}
	}
	for j := range mod.EntryPoints {
		if mod.EntryPoints[j].Name == c.Entry {
			single := *mod
			single.EntryPoints = []ir.EntryPoint{mod.EntryPoints[j]}
			return &single, ""
		}
	}
	return nil, "no-entry"
}

func options(c *testCase) dxil.Options {
	o := dxil.DefaultOptions()
	o.ShaderModel = dxil.ShaderModel{Major: 6, Minor: c.SMMinor}
	o.UseBypassHash = c.Bypass
	if len(c.BindMap) > 0 {
		o.BindingMap = dxil.BindingMap{}
		for _, b := range c.BindMap {
			o.BindingMap[dxil.BindingLocation{Group: b.Group, Binding: b.Binding}] = dxil.BindTarget{Space: b.Space, Register: b.Register}
		}
	}
	return o
}

func compile(mod *ir.Module, o dxil.Options) (out []byte, err error, panicMsg string) {
	defer func() {
		if r := recover(); r != nil {
			out, err, panicMsg = nil, nil, fmt.Sprint(r)
		}
	}()
	out, err = dxil.Compile(mod, o)
	return
}

var (
	reQuoted = regexp.MustCompile(`"[^"]*"`)
	reNum    = regexp.MustCompile(`\[?\b\d+\b\]?`)
)

// errorClass shortens a backend error to a stable reason.
func errorClass(err error) string {
	s := err.Error()
	s = reQuoted.ReplaceAllString(s, `"…"`)
	parts := strings.Split(s, ": ")
	// keep the last two segments: "<where>: <what>"
	if len(parts) > 2 {
		parts = parts[len(parts)-2:]
	}
	s = strings.Join(parts, ": ")
	s = reNum.ReplaceAllString(s, "N")
	if len(s) > 90 {
		s = s[:90]
	}
	return "error:" + s
}

func judge(c *testCase) outcome {
	if p := os.Getenv("C18_DUMP"); p != "" {
		// debugging aid: the last dumped case is the culprit when the
		// backend dies with an unrecoverable fatal error (stack overflow)
		b, _ := json.Marshal(c)
		_ = os.WriteFile(p, b, 0o644)
	}
	mod, rej := lower(c)
	if mod == nil {
		return outcome{ok: true, class: rej}
	}
	opts := options(c)
	out, err, pmsg := compile(mod, opts)
	if pmsg != "" {
		// A panic is a robustness matter (property C10), not a C18 violation.
		return outcome{ok: true, class: "panic", panicMsg: pmsg}
	}
	if err != nil {
		return outcome{ok: true, class: errorClass(err)}
	}
	o := outcome{ok: true, class: "ok", bytes: out}
	var msgs []string
	add := func(format string, a ...any) {
		if len(msgs) < 12 {
			msgs = append(msgs, fmt.Sprintf(format, a...))
		}
	}
	if len(out) == 0 {
		add("backend returned no error and no bytes")
	}

	exp := dxbc.Expect{Stage: c.Stage, SMMajor: 6, SMMinor: int(c.SMMinor), SMMinorAtLeast: true, Hash: dxbc.HashRetail}
	if c.Bypass {
		exp.Hash = dxbc.HashBypass
	}
	// Documented automatic upgrades (dxil.go): raw-buffer access needs 6.2,
	// 64-bit buffer access 6.3, mesh / ray query 6.5, 64-bit atomics 6.6,
	// view index 6.1.  A generated program without storage buffers has none of
	// these, so the requested model must be kept exactly.
	if c.Origin == "gen" && c.Iface != nil {
		storage := false
		for _, r := range c.Iface.Resources {
			if r.Class != "uniform" {
				storage = true
			}
		}
		if !storage {
			exp.SMMinorAtLeast = false
		}
	}
	cont, issues := dxbc.Analyze(out, exp)
	o.container = cont
	for _, is := range issues {
		add("%s", is.String())
	}
	if cont.Program != nil {
		if cont.Program.Minor > 6 && c.SMMinor <= 6 {
			add("dxil.shadermodel: shader model 6.%d exceeds every documented upgrade target (requested 6.%d)", cont.Program.Minor, c.SMMinor)
		}
		o.upgraded = cont.Program.Minor != c.SMMinor
	}
	for _, fc := range []string{"ISG1", "OSG1", "PSV0", "DXIL"} {
		if cont.FindPart(fc) == nil && len(cont.Parts) > 0 {
			add("container.parts: no %s part", fc)
		}
	}
	if m := cont.Module; m != nil {
		o.funcs = len(m.Bodies())
		f := m.EntryFunction()
		if f == nil {
			for _, b := range m.Bodies() {
				if f == nil || b.NumInsts > f.NumInsts {
					f = b
				}
			}
		}
		if f != nil {
			o.blocks, o.insts = f.NumBlocks, f.NumInsts
		}
	}
	if c.Iface != nil && len(issues) == 0 {
		checkInterface(c, cont, add)
	}

	// Determinism: fresh Parse + Lower + Compile runs give the same bytes
	// (three further runs: the order-dependent choices seen so far flip
	// with probability about one half per run).
	runs := 3
	if c.Origin == "known" {
		runs = 12 // replay of a listed determinism finding: make a miss unlikely
	}
	for run := 0; run < runs; run++ {
		mod2, _ := lower(c)
		if mod2 == nil {
			add("determinism: another Parse/Lower of the same source failed")
			break
		}
		out2, err2, p2 := compile(mod2, options(c))
		if p2 != "" {
			add("determinism: another compilation of the same source panicked: %s", p2)
		} else if err2 != nil {
			add("determinism: another compilation of the same source failed: %v", err2)
		} else if !bytes.Equal(out, out2) {
			add("determinism: two compilations of the same source differ (%d vs %d bytes, first difference after the digest at %d)", len(out), len(out2), 20+firstDiff(out[20:], out2[20:]))
		} else {
			continue
		}
		break
	}
	o.msgs = msgs
	if len(msgs) > 0 {
		o.ok = false
		o.msg = strings.Join(msgs, "\n")
	}
	return o
}

// Result-side handling of listed findings whose root cause cannot be kept
// out of generated programs: while the finding is open (its tag is listed in
// known_findings.json) issue lines of that family are counted, not failed.
// The families are also rate-limited (see rateGuard): a change that makes
// them frequent is still reported.
var knownFamilies = []struct {
	tag      string
	prefixes []string
}{
	{"dxil-llvm-type-mismatch", []string{"bc.function.operandtype:", "bc.function.store:", "bc.function.load:", "bc.function.gep:",
		"bc.function.cast:", "bc.function.call:", "bc.function.ret:", "bc.function.opcode:", "bc.function.aggindex:", "bc.function.switch:",
		"bc.value.type:", "bc.constants.reftype:"}},
	{"dxil-operand-encoding", []string{"bc.function.record:", "bc.type.ref: function"}},
}

// partition splits issue lines into those that fail the property and those
// covered by an open finding (returned by tag).
func partition(msgs []string) (live []string, known map[string]int) {
	known = map[string]int{}
next:
	for _, m := range msgs {
		for _, f := range knownFamilies {
			for _, p := range f.prefixes {
				if strings.HasPrefix(m, p) && ev.ExcludedQuiet(f.tag) {
					known[f.tag]++
					continue next
				}
			}
		}
		live = append(live, m)
	}
	return
}

// rateGuard: the families above occur in well under 2% of the programs on
// the unchanged tree; the bound is far above that and far below what a
// systematic encoding defect produces.
type rateGuard struct {
	ok      int
	hits    map[string]int
	samples map[string][]testCase
}

func newRateGuard() *rateGuard {
	return &rateGuard{hits: map[string]int{}, samples: map[string][]testCase{}}
}

func (g *rateGuard) note(c *testCase, known map[string]int) {
	for tag := range known {
		g.hits[tag]++
		if len(g.samples[tag]) < 4 && len(c.WGSL) < 6000 {
			g.samples[tag] = append(g.samples[tag], *c)
		}
	}
}

const rateBound = 0.08

func (g *rateGuard) verdict(t *testing.T, check string) {
	if g.ok < 150 {
		return
	}
	var tags []string
	for tag := range g.hits {
		tags = append(tags, tag)
	}
	sort.Strings(tags)
	for _, tag := range tags {
		n := g.hits[tag]
		if float64(n) > rateBound*float64(g.ok) {
			msg := fmt.Sprintf("issues of the listed family %q occur in %d of %d compiled programs (%.1f%%), far above the rate of the listed finding (bound %.0f%%)",
				tag, n, g.ok, 100*float64(n)/float64(g.ok), 100*rateBound)
			ev.Fail(check+"-rate", map[string]any{"tag": tag, "examples": g.samples[tag]}, msg)
			t.Errorf("%s", msg)
		}
	}
}

// judgeRate re-judges the examples of a rate failure: it fails when any of
// them still shows an issue of the family.
func judgeRate(raw json.RawMessage) (bool, string) {
	var c struct {
		Tag      string     `json:"tag"`
		Examples []testCase `json:"examples"`
	}
	if err := json.Unmarshal(raw, &c); err != nil {
		return false, "bad case: " + err.Error()
	}
	for i := range c.Examples {
		if o := judge(&c.Examples[i]); !o.ok {
			return false, fmt.Sprintf("example %d: %s", i, o.msg)
		}
	}
	return true, ""
}

func firstDiff(a, b []byte) int {
	n := len(a)
	if len(b) < n {
		n = len(b)
	}
	for i := 0; i < n; i++ {
		if a[i] != b[i] {
			return i
		}
	}
	return n
}

var builtinSemantic = map[string]string{
	"vertex_index": "SV_VERTEXID", "instance_index": "SV_INSTANCEID", "position": "SV_POSITION",
	"front_facing": "SV_ISFRONTFACE", "frag_depth": "SV_DEPTH",
}

// checkInterface compares ISG1 / OSG1 / PSV0 with what the generator knows
// about the entry point.  Only facts fixed by the DXIL signature rules are
// compared: one element per scalar/vector input or output, system-value
// names of builtins, SV_Target<N> for fragment outputs, the semantic index of
// a location, component count and component type, thread-group size, and the
// (space, register) of every resource after the binding map.
func checkInterface(c *testCase, cont *dxbc.Container, add func(string, ...any)) {
	ifc := c.Iface
	compType := map[string]uint32{"u32": 1, "i32": 2, "f32": 3, "bool": 1}
	sig := func(part string, s *dxbc.Signature, want []ioElem, fragOut bool) {
		if s == nil {
			return
		}
		if len(s.Elements) != len(want) {
			var names []string
			for _, e := range s.Elements {
				names = append(names, fmt.Sprintf("%s%d", e.Name, e.SemanticIndex))
			}
			add("%s.interface: %d elements (%s) for an entry point with %d %s", part, len(s.Elements), strings.Join(names, " "), len(want), map[bool]string{true: "outputs", false: "inputs"}[part == "osg1"])
			return
		}
		used := make([]bool, len(s.Elements))
		locName := ""
		for _, w := range want {
			found := -1
			for i, e := range s.Elements {
				if used[i] {
					continue
				}
				name := strings.ToUpper(e.Name)
				switch {
				case w.Builtin != "":
					if name == builtinSemantic[w.Builtin] {
						found = i
					}
				case fragOut:
					if name == "SV_TARGET" && int(e.SemanticIndex) == w.Location {
						found = i
					}
				default:
					if !strings.HasPrefix(name, "SV_") && int(e.SemanticIndex) == w.Location {
						found = i
					}
				}
				if found >= 0 {
					break
				}
			}
			if found < 0 {
				what := fmt.Sprintf("@location(%d)", w.Location)
				if w.Builtin != "" {
					what = "@builtin(" + w.Builtin + ")"
				}
				add("%s.interface: no element for %s", part, what)
				continue
			}
			used[found] = true
			e := s.Elements[found]
			if w.Builtin == "" && !fragOut {
				if locName == "" {
					locName = e.Name
				} else if locName != e.Name {
					add("%s.interface: location elements use different semantic names %q and %q", part, locName, e.Name)
				}
			}
			if w.Builtin != "frag_depth" {
				if n := bits.OnesCount8(e.Mask); n != w.Comps {
					add("%s.interface: element %s%d has mask %#x (%d components) for a value of %d components", part, e.Name, e.SemanticIndex, e.Mask, n, w.Comps)
				}
			}
			if ct := compType[w.Scalar]; e.CompType != ct {
				add("%s.interface: element %s%d has component type %d, want %d for %s", part, e.Name, e.SemanticIndex, e.CompType, ct, w.Scalar)
			}
		}
	}
	switch c.Stage {
	case "compute":
		if cont.Inputs != nil && len(cont.Inputs.Elements) != 0 {
			add("isg1.interface: compute shader with %d input signature elements", len(cont.Inputs.Elements))
		}
		if cont.Outputs != nil && len(cont.Outputs.Elements) != 0 {
			add("osg1.interface: compute shader with %d output signature elements", len(cont.Outputs.Elements))
		}
		if p := cont.PSV; p != nil && p.Version >= 2 {
			for i := 0; i < 3; i++ {
				if int(p.NumThreads[i]) != ifc.Workgroup[i] {
					add("psv.interface: NumThreads %v, @workgroup_size is %v", p.NumThreads, ifc.Workgroup)
					break
				}
			}
		}
	case "vertex":
		sig("isg1", cont.Inputs, ifc.Inputs, false)
		sig("osg1", cont.Outputs, ifc.Outputs, false)
	case "fragment":
		sig("isg1", cont.Inputs, ifc.Inputs, false)
		sig("osg1", cont.Outputs, ifc.Outputs, true)
	}
	if p := cont.PSV; p != nil && (c.Stage == "vertex" || c.Stage == "fragment") && p.Version >= 1 {
		if cont.Inputs != nil && int(p.SigInputElements) != len(ifc.Inputs) {
			add("psv.interface: %d input signature elements, entry point has %d inputs", p.SigInputElements, len(ifc.Inputs))
		}
		if cont.Outputs != nil && int(p.SigOutputElements) != len(ifc.Outputs) {
			add("psv.interface: %d output signature elements, entry point has %d outputs", p.SigOutputElements, len(ifc.Outputs))
		}
	}
	// Resources.
	if p := cont.PSV; p != nil {
		bm := map[[2]uint32][2]uint32{}
		for _, b := range c.BindMap {
			bm[[2]uint32{b.Group, b.Binding}] = [2]uint32{b.Space, b.Register}
		}
		used := make([]bool, len(p.Resources))
		missing := 0
		want := append([]resource{}, ifc.Resources...)
		if ifc.NumWorkgroups {
			want = append(want, resource{Group: -1, Class: "uniform"})
		}
		for _, r := range want {
			tgt, ok := bm[[2]uint32{uint32(r.Group), uint32(r.Binding)}]
			if !ok {
				tgt = [2]uint32{uint32(r.Group), uint32(r.Binding)}
			}
			if r.Group < 0 { // synthetic num_workgroups buffer: fixed at b0, space0
				tgt = [2]uint32{0, 0}
				for i, pr := range p.Resources {
					// prefer a CBV so that a user SRV/UAV at (0,0) is not consumed
					if !used[i] && pr.Space == 0 && pr.LowerBound == 0 && pr.ResType == 2 {
						used[i] = true
						tgt = [2]uint32{^uint32(0), 0}
						break
					}
				}
				if tgt[0] != ^uint32(0) {
					add("psv.interface: no constant buffer at (space 0, register 0) for @builtin(num_workgroups)")
				}
				continue
			}
			found := -1
			compatible := func(t uint32) bool {
				switch r.Class {
				case "uniform":
					return t == 2
				case "storage_read":
					return t >= 3 && t <= 9
				case "storage_rw":
					return t >= 6 && t <= 9
				}
				return true
			}
			for pass := 0; pass < 2 && found < 0; pass++ {
				for i, pr := range p.Resources {
					if !used[i] && pr.Space == tgt[0] && pr.LowerBound == tgt[1] && (pass == 1 || compatible(pr.ResType)) {
						found = i
						break
					}
				}
			}
			if found < 0 {
				// The backend runs dead-code elimination before it collects
				// resources, so a binding the program reads may legitimately
				// be absent; only surplus records are judged.
				missing++
				continue
			}
			used[found] = true
			pr := p.Resources[found]
			if pr.UpperBound != pr.LowerBound {
				add("psv.interface: resource @group(%d) @binding(%d) has range [%d,%d] but is not an array", r.Group, r.Binding, pr.LowerBound, pr.UpperBound)
			}
			isCBV, isSRV, isUAV := pr.ResType == 2, pr.ResType >= 3 && pr.ResType <= 5, pr.ResType >= 6 && pr.ResType <= 9
			switch r.Class {
			case "uniform":
				if !isCBV {
					add("psv.interface: uniform buffer @group(%d) @binding(%d) has PSV0 resource type %d (not a CBV)", r.Group, r.Binding, pr.ResType)
				}
			case "storage_read":
				if !isSRV && !isUAV {
					add("psv.interface: storage buffer @group(%d) @binding(%d) has PSV0 resource type %d", r.Group, r.Binding, pr.ResType)
				}
			case "storage_rw":
				if !isUAV {
					add("psv.interface: writable storage buffer @group(%d) @binding(%d) has PSV0 resource type %d (not a UAV)", r.Group, r.Binding, pr.ResType)
				}
			}
		}
		for i, u := range used {
			if !u {
				pr := p.Resources[i]
				add("psv.interface: PSV0 resource %d (type %d, space %d, register %d) corresponds to no binding of the program", i, pr.ResType, pr.Space, pr.LowerBound)
			}
		}
		if missing > 0 {
			ev.Class("unchecked:psv-resource-absent")
		}
	}
}

func bucket(n int, edges ...int) string {
	for _, e := range edges {
		if n <= e {
			return fmt.Sprintf("<=%d", e)
		}
	}
	return fmt.Sprintf(">%d", edges[len(edges)-1])
}

// record counts one judged case and fails the property on a violation.
func record(t *rapid.T, check string, c *testCase, o outcome, rg *rateGuard) {
	nontrivial := o.class == "ok" && (o.blocks >= 2 || o.insts >= 30)
	if o.class == "ok" {
		ev.Eval(ev.Hash64(o.bytes), nontrivial)
	} else {
		ev.Eval(ev.HashS(c.WGSL, c.Entry), false)
	}
	ev.Class("origin:" + map[bool]string{true: "generated", false: "corpus"}[c.Origin == "gen"])
	ev.Class("outcome:" + o.class)
	if o.class == "panic" {
		ev.Class("panic:" + shortPanic(o.panicMsg))
		if ev.WantSample("panic") {
			ev.Sample("panic", map[string]any{"case": c, "panic": o.panicMsg})
		}
	}
	if o.class == "ok" {
		ev.Class("stage:" + c.Stage)
		ev.Class(fmt.Sprintf("sm:6.%d", c.SMMinor))
		ev.Class(fmt.Sprintf("bypass:%v", c.Bypass))
		ev.Class("bindmap:" + bucket(len(c.BindMap), 0, 2, 6))
		ev.Class("blocks:" + bucket(o.blocks, 1, 4, 16, 64, 256))
		ev.Class("insts:" + bucket(o.insts, 10, 30, 100, 300, 1000, 3000))
		ev.Class("bodies:" + bucket(o.funcs, 1, 2, 4))
		if o.upgraded {
			ev.Class("sm-upgraded")
		}
		if cont := o.container; cont != nil {
			if cont.Module != nil {
				ev.Class("types:" + bucket(cont.Module.NumTypes, 8, 16, 32, 64))
				ev.Class("consts:" + bucket(cont.Module.NumModuleConsts, 16, 64, 256, 1024))
				ev.Class("metadata:" + bucket(cont.Module.NumMetadata, 32, 64, 128, 512))
				ev.Class("size:" + bucket(len(o.bytes), 2048, 8192, 32768, 131072))
			}
			if cont.PSV != nil {
				ev.Class("psv-resources:" + bucket(len(cont.PSV.Resources), 0, 2, 6))
			}
			for _, s := range cont.Info {
				k := s
				if i := strings.IndexAny(s, ":"); i > 0 {
					k = s[:i]
				}
				ev.Class("unchecked:" + k)
			}
		}
		if nontrivial && ev.WantSample("ok-"+c.Stage) {
			ev.Sample("ok-"+c.Stage, map[string]any{"wgsl": c.WGSL, "sm_minor": c.SMMinor, "blocks": o.blocks, "insts": o.insts, "bytes": len(o.bytes)})
		}
	}
	if o.class == "ok" {
		rg.ok++
	}
	if !o.ok {
		live, known := partition(o.msgs)
		for tag := range known {
			ev.Class("known:" + tag)
		}
		rg.note(c, known)
		if len(live) > 0 {
			msg := strings.Join(live, "\n")
			ev.Fail(check, c, msg)
			t.Fatalf("%s", msg)
		}
	}
}

func shortPanic(s string) string {
	s = reNum.ReplaceAllString(s, "N")
	if len(s) > 70 {
		s = s[:70]
	}
	return s
}

func TestPropGenerated(t *testing.T) {
	ev.Rule("generated: typed generator of valid WGSL compute/vertex/fragment shaders (scalars, vectors, matrices, uniform/storage buffers with structs, arrays and runtime arrays, private/workgroup variables, helper functions, if/switch/loop/for/while with break/continue, 1..420 statements) x SM 6.0-6.6 x bypass hash x random injective binding map; non-trivial = backend returned bytes and the entry function has >= 2 basic blocks or >= 30 instructions; distinct = hash of the container bytes")
	ev.Assume("verif/internal/dxbc (independent reader written from the public DXBC / PSV0 / LLVM 3.7 bitstream descriptions; calibrated on two DXC-produced containers shipped in /repo/internal/dxcvalidator/bitcheck/testdata) is the oracle; naga.Parse, naga.LowerWithSource and naga.Validate are trusted to accept only valid programs")
	rg := newRateGuard()
	defer rg.verdict(t, "generated")
	rapid.Check(t, func(t *rapid.T) {
		c := genProgram(t)
		o := judge(&c)
		for _, f := range c.Features {
			if o.class == "ok" {
				ev.Class("feature:" + f)
			}
		}
		if strings.HasPrefix(o.class, "gen-rejected") && ev.WantSample(o.class) {
			ev.Sample(o.class, c.WGSL)
		}
		if strings.HasPrefix(o.class, "error:") && ev.WantSample(o.class) {
			ev.Sample(o.class, c.WGSL)
		}
		record(t, "generated", &c, o, rg)
	})
}

// ---------------------------------------------------------------- corpus

type corpusEntry struct {
	file     string
	src      string
	entries  []string
	stages   []string
	bindings [][2]uint32
}

var corpusCache []corpusEntry

func loadCorpus() []corpusEntry {
	if corpusCache != nil {
		return corpusCache
	}
	files, _ := filepath.Glob("/repo/snapshot/testdata/in/*.wgsl")
	sort.Strings(files)
	for _, f := range files {
		b, err := os.ReadFile(f)
		if err != nil {
			continue
		}
		ce := corpusEntry{file: filepath.Base(f), src: string(b)}
		func() {
			defer func() { _ = recover() }()
			ast, err := naga.Parse(ce.src)
			if err != nil {
				return
			}
			mod, err := naga.LowerWithSource(ast, ce.src)
			if err != nil || mod == nil {
				return
			}
			for _, ep := range mod.EntryPoints {
				ce.entries = append(ce.entries, ep.Name)
				ce.stages = append(ce.stages, stageOf(ep.Stage))
			}
			seen := map[[2]uint32]bool{}
			for _, gv := range mod.GlobalVariables {
				if gv.Binding != nil && !seen[[2]uint32{gv.Binding.Group, gv.Binding.Binding}] {
					seen[[2]uint32{gv.Binding.Group, gv.Binding.Binding}] = true
					ce.bindings = append(ce.bindings, [2]uint32{gv.Binding.Group, gv.Binding.Binding})
				}
			}
		}()
		if len(ce.entries) > 0 {
			corpusCache = append(corpusCache, ce)
		}
	}
	return corpusCache
}

// Corpus entry points that reproduce a listed finding; skipped while the
// finding is open (tag in known_findings.json).
var corpusKnown = map[string][]string{
	"dxil-nested-struct-gep": {"access.wgsl/foo_compute"},
	"dxil-handle-store":      {"bounds-check-restrict.wgsl/main", "bounds-check-zero.wgsl/main"},
	"dxil-mat-cx2-buffer":    {"hlsl_mat_cx2.wgsl/main", "hlsl_mat_cx3.wgsl/main"},
	"dxil-psv-sigelems":      {"barycentrics.wgsl/fs_main", "mesh-shader.wgsl/ms_main", "mesh-shader-lines.wgsl/ms_main", "mesh-shader-points.wgsl/ms_main"},
	"dxil-phi-forward-ref":   {"debug-symbol-terrain.wgsl/gen_terrain_fragment", "debug-symbol-large-source.wgsl/gen_terrain_fragment"},
	"dxil-f16-int64-types":   {"f16.wgsl/main", "int64.wgsl/main"},
}

func corpusExcluded(key string) bool {
	for tag, keys := range corpusKnown {
		for _, k := range keys {
			if k == key {
				return ev.Excluded(tag)
			}
		}
	}
	return false
}

func TestPropCorpus(t *testing.T) {
	ev.Rule("corpus: every entry point of /repo/snapshot/testdata/in/*.wgsl x SM 6.0-6.6 x bypass hash x random injective binding map over the module's bindings")
	corpus := loadCorpus()
	if len(corpus) == 0 {
		ev.Inconclusive("WGSL corpus not readable")
		t.Skip("no corpus")
	}
	rg := newRateGuard()
	rapid.Check(t, func(t *rapid.T) {
		ce := corpus[rapid.IntRange(0, len(corpus)-1).Draw(t, "file")]
		ei := rapid.IntRange(0, len(ce.entries)-1).Draw(t, "entry")
		c := testCase{Origin: ce.file, WGSL: ce.src, Entry: ce.entries[ei], Stage: ce.stages[ei]}
		c.SMMinor = uint32(rapid.IntRange(0, 6).Draw(t, "sm"))
		c.Bypass = rapid.Bool().Draw(t, "bypass")
		var res []resource
		for _, b := range ce.bindings {
			res = append(res, resource{Group: int(b[0]), Binding: int(b[1])})
		}
		c.BindMap = genBindMap(t, res)
		if corpusExcluded(ce.file + "/" + c.Entry) {
			ev.Eval(ev.HashS(c.WGSL, c.Entry), false)
			return
		}
		record(t, "corpus", &c, judge(&c), rg)
	})
}
