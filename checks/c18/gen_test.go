package c18

// Typed generator of small-to-large valid WGSL compute / vertex / fragment
// shaders.  Everything random comes from rapid draws; programs are valid by
// construction (every expression is generated for a requested type, constant
// sub-expressions are kept away from operations whose constant evaluation could
// be a shader-creation error).

import (
	"fmt"
	"strings"

	"pgregory.net/rapid"
)

type sk int

const (
	kF32 sk = iota
	kI32
	kU32
	kBool
)

func (s sk) String() string { return [...]string{"f32", "i32", "u32", "bool"}[s] }

type tk int

const (
	tScalar tk = iota
	tVec
	tMat
	tArr
	tStruct
	tAtomic
)

type wty struct {
	k      tk
	s      sk
	n      int // vector size / matrix columns
	r      int // matrix rows
	elem   *wty
	cnt    int // array length, 0 = runtime sized
	name   string
	fields []wfield
}

type wfield struct {
	name string
	ty   *wty
}

func scalar(s sk) *wty           { return &wty{k: tScalar, s: s} }
func vec(n int, s sk) *wty       { return &wty{k: tVec, s: s, n: n} }
func mat(c, r int) *wty          { return &wty{k: tMat, s: kF32, n: c, r: r} }
func arr(e *wty, cnt int) *wty   { return &wty{k: tArr, elem: e, cnt: cnt} }
func (t *wty) isNumeric() bool   { return (t.k == tScalar || t.k == tVec) && t.s != kBool }
func (t *wty) isValueType() bool { return t.k == tScalar || t.k == tVec || t.k == tMat }
func (t *wty) comps() int {
	switch t.k {
	case tVec:
		return t.n
	case tMat:
		return t.n * t.r
	}
	return 1
}

func (t *wty) String() string {
	switch t.k {
	case tScalar:
		return t.s.String()
	case tVec:
		return fmt.Sprintf("vec%d<%s>", t.n, t.s)
	case tMat:
		return fmt.Sprintf("mat%dx%d<f32>", t.n, t.r)
	case tArr:
		if t.cnt == 0 {
			return fmt.Sprintf("array<%s>", t.elem)
		}
		return fmt.Sprintf("array<%s, %d>", t.elem, t.cnt)
	case tStruct:
		return t.name
	case tAtomic:
		return "atomic<u32>"
	}
	return "?"
}

func (t *wty) eq(o *wty) bool { return t.String() == o.String() }

type scopeVar struct {
	name    string
	ty      *wty
	mutable bool
	isConst bool
}

// place is an addressable location inside a resource / private / workgroup variable.
type place struct {
	expr     func(g *gen) string // may draw an index expression
	ty       *wty
	writable bool
	res      int // index into g.resources, -1 for non-resources
	atomic   bool
}

type resource struct {
	Group   int    `json:"group"`
	Binding int    `json:"binding"`
	Class   string `json:"class"` // "uniform", "storage_read", "storage_rw"
	name    string
}

type helper struct {
	name   string
	params []*wty // after the leading seed: u32
	ret    *wty
}

type ioElem struct {
	Builtin  string `json:"builtin,omitempty"` // WGSL builtin name, "" for locations
	Location int    `json:"location"`
	Comps    int    `json:"comps"`
	Scalar   string `json:"scalar"`
	name     string
	ty       *wty
}

// iface is what the generator knows about the entry point's interface; the
// oracle compares the container against it.
type iface struct {
	Inputs    []ioElem   `json:"inputs"`
	Outputs   []ioElem   `json:"outputs"`
	Resources []resource `json:"resources"`
	Workgroup [3]int     `json:"workgroup"`
	// AllResourcesUsed: every resource flows into an observable output.
	AllResourcesUsed bool `json:"all_resources_used"`
	// NumWorkgroups: the entry point reads @builtin(num_workgroups), for
	// which the backend documents a synthetic constant buffer at b0, space0.
	NumWorkgroups bool `json:"num_workgroups,omitempty"`
}

type gen struct {
	t            *rapid.T
	sb           strings.Builder
	stage        string
	scopes       [][]scopeVar
	places       []place
	structs      []*wty
	helpers      []helper
	resources    []resource
	budget       int // statements left
	maxDepth     int
	inLoop       int
	inHelper     bool
	retTy        *wty
	nameN        int
	feat         map[string]bool
	bigLits      bool
	allowAtomics bool
	av           map[string]bool // open known-finding tags the generator stays away from
	fnDepth      int
	inSwitch     int
	retExpr      func(g *gen) string
	allowDiscard bool
	idxNest      int
	// avoidFatal: stay away from constructs on which the backend dies with an
	// unrecoverable stack overflow (a never-initialised local whose only store
	// reads the local itself: "var v: vec4<f32>; v = v + x;").  That crash is
	// a robustness finding (C10), and it would take the whole shard down.
	avoidFatal bool
}

func (g *gen) n(lo, hi int) int    { return rapid.IntRange(lo, hi).Draw(g.t, "n") }
func (g *gen) chance(pct int) bool { return rapid.IntRange(0, 99).Draw(g.t, "p") < pct }
func (g *gen) fresh(prefix string) string {
	g.nameN++
	return fmt.Sprintf("%s%d", prefix, g.nameN)
}
func (g *gen) use(f string) { g.feat[f] = true }

// ---------------------------------------------------------------- types

var scalarKinds = []sk{kF32, kI32, kU32, kBool}

func (g *gen) valueType(allowBool, allowMat bool) *wty {
	for {
		c := g.n(0, 9)
		var s sk
		switch g.n(0, 5) {
		case 0, 1, 2:
			s = kF32
		case 3:
			s = kI32
		case 4:
			s = kU32
		default:
			s = kBool
		}
		if s == kBool && !allowBool {
			s = kU32
		}
		switch {
		case c < 4:
			return scalar(s)
		case c < 8:
			return vec(g.n(2, 4), s)
		default:
			if !allowMat {
				return vec(g.n(2, 4), s)
			}
			return mat(g.n(2, 4), g.n(2, 4))
		}
	}
}

// hostType: a type allowed in a storage buffer struct member.
func (g *gen) storageMember(depth int) *wty {
	c := g.n(0, 9)
	switch {
	case c < 6 || depth > 1:
		t := g.valueType(false, true)
		return t
	case c < 9:
		e := g.valueType(false, false)
		return arr(e, g.n(1, 6))
	default:
		if g.av["dxil-buffer-access-chain"] || depth > 0 || len(g.structs) == 0 {
			return arr(g.valueType(false, false), g.n(1, 4))
		}
		return g.structs[g.n(0, len(g.structs)-1)]
	}
}

// uniformMember: types with uniform-address-space friendly layout.
func (g *gen) uniformMember() *wty {
	switch g.n(0, 9) {
	case 0, 1, 2, 3:
		s := []sk{kF32, kI32, kU32}[g.n(0, 2)]
		if g.chance(50) {
			return scalar(s)
		}
		return vec(g.n(2, 4), s)
	case 4, 5:
		return vec(4, []sk{kF32, kI32, kU32}[g.n(0, 2)])
	case 6:
		return mat(g.n(2, 4), g.n(2, 4))
	case 7:
		return mat(4, 4)
	default:
		if g.av["dxil-buffer-access-chain"] {
			return vec(4, []sk{kF32, kI32, kU32}[g.n(0, 2)])
		}
		return arr(vec(4, []sk{kF32, kI32, kU32}[g.n(0, 2)]), g.n(1, 8))
	}
}

func (g *gen) declStruct(forUniform bool, allowRuntimeTail bool, allowAtomic bool) *wty {
	st := &wty{k: tStruct, name: g.fresh("S")}
	nf := g.n(1, 6)
	for i := 0; i < nf; i++ {
		var ft *wty
		if forUniform {
			ft = g.uniformMember()
		} else {
			ft = g.storageMember(0)
		}
		st.fields = append(st.fields, wfield{fmt.Sprintf("f%d", i), ft})
	}
	if allowAtomic && g.allowAtomics && g.chance(30) {
		st.fields = append(st.fields, wfield{"cnt", &wty{k: tAtomic}})
		g.use("atomic")
	}
	if allowRuntimeTail && g.chance(40) {
		st.fields = append(st.fields, wfield{"tail", arr(g.valueType(false, false), 0)})
		g.use("runtime-array")
	}
	fmt.Fprintf(&g.sb, "struct %s {\n", st.name)
	for _, f := range st.fields {
		fmt.Fprintf(&g.sb, "  %s: %s,\n", f.name, f.ty)
	}
	g.sb.WriteString("}\n")
	if !forUniform && !allowRuntimeTail && !allowAtomic {
		g.structs = append(g.structs, st)
	}
	return st
}

// addPlaces registers every value-typed location reachable from base.
func (g *gen) addPlaces(base string, t *wty, writable bool, res int) {
	switch t.k {
	case tScalar, tVec, tMat:
		b := base
		g.places = append(g.places, place{expr: func(*gen) string { return b }, ty: t, writable: writable, res: res})
	case tAtomic:
		b := base
		g.places = append(g.places, place{expr: func(*gen) string { return b }, ty: scalar(kU32), writable: writable, res: res, atomic: true})
	case tStruct:
		for _, f := range t.fields {
			g.addPlaces(base+"."+f.name, f.ty, writable, res)
		}
	case tArr:
		b, cnt, el := base, t.cnt, t.elem
		isRes := res >= 0
		idx := func(g *gen) string {
			dynOnly := isRes && g.av["dxil-buffer-access-chain"]
			if cnt > 0 && g.chance(40) && !dynOnly {
				return fmt.Sprintf("%s[%d]", b, g.n(0, cnt-1))
			}
			i := "ru"
			if g.idxNest == 0 {
				g.idxNest++
				d := g.maxDepth - 1
				if d > 2 {
					d = 2
				}
				i, _ = g.expr(scalar(kU32), d)
				g.idxNest--
			} else if g.chance(50) && !dynOnly {
				i = fmt.Sprintf("%du", g.n(0, 70))
			}
			if dynOnly && i != "ru" {
				i = fmt.Sprintf("ru + %s", i)
			}
			if cnt > 0 {
				return fmt.Sprintf("%s[(%s) %% %du]", b, i, cnt)
			}
			return fmt.Sprintf("%s[%s]", b, i)
		}
		if el.isValueType() {
			g.places = append(g.places, place{expr: idx, ty: el, writable: writable, res: res})
		} else if el.k == tStruct {
			for _, f := range el.fields {
				if f.ty.isValueType() {
					fn, ft := f.name, f.ty
					g.places = append(g.places, place{expr: func(g *gen) string { return idx(g) + "." + fn }, ty: ft, writable: writable, res: res})
				}
			}
		}
	}
}

// ---------------------------------------------------------------- literals

func (g *gen) intLit(s sk, small bool) string {
	if s == kU32 {
		if !small && g.bigLits && g.chance(30) {
			return []string{"4294967295u", "0xffffffffu", "2147483648u", "0x80000001u", "305419896u", "65536u", "0xdeadbeefu", "16777216u", "4000000000u"}[g.n(0, 8)]
		}
		return fmt.Sprintf("%du", g.n(0, 64))
	}
	if !small && g.bigLits && g.chance(30) {
		return []string{"2147483647i", "-2147483647i", "0x7fffffffi", "-1073741824i", "1073741823i", "-65537i", "16777217i", "-305419896i", "(-2147483647i - 1i)", "-8388608i"}[g.n(0, 9)]
	}
	v := g.n(-40, 64)
	if v < 0 {
		return fmt.Sprintf("(%di)", v)
	}
	return fmt.Sprintf("%di", v)
}

func (g *gen) floatLit(small bool) string {
	if !small && g.bigLits && g.chance(25) {
		return []string{"3.0e38", "-1.5e30", "1.0e-30", "16777216.0", "-0.000001", "1.17549435e-38", "65504.0", "-123456.789", "0.1", "3.14159265"}[g.n(0, 9)]
	}
	v := g.n(-200, 400)
	if v < 0 {
		return fmt.Sprintf("(%d.%d)", v/8, (-v%8)*125)
	}
	return fmt.Sprintf("%d.%d", v/8, (v%8)*125)
}

func (g *gen) literal(t *wty, small bool) string {
	switch t.k {
	case tScalar:
		switch t.s {
		case kF32:
			return g.floatLit(small)
		case kBool:
			if g.chance(50) {
				return "true"
			}
			return "false"
		default:
			return g.intLit(t.s, small)
		}
	case tVec:
		if g.chance(30) {
			return fmt.Sprintf("%s(%s)", t, g.literal(scalar(t.s), small))
		}
		var p []string
		for i := 0; i < t.n; i++ {
			p = append(p, g.literal(scalar(t.s), small))
		}
		return fmt.Sprintf("%s(%s)", t, strings.Join(p, ", "))
	case tMat:
		var p []string
		for i := 0; i < t.n; i++ {
			p = append(p, g.literal(vec(t.r, kF32), small))
		}
		return fmt.Sprintf("%s(%s)", t, strings.Join(p, ", "))
	}
	return "0"
}

// nonZeroLit is a literal usable as constant divisor.
func (g *gen) nonZeroLit(t *wty) string {
	one := func(s sk) string {
		switch s {
		case kF32:
			return fmt.Sprintf("%d.5", g.n(1, 9))
		case kU32:
			return fmt.Sprintf("%du", g.n(1, 9))
		}
		return fmt.Sprintf("%di", g.n(1, 9))
	}
	if t.k == tVec {
		var p []string
		for i := 0; i < t.n; i++ {
			p = append(p, one(t.s))
		}
		return fmt.Sprintf("%s(%s)", t, strings.Join(p, ", "))
	}
	return one(t.s)
}

// litValue canonicalises an integer literal (decimal or hex, i/u suffix).
func litValue(l string) string {
	t := strings.TrimRight(l, "iu")
	var v int64
	if _, err := fmt.Sscanf(t, "%v", &v); err != nil {
		return l
	}
	return fmt.Sprint(uint32(v))
}

// ---------------------------------------------------------------- scope

func (g *gen) push() { g.scopes = append(g.scopes, nil) }
func (g *gen) pop()  { g.scopes = g.scopes[:len(g.scopes)-1] }
func (g *gen) declare(v scopeVar) {
	g.scopes[len(g.scopes)-1] = append(g.scopes[len(g.scopes)-1], v)
}

func (g *gen) varsOf(t *wty, mutableOnly bool) []scopeVar {
	var out []scopeVar
	for _, sc := range g.scopes {
		for _, v := range sc {
			if v.ty.eq(t) && (!mutableOnly || v.mutable) {
				out = append(out, v)
			}
		}
	}
	return out
}

func (g *gen) placesOf(t *wty, writableOnly bool) []place {
	var out []place
	for _, p := range g.places {
		if p.atomic {
			continue
		}
		if p.ty.eq(t) && (!writableOnly || p.writable) {
			out = append(out, p)
		}
	}
	return out
}

// runtimeLeaf: an expression of type t that is certainly not a constant
// expression (built on the per-function runtime seeds rf / ri / ru / rb).
func (g *gen) runtimeLeaf(t *wty) string {
	sc := map[sk]string{kF32: "rf", kI32: "ri", kU32: "ru", kBool: "rb"}
	switch t.k {
	case tScalar:
		return sc[t.s]
	case tVec:
		return fmt.Sprintf("%s(%s)", t, sc[t.s])
	case tMat:
		var p []string
		for i := 0; i < t.n; i++ {
			p = append(p, fmt.Sprintf("vec%d<f32>(rf)", t.r))
		}
		return fmt.Sprintf("%s(%s)", t, strings.Join(p, ", "))
	}
	return "ru"
}

// ---------------------------------------------------------------- expressions

// leaf returns an expression of type t without operators.
func (g *gen) leaf(t *wty) (string, bool) {
	vars := g.varsOf(t, false)
	places := g.placesOf(t, false)
	if g.av["dxil-buffer-access-chain"] {
		// buffer members are only read as a whole into a let (stmt "bufread")
		var np []place
		for _, p := range places {
			if p.res < 0 {
				np = append(np, p)
			}
		}
		places = np
	}
	c := g.n(0, 9)
	switch {
	case c < 5 && len(vars) > 0:
		v := vars[g.n(0, len(vars)-1)]
		return v.name, v.isConst
	case c < 7 && len(places) > 0:
		return places[g.n(0, len(places)-1)].expr(g), false
	case c < 8:
		return g.runtimeLeaf(t), false
	}
	return g.literal(t, false), true
}

var swz = "xyzw"

func (g *gen) expr(t *wty, d int) (string, bool) {
	if d <= 0 || g.chance(15) {
		return g.leaf(t)
	}
	rt := func(s string, c bool, ty *wty) string {
		// force a non-constant operand
		if c {
			return g.runtimeLeaf(ty)
		}
		return s
	}
	switch t.k {
	case tScalar:
		switch t.s {
		case kBool:
			switch g.n(0, 7) {
			case 0, 1, 2: // comparison of numeric scalars
				ot := scalar([]sk{kF32, kI32, kU32}[g.n(0, 2)])
				a, _ := g.expr(ot, d-1)
				b, _ := g.expr(ot, d-1)
				op := []string{"<", "<=", ">", ">=", "==", "!="}[g.n(0, 5)]
				return fmt.Sprintf("(%s %s %s)", a, op, b), false
			case 3:
				a, ca := g.expr(t, d-1)
				b, cb := g.expr(t, d-1)
				op := []string{"&&", "||", "==", "!=", "&", "|"}[g.n(0, 5)]
				if g.av["dxil-bool-shortcircuit"] && len(op) == 2 && op[0] == op[1] && op != "==" {
					op = op[:1]
				}
				return fmt.Sprintf("(%s %s %s)", a, op, b), ca && cb
			case 4:
				a, ca := g.expr(t, d-1)
				return fmt.Sprintf("(!%s)", a), ca
			case 5: // all / any
				vt := vec(g.n(2, 4), kBool)
				a, _ := g.expr(vt, d-1)
				return fmt.Sprintf("%s(%s)", []string{"all", "any"}[g.n(0, 1)], a), false
			case 6: // component of a bool vector
				n := g.n(2, 4)
				a, ca := g.expr(vec(n, kBool), d-1)
				return fmt.Sprintf("(%s).%c", a, swz[g.n(0, n-1)]), ca
			default:
				return g.callOrLeaf(t, d)
			}
		default:
			return g.numeric(t, d)
		}
	case tVec:
		if t.s == kBool {
			switch g.n(0, 4) {
			case 0, 1:
				ot := vec(t.n, []sk{kF32, kI32, kU32}[g.n(0, 2)])
				a, _ := g.expr(ot, d-1)
				b, _ := g.expr(ot, d-1)
				op := []string{"<", "<=", ">", ">=", "==", "!="}[g.n(0, 5)]
				return fmt.Sprintf("(%s %s %s)", a, op, b), false
			case 2:
				var p []string
				all := true
				for i := 0; i < t.n; i++ {
					e, c := g.expr(scalar(kBool), d-1)
					all = all && c
					p = append(p, e)
				}
				return fmt.Sprintf("%s(%s)", t, strings.Join(p, ", ")), all
			case 3:
				if g.av["dxil-vector-unary-ops"] {
					return g.leaf(t)
				}
				a, ca := g.expr(t, d-1)
				return fmt.Sprintf("(!%s)", a), ca
			default:
				return g.leaf(t)
			}
		}
		return g.numeric(t, d)
	case tMat:
		switch g.n(0, 6) {
		case 0: // columns
			var p []string
			all := true
			for i := 0; i < t.n; i++ {
				e, c := g.expr(vec(t.r, kF32), d-1)
				all = all && c
				p = append(p, e)
			}
			return fmt.Sprintf("%s(%s)", t, strings.Join(p, ", ")), all
		case 1: // mat +/- mat
			a, ca := g.expr(t, d-1)
			b, cb := g.expr(t, d-1)
			b = rt(b, ca && cb, t)
			return fmt.Sprintf("(%s %s %s)", a, []string{"+", "-"}[g.n(0, 1)], b), false
		case 2: // mat * scalar
			a, ca := g.expr(t, d-1)
			b, cb := g.expr(scalar(kF32), d-1)
			b = rt(b, ca && cb, scalar(kF32))
			if g.chance(50) {
				return fmt.Sprintf("(%s * %s)", a, b), false
			}
			return fmt.Sprintf("(%s * %s)", b, a), false
		case 3: // transpose
			a, ca := g.expr(mat(t.r, t.n), d-1)
			a = rt(a, ca, mat(t.r, t.n))
			g.use("transpose")
			return fmt.Sprintf("transpose(%s)", a), false
		case 4: // mat * mat: (KxR) * (CxK) -> CxR
			k := g.n(2, 4)
			a, _ := g.expr(mat(k, t.r), d-1)
			b, cb := g.expr(mat(t.n, k), d-1)
			b = rt(b, cb, mat(t.n, k))
			g.use("matmul")
			return fmt.Sprintf("(%s * %s)", a, b), false
		default:
			return g.leaf(t)
		}
	}
	return g.leaf(t)
}

func (g *gen) callOrLeaf(t *wty, d int) (string, bool) {
	var cands []helper
	for _, h := range g.helpers {
		if h.ret.eq(t) {
			cands = append(cands, h)
		}
	}
	if len(cands) == 0 || g.fnDepth > 0 && g.chance(50) {
		return g.leaf(t)
	}
	h := cands[g.n(0, len(cands)-1)]
	args := []string{"ru"}
	for _, p := range h.params {
		a, _ := g.expr(p, d-1)
		args = append(args, a)
	}
	g.use("call")
	return fmt.Sprintf("%s(%s)", h.name, strings.Join(args, ", ")), false
}

// numeric generates scalar or vector expressions of f32 / i32 / u32.
func (g *gen) numeric(t *wty, d int) (string, bool) {
	isF := t.s == kF32
	sc := scalar(t.s)
	rt := func(s string, c bool, ty *wty) string {
		if c {
			return g.runtimeLeaf(ty)
		}
		return s
	}
	c := g.n(0, 19)
	switch {
	case c < 5: // + - *
		a, ca := g.expr(t, d-1)
		bt := t
		if t.k == tVec && g.chance(25) {
			bt = sc // vector op scalar
		}
		b, cb := g.expr(bt, d-1)
		b = rt(b, ca && cb, bt)
		op := []string{"+", "-", "*"}[g.n(0, 2)]
		if bt != t && g.chance(50) {
			return fmt.Sprintf("(%s %s %s)", b, op, a), false
		}
		return fmt.Sprintf("(%s %s %s)", a, op, b), false
	case c < 7: // / %
		a, _ := g.expr(t, d-1)
		b, cb := g.expr(t, d-1)
		op := []string{"/", "%"}[g.n(0, 1)]
		if op == "%" && t.k == tVec && t.s == kU32 && g.av["dxil-uvec-rem"] {
			op = "/"
		}
		if cb {
			b = g.nonZeroLit(t)
		} else if !isF {
			one := "1u"
			if t.s == kI32 {
				one = "1i"
			}
			if t.k == tVec {
				one = fmt.Sprintf("%s(%s)", t, one)
			}
			b = fmt.Sprintf("(%s | %s)", b, one)
		}
		g.use("div")
		return fmt.Sprintf("(%s %s %s)", a, op, b), false
	case c < 8: // unary minus / bit not
		if t.k == tVec && g.av["dxil-vector-unary-ops"] {
			return g.leaf(t)
		}
		a, ca := g.expr(t, d-1)
		if t.s == kU32 {
			return fmt.Sprintf("(~%s)", a), ca
		}
		a = rt(a, ca, t)
		return fmt.Sprintf("(-%s)", a), false
	case c < 10: // bitwise (ints) / min max (floats)
		a, ca := g.expr(t, d-1)
		b, cb := g.expr(t, d-1)
		if isF {
			b = rt(b, ca && cb, t)
			return fmt.Sprintf("%s(%s, %s)", []string{"min", "max"}[g.n(0, 1)], a, b), false
		}
		return fmt.Sprintf("(%s %s %s)", a, []string{"&", "|", "^"}[g.n(0, 2)], b), ca && cb
	case c < 11: // shifts (ints) / math (floats)
		if isF {
			a, ca := g.expr(t, d-1)
			a = rt(a, ca, t)
			f := []string{"abs", "floor", "ceil", "fract", "sin", "cos", "exp2", "sqrt", "trunc", "round", "sign", "saturate", "inverseSqrt", "log2", "tanh"}[g.n(0, 14)]
			if f == "sign" && t.k == tVec && g.av["dxil-vector-unary-ops"] {
				f = "abs"
			}
			g.use("math:" + f)
			if f == "sqrt" || f == "inverseSqrt" || f == "log2" {
				return fmt.Sprintf("%s(abs(%s) + 1.0)", f, a), false
			}
			return fmt.Sprintf("%s(%s)", f, a), false
		}
		a, _ := g.expr(t, d-1)
		bt := scalar(kU32)
		if t.k == tVec {
			bt = vec(t.n, kU32)
		}
		b, _ := g.expr(bt, d-1)
		m := "31u"
		if t.k == tVec {
			m = fmt.Sprintf("%s(31u)", bt)
		}
		g.use("shift")
		a = rt(a, true, t) // keep the shifted value out of constant evaluation
		return fmt.Sprintf("(%s %s (%s & %s))", a, []string{"<<", ">>"}[g.n(0, 1)], b, m), false
	case c < 12: // clamp / mix / select
		a, ca := g.expr(t, d-1)
		a = rt(a, ca, t)
		b, _ := g.expr(t, d-1)
		switch g.n(0, 2) {
		case 0:
			return fmt.Sprintf("clamp(%s, min(%s, %s), max(%s, %s))", a, b, a, b, a), false
		case 1:
			if isF {
				w, _ := g.expr(t, d-1)
				return fmt.Sprintf("mix(%s, %s, %s)", a, b, w), false
			}
			fallthrough
		default:
			ct := scalar(kBool)
			if t.k == tVec && g.chance(50) {
				ct = vec(t.n, kBool)
			}
			cnd, _ := g.expr(ct, d-1)
			g.use("select")
			return fmt.Sprintf("select(%s, %s, %s)", a, b, cnd), false
		}
	case c < 13: // conversion from another numeric kind
		os := []sk{kF32, kI32, kU32, kBool}[g.n(0, 3)]
		if os == t.s {
			os = (os + 1) % 3
		}
		ot := scalar(os)
		if t.k == tVec {
			ot = vec(t.n, os)
		}
		a, ca := g.expr(ot, d-1)
		a = rt(a, ca, ot)
		if os != kBool && g.chance(30) {
			g.use("bitcast")
			return fmt.Sprintf("bitcast<%s>(%s)", t, a), false
		}
		g.use("convert")
		return fmt.Sprintf("%s(%s)", t, a), false
	case c < 15: // vector specific: construct, swizzle, dot, component
		if t.k == tVec {
			switch g.n(0, 3) {
			case 0:
				var p []string
				all := true
				left := t.n
				for left > 0 {
					k := 1
					if left >= 2 && g.chance(30) {
						k = g.n(2, left)
					}
					pt := sc
					if k > 1 {
						pt = vec(k, t.s)
					}
					e, cc := g.expr(pt, d-1)
					all = all && cc
					p = append(p, e)
					left -= k
				}
				if len(p) == 1 { // a single vector argument of the full size
					return p[0], all
				}
				return fmt.Sprintf("%s(%s)", t, strings.Join(p, ", ")), all
			case 1:
				sn := g.n(2, 4)
				a, ca := g.expr(vec(sn, t.s), d-1)
				var s []byte
				for i := 0; i < t.n; i++ {
					s = append(s, swz[g.n(0, sn-1)])
				}
				g.use("swizzle")
				return fmt.Sprintf("(%s).%s", a, s), ca
			case 2:
				if isF { // matrix * vector
					k := g.n(2, 4)
					m, _ := g.expr(mat(k, t.n), d-1)
					v, cv := g.expr(vec(k, kF32), d-1)
					v = rt(v, cv, vec(k, kF32))
					g.use("matvec")
					return fmt.Sprintf("(%s * %s)", m, v), false
				}
				fallthrough
			default:
				if isF && g.chance(50) { // matrix column
					k := g.n(2, 4)
					m, cm := g.expr(mat(k, t.n), d-1)
					if g.chance(50) && !g.av["dxil-matrix-dynamic-column"] {
						i, _ := g.expr(scalar(kU32), d-1)
						m = rt(m, cm, mat(k, t.n))
						g.use("matcol-dyn")
						return fmt.Sprintf("(%s)[(%s) %% %du]", m, i, k), false
					}
					return fmt.Sprintf("(%s)[%d]", m, g.n(0, k-1)), cm
				}
				a, ca := g.expr(t, d-1)
				a = rt(a, ca, t)
				return fmt.Sprintf("abs(%s)", a), false
			}
		}
		// scalar from vector
		n := g.n(2, 4)
		vt := vec(n, t.s)
		switch g.n(0, 3) {
		case 0:
			a, ca := g.expr(vt, d-1)
			return fmt.Sprintf("(%s).%c", a, swz[g.n(0, n-1)]), ca
		case 1:
			a, ca := g.expr(vt, d-1)
			b, _ := g.expr(vt, d-1)
			a = rt(a, ca, vt)
			g.use("dot")
			return fmt.Sprintf("dot(%s, %s)", a, b), false
		case 2:
			a, ca := g.expr(vt, d-1)
			i, _ := g.expr(scalar(kU32), d-1)
			a = rt(a, ca, vt)
			g.use("vec-dyn-index")
			return fmt.Sprintf("(%s)[(%s) %% %du]", a, i, n), false
		default:
			if isF {
				a, ca := g.expr(vt, d-1)
				a = rt(a, ca, vt)
				g.use("length")
				return fmt.Sprintf("length(%s)", a), false
			}
			a, ca := g.expr(t, d-1)
			a = rt(a, ca, t)
			f := []string{"countOneBits", "reverseBits", "abs", "firstLeadingBit", "firstTrailingBit", "countLeadingZeros"}[g.n(0, 5)]
			if f == "countLeadingZeros" && t.k == tVec && g.av["dxil-vector-unary-ops"] {
				f = "countOneBits"
			}
			g.use("bits:" + f)
			return fmt.Sprintf("%s(%s)", f, a), false
		}
	case c < 17:
		return g.callOrLeaf(t, d)
	case c < 18 && t.k == tScalar && t.s == kU32: // atomics / arrayLength
		var ats []place
		for _, p := range g.places {
			if p.atomic && p.writable {
				ats = append(ats, p)
			}
		}
		if len(ats) > 0 && !g.inHelper {
			p := ats[g.n(0, len(ats)-1)]
			v, _ := g.expr(t, d-1)
			f := []string{"atomicAdd", "atomicMax", "atomicOr", "atomicExchange", "atomicLoad"}[g.n(0, 4)]
			g.use("atomic-op")
			if f == "atomicLoad" {
				return fmt.Sprintf("atomicLoad(&%s)", p.expr(g)), false
			}
			return fmt.Sprintf("%s(&%s, %s)", f, p.expr(g), v), false
		}
		return g.leaf(t)
	}
	return g.leaf(t)
}

// toU32 folds an expression of type t into a u32 (keeps values alive).
func toU32(e string, t *wty) string {
	switch t.k {
	case tScalar:
		switch t.s {
		case kF32:
			return fmt.Sprintf("bitcast<u32>(%s)", e)
		case kI32:
			return fmt.Sprintf("u32(%s)", e)
		case kU32:
			return e
		default:
			return fmt.Sprintf("select(0u, 1u, %s)", e)
		}
	case tVec:
		var p []string
		for i := 0; i < t.n; i++ {
			p = append(p, toU32(fmt.Sprintf("%s.%c", e, swz[i]), scalar(t.s)))
		}
		return "(" + strings.Join(p, " ^ ") + ")"
	case tMat:
		var p []string
		for i := 0; i < t.n; i++ {
			p = append(p, toU32(fmt.Sprintf("%s[%d].%c", e, i, swz[i%t.r]), scalar(kF32)))
		}
		return "(" + strings.Join(p, " + ") + ")"
	}
	return "0u"
}

// fromU32 builds an expression of numeric type t from a u32 expression.
func fromU32(e string, t *wty) string {
	switch t.k {
	case tScalar:
		switch t.s {
		case kF32:
			return fmt.Sprintf("f32((%s) & 1023u)", e)
		case kI32:
			return fmt.Sprintf("i32(%s)", e)
		case kU32:
			return e
		default:
			return fmt.Sprintf("(((%s) & 1u) == 1u)", e)
		}
	case tVec:
		return fmt.Sprintf("%s(%s)", t, fromU32(e, scalar(t.s)))
	case tMat:
		var p []string
		for i := 0; i < t.n; i++ {
			p = append(p, fmt.Sprintf("vec%d<f32>(%s)", t.r, fromU32(e, scalar(kF32))))
		}
		return fmt.Sprintf("%s(%s)", t, strings.Join(p, ", "))
	}
	return e
}

// bufRead emits "let x: T = <buffer member>;" for a random resource place.
func (g *gen) bufRead(in string, w *strings.Builder) bool {
	var ps []place
	for _, p := range g.places {
		if p.res >= 0 && !p.atomic {
			ps = append(ps, p)
		}
	}
	if len(ps) == 0 {
		return false
	}
	p := ps[g.n(0, len(ps)-1)]
	name := g.fresh("b")
	fmt.Fprintf(w, "%slet %s: %s = %s;\n", in, name, p.ty, p.expr(g))
	g.declare(scopeVar{name: name, ty: p.ty})
	g.use("buffer-read")
	return true
}

// ---------------------------------------------------------------- statements

func (g *gen) ind(level int) string { return strings.Repeat("  ", level) }

func (g *gen) block(level int, w *strings.Builder) {
	g.push()
	n := g.n(1, 5)
	for i := 0; i < n && g.budget > 0; i++ {
		g.stmt(level, w)
	}
	// keep block-local values alive
	for _, v := range g.scopes[len(g.scopes)-1] {
		if v.ty.isValueType() && g.chance(70) {
			fmt.Fprintf(w, "%sacc = acc ^ %s;\n", g.ind(level), toU32(v.name, v.ty))
		}
	}
	g.pop()
}

func (g *gen) stmt(level int, w *strings.Builder) {
	g.budget--
	in := g.ind(level)
	d := g.n(1, g.maxDepth)
	c := g.n(0, 99)
	nest := level < 7
	switch {
	case c < 8 && g.bufRead(in, w): // whole-member read of a buffer into a let
	case c < 22: // let
		t := g.valueType(true, true)
		e, _ := g.expr(t, d)
		name := g.fresh("l")
		fmt.Fprintf(w, "%slet %s: %s = %s;\n", in, name, t, e)
		g.declare(scopeVar{name: name, ty: t})
	case c < 36: // var
		t := g.valueType(!g.av["dxil-bool-var"], !g.av["dxil-local-matrix-var"])
		name := g.fresh("v")
		if g.chance(15) && !g.avoidFatal {
			fmt.Fprintf(w, "%svar %s: %s;\n", in, name, t)
		} else {
			e, _ := g.expr(t, d)
			fmt.Fprintf(w, "%svar %s: %s = %s;\n", in, name, t, e)
		}
		g.declare(scopeVar{name: name, ty: t, mutable: true})
	case c < 50: // assignment to a local var
		var muts []scopeVar
		for _, sc := range g.scopes {
			for _, v := range sc {
				if v.mutable && v.name != "acc" {
					muts = append(muts, v)
				}
			}
		}
		if len(muts) == 0 {
			fmt.Fprintf(w, "%sacc = acc + %du;\n", in, g.n(1, 1000))
			return
		}
		v := muts[g.n(0, len(muts)-1)]
		e, _ := g.expr(v.ty, d)
		switch {
		case v.ty.isNumeric() && g.chance(30):
			op := []string{"+=", "-=", "*="}[g.n(0, 2)]
			fmt.Fprintf(w, "%s%s %s %s;\n", in, v.name, op, e)
			g.use("compound-assign")
		case v.ty.k == tVec && g.chance(30):
			ce, _ := g.expr(scalar(v.ty.s), d-1)
			fmt.Fprintf(w, "%s%s.%c = %s;\n", in, v.name, swz[g.n(0, v.ty.n-1)], ce)
			g.use("component-store")
		case v.ty.k == tMat && g.chance(30):
			ce, _ := g.expr(vec(v.ty.r, kF32), d-1)
			fmt.Fprintf(w, "%s%s[%d] = %s;\n", in, v.name, g.n(0, v.ty.n-1), ce)
			g.use("column-store")
		default:
			fmt.Fprintf(w, "%s%s = %s;\n", in, v.name, e)
		}
	case c < 60: // store to a writable place
		var ws []place
		for _, p := range g.places {
			if p.writable && !p.atomic {
				ws = append(ws, p)
			}
		}
		if len(ws) == 0 {
			fmt.Fprintf(w, "%sacc = acc * 3u + %du;\n", in, g.n(1, 1000))
			return
		}
		p := ws[g.n(0, len(ws)-1)]
		e, _ := g.expr(p.ty, d)
		target := p.expr(g)
		if p.ty.k == tVec && g.chance(20) && !(p.res >= 0 && g.av["dxil-buffer-access-chain"]) && !g.av["dxil-place-component-store"] {
			ce, _ := g.expr(scalar(p.ty.s), d-1)
			fmt.Fprintf(w, "%s%s.%c = %s;\n", in, target, swz[g.n(0, p.ty.n-1)], ce)
			g.use("buffer-component-store")
			return
		}
		fmt.Fprintf(w, "%s%s = %s;\n", in, target, e)
		g.use("buffer-store")
	case c < 72 && nest: // if / else
		cnd, _ := g.expr(scalar(kBool), d)
		fmt.Fprintf(w, "%sif (%s) {\n", in, cnd)
		g.block(level+1, w)
		if g.chance(50) {
			if g.chance(25) {
				c2, _ := g.expr(scalar(kBool), d)
				fmt.Fprintf(w, "%s} else if (%s) {\n", in, c2)
				g.block(level+1, w)
			}
			fmt.Fprintf(w, "%s} else {\n", in)
			g.block(level+1, w)
		}
		fmt.Fprintf(w, "%s}\n", in)
		g.use("if")
	case c < 79 && nest: // switch
		st := scalar([]sk{kI32, kU32}[g.n(0, 1)])
		sel, _ := g.expr(st, d)
		fmt.Fprintf(w, "%sswitch (%s) {\n", in, sel)
		used := map[string]bool{}
		ncase := g.n(1, 5)
		if g.chance(10) {
			ncase = g.n(5, 24)
		}
		defAt := g.n(0, ncase)
		for i := 0; i <= ncase; i++ {
			if i == defAt {
				fmt.Fprintf(w, "%s  default: {\n", in)
			} else {
				var sels []string
				for k := g.n(1, 3); k > 0; k-- {
					l := g.intLit(st.s, false)
					l = strings.Trim(l, "()")
					if strings.Contains(l, " ") {
						continue
					}
					key := litValue(l)
					if used[key] {
						continue
					}
					used[key] = true
					sels = append(sels, l)
				}
				if len(sels) == 0 {
					continue
				}
				fmt.Fprintf(w, "%s  case %s: {\n", in, strings.Join(sels, ", "))
			}
			g.inSwitch++
			g.block(level+2, w)
			g.inSwitch--
			fmt.Fprintf(w, "%s  }\n", in)
		}
		fmt.Fprintf(w, "%s}\n", in)
		g.use("switch")
	case c < 90 && nest: // loops
		cnt := g.fresh("it")
		k := g.n(1, 6)
		saveSw := g.inSwitch
		g.inSwitch = 0
		defer func() { g.inSwitch = saveSw }()
		switch g.n(0, 2) {
		case 0:
			fmt.Fprintf(w, "%sfor (var %s: i32 = 0; %s < %d; %s++) {\n", in, cnt, cnt, k, cnt)
			g.push()
			g.declare(scopeVar{name: cnt, ty: scalar(kI32)})
			g.inLoop++
			g.block(level+1, w)
			g.inLoop--
			g.pop()
			fmt.Fprintf(w, "%s}\n", in)
			g.use("for")
		case 1:
			fmt.Fprintf(w, "%svar %s: u32 = 0u;\n", in, cnt)
			extra, _ := g.expr(scalar(kBool), d)
			and, or := "&&", "||"
			if g.av["dxil-bool-shortcircuit"] {
				and, or = "&", "|"
			}
			fmt.Fprintf(w, "%swhile ((%s < %du) %s (%s %s (%s < 1u))) {\n", in, cnt, k, and, extra, or, cnt)
			fmt.Fprintf(w, "%s  %s = %s + 1u;\n", in, cnt, cnt)
			g.push()
			g.declare(scopeVar{name: cnt, ty: scalar(kU32)})
			g.inLoop++
			g.block(level+1, w)
			g.inLoop--
			g.pop()
			fmt.Fprintf(w, "%s}\n", in)
			g.use("while")
		default:
			fmt.Fprintf(w, "%svar %s: u32 = 0u;\n", in, cnt)
			fmt.Fprintf(w, "%sloop {\n", in)
			fmt.Fprintf(w, "%s  if (%s >= %du) { break; }\n", in, cnt, k)
			g.push()
			g.declare(scopeVar{name: cnt, ty: scalar(kU32)})
			g.inLoop++
			g.block(level+1, w)
			g.inLoop--
			g.pop()
			fmt.Fprintf(w, "%s  continuing {\n%s    %s = %s + 1u;\n", in, in, cnt, cnt)
			if g.chance(30) {
				e, _ := g.expr(scalar(kU32), 1)
				fmt.Fprintf(w, "%s    acc = acc + %s;\n", in, e)
			}
			fmt.Fprintf(w, "%s  }\n%s}\n", in, in)
			g.use("loop")
		}
	case c < 94 && g.inLoop > 0 && g.inSwitch == 0: // break / continue under a condition
		cnd, _ := g.expr(scalar(kBool), d)
		kw := []string{"break", "continue"}[g.n(0, 1)]
		fmt.Fprintf(w, "%sif (%s) { %s; }\n", in, cnd, kw)
		g.use(kw)
	case c < 96 && g.inLoop == 0 && g.inSwitch == 0 && level >= 2 && g.retExpr != nil: // early return
		cnd, _ := g.expr(scalar(kBool), d)
		fmt.Fprintf(w, "%sif (%s) { %s }\n", in, cnd, g.retExpr(g))
		g.use("early-return")
	case c < 97 && g.stage == "fragment" && !g.inHelper && g.allowDiscard:
		cnd, _ := g.expr(scalar(kBool), d)
		fmt.Fprintf(w, "%sif (%s) { discard; }\n", in, cnd)
		g.use("discard")
	case c < 98 && g.stage == "compute" && !g.inHelper && level == 1:
		fmt.Fprintf(w, "%s%s();\n", in, []string{"workgroupBarrier", "storageBarrier"}[g.n(0, 1)])
		g.use("barrier")
	default: // fold something into acc
		t := g.valueType(true, true)
		e, _ := g.expr(t, d)
		name := g.fresh("k")
		fmt.Fprintf(w, "%slet %s: %s = %s;\n%sacc = acc ^ %s;\n", in, name, t, e, in, toU32(name, t))
	}
}
