package c18
import ("testing";"os";"fmt";"strings";"sort";"encoding/json";"regexp";"pgregory.net/rapid";"verif/internal/dxbc";"github.com/gogpu/naga";"github.com/gogpu/naga/dxil";"runtime")
func TestProbe(t *testing.T){
 src,_:=os.ReadFile(os.Getenv("PROBE"))
 for i,prog:=range strings.Split(string(src),"//====") {
  stage:="compute"
  if strings.Contains(prog,"@vertex") {stage="vertex"}
  if strings.Contains(prog,"@fragment") {stage="fragment"}
  c:=testCase{Origin:"probe",WGSL:prog,Entry:"main",Stage:stage,SMMinor:0}
  o:=judge(&c)
  first:=strings.SplitN(strings.TrimSpace(prog),"\n",2)[0]
  if o.container!=nil && o.container.PSV!=nil { fmt.Printf("   psv resources=%d\n",len(o.container.PSV.Resources)) }
  fmt.Printf("#%d %s => class=%s ok=%v bbs=%d insts=%d %s %s\n",i,first,o.class,o.ok,o.blocks,o.insts,strings.ReplaceAll(o.msg,"\n"," | "),o.panicMsg)
 }
}

func TestSurvey(t *testing.T){
 sigs:=map[string]int{}; ex:=map[string]testCase{}
 classes:=map[string]int{}
 rapid.Check(t, func(rt *rapid.T){
   c:=genProgram(rt)
   o:=judge(&c)
   classes[o.class]++
   { f,_:=os.OpenFile("/tmp/c18out/survey.jsonl",os.O_APPEND|os.O_CREATE|os.O_WRONLY,0o644); b,_:=json.Marshal(map[string]any{"features":c.Features,"ok":o.ok,"class":o.class,"msg":o.msg,"stage":c.Stage,"len":len(c.WGSL),"insts":o.insts,"blocks":o.blocks}); f.Write(append(b,'\n')); f.Close() }
   if o.class=="panic" { k:="PANIC "+shortPanic(o.panicMsg); sigs[k]++; if _,ok:=ex[k];!ok||len(c.WGSL)<len(ex[k].WGSL) {ex[k]=c} }
   if strings.HasPrefix(o.class,"error:")||strings.HasPrefix(o.class,"gen-rejected") { k:=o.class; sigs[k]++; if _,ok:=ex[k];!ok||len(c.WGSL)<len(ex[k].WGSL) {ex[k]=c} }
   if !o.ok { for _,l:=range strings.Split(o.msg,"\n") { k:=reNum.ReplaceAllString(reFn.ReplaceAllString(l,"function F:"),"N"); if len(k)>130 {k=k[:130]}; sigs[k]++; if _,ok:=ex[k];!ok||len(c.WGSL)<len(ex[k].WGSL) {ex[k]=c} } }
 })
 os.MkdirAll("/tmp/c18out/survey",0o755)
 var ks []string; for k:=range sigs {ks=append(ks,k)}; sort.Strings(ks)
 for i,k:=range ks { fmt.Printf("%4d  [%d] %s\n",sigs[k],i,k); b,_:=json.MarshalIndent(ex[k],""," "); os.WriteFile(fmt.Sprintf("/tmp/c18out/survey/%d.json",i),b,0o644); os.WriteFile(fmt.Sprintf("/tmp/c18out/survey/%d.wgsl",i),[]byte("// "+k+"\n"+ex[k].WGSL),0o644) }
 fmt.Println(classes)
}

func TestDeterminismProbe(t *testing.T){
 src,_:=os.ReadFile(os.Getenv("PROBE"))
 for i,prog:=range strings.Split(string(src),"//====") {
  stage:="compute"
  if strings.Contains(prog,"@vertex") {stage="vertex"}
  if strings.Contains(prog,"@fragment") {stage="fragment"}
  c:=testCase{Origin:"probe",WGSL:prog,Entry:"main",Stage:stage,SMMinor:0}
  distinct:=map[string]int{}
  var first []byte
  for k:=0;k<40;k++ { m,_:=lower(&c); if m==nil {break}; out,err,_:=compile(m,options(&c)); if err!=nil {fmt.Println(err);break}; distinct[string(out)]++; if first==nil {first=out} else if string(first)!=string(out) && len(distinct)==2 && distinct[string(out)]==1 { cont,_:=dxbcParse(first); c2,_:=dxbcParse(out); d:=20+firstDiff(first[20:],out[20:]); fmt.Println("  first diff at",d,"parts:",partAt(cont,d),partAt(c2,d),len(first),len(out)) } }
  fmt.Printf("#%d %s: %d distinct outputs over 40 runs\n",i,strings.SplitN(strings.TrimSpace(prog),"\n",2)[0],len(distinct))
 }
}
func dxbcParse(b []byte) (*dxbc.Container, error) { return dxbc.ParseContainer(b) }
func partAt(c *dxbc.Container, off int) string { for _,p:=range c.Parts { if off>=int(p.Offset) && off<int(p.Offset)+8+int(p.Size) { return fmt.Sprintf("%s+%d",p.FourCC,off-int(p.Offset)-8) } }; return "header" }

func diffBlocks(path string, a, b *dxbc.Block) bool {
 for i:=0;i<len(a.Items)&&i<len(b.Items);i++ {
  x,y:=a.Items[i],b.Items[i]
  if (x.Block!=nil)!=(y.Block!=nil) { fmt.Println("   shape differs at",path,i); return true }
  if x.Block!=nil { if diffBlocks(fmt.Sprintf("%s/%d[%d]",path,x.Block.ID,i),x.Block,y.Block) {return true}; continue }
  if x.Rec.Code!=y.Rec.Code || fmt.Sprint(x.Rec.Ops)!=fmt.Sprint(y.Rec.Ops) { fmt.Printf("   first differing record at %s item %d: code %d ops %v  VS code %d ops %v\n",path,i,x.Rec.Code,x.Rec.Ops,y.Rec.Code,y.Rec.Ops); return true }
 }
 if len(a.Items)!=len(b.Items) { fmt.Println("   item count differs at",path); return true }
 return false
}
func TestDiffProbe(t *testing.T){
 src,_:=os.ReadFile(os.Getenv("PROBE"))
 st:="vertex"; if strings.Contains(string(src),"@compute") {st="compute"}
 c:=testCase{Origin:"probe",WGSL:string(src),Entry:"main",Stage:st,SMMinor:0}
 var first []byte
 for k:=0;k<60;k++ { m,_:=lower(&c); out,_,_:=compile(m,options(&c)); if first==nil {first=out;continue}; if string(first)!=string(out) {
   c1,_:=dxbc.ParseContainer(first); c2,_:=dxbc.ParseContainer(out)
   diffBlocks("",c1.Module.Stream.Top[0],c2.Module.Stream.Top[0]); return } }
 fmt.Println("no difference found")
}

var reFn = regexp.MustCompile(`function \S+:`)

func TestWhyRejected(t *testing.T){
 b,_:=os.ReadFile(os.Getenv("PROBE")); var c testCase; json.Unmarshal(b,&c)
 _,err:=naga.Parse(c.WGSL); fmt.Println("parse:",err)
 if err==nil { ast,_:=naga.Parse(c.WGSL); _,err=naga.LowerWithSource(ast,c.WGSL); fmt.Println("lower:",err) }
}

func TestWriteKnown(t *testing.T){
 // KNOWN_SPEC: lines "id|check|stage|entry|file[|corpusname]"
 for _,line:=range strings.Split(strings.TrimSpace(os.Getenv("KNOWN_SPEC")),"\n") {
  f:=strings.Split(line,"|")
  src,err:=os.ReadFile(f[4]); if err!=nil {t.Fatal(err)}
  c:=testCase{Origin:"known",WGSL:string(src),Entry:f[3],Stage:f[2],SMMinor:0}
  if len(f)>5 { c.Origin=f[5] }
  if strings.HasSuffix(f[4],".json") { json.Unmarshal(src,&c) }
  o:=judge(&c)
  fmt.Printf("%s: class=%s ok=%v :: %s\n",f[0],o.class,o.ok,strings.ReplaceAll(o.msg,"\n"," | "))
  if o.ok { t.Errorf("%s does not reproduce",f[0]); continue }
  raw,_:=json.Marshal(c)
  b,_:=json.MarshalIndent(map[string]any{"property":"C18","check":f[1],"message":o.msg,"case":json.RawMessage(raw)},""," ")
  os.WriteFile("/verif/known/"+f[0]+".json",b,0o644)
 }
}

func TestPanicStack(t *testing.T){
 b,_:=os.ReadFile(os.Getenv("PROBE")); var c testCase; json.Unmarshal(b,&c)
 if strings.HasSuffix(os.Getenv("PROBE"),".wgsl") { c=testCase{Origin:"probe",WGSL:string(b),Entry:"main",Stage:"compute"} }
 m,rej:=lower(&c); if m==nil { fmt.Println("rejected",rej); return }
 defer func(){ if r:=recover();r!=nil { fmt.Println("PANIC:",r); buf:=make([]byte,6000); n:=runtime.Stack(buf,false); fmt.Println(string(buf[:n])) } }()
 _,err:=dxil.Compile(m,options(&c)); fmt.Println("err:",err)
}
