package c18
import ("testing";"os";"fmt")
func TestProbe(t *testing.T){
 src,_:=os.ReadFile(os.Getenv("PROBE"))
 c:=testCase{Origin:"probe",WGSL:string(src),Entry:"main",Stage:os.Getenv("PROBE_STAGE"),SMMinor:0}
 o:=judge(&c)
 fmt.Println("class:",o.class,"ok:",o.ok,"blocks",o.blocks,"insts",o.insts); fmt.Println(o.msg); fmt.Println(o.panicMsg)
}
