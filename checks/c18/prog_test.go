package c18

import (
	"fmt"
	"os"
	"sort"
	"strings"

	"pgregory.net/rapid"

	"verif/internal/ev"
)

type bindEntry struct {
	Group    uint32 `json:"group"`
	Binding  uint32 `json:"binding"`
	Space    uint32 `json:"space"`
	Register uint32 `json:"register"`
}

// testCase is the self-contained, serialisable form of one judged case.
type testCase struct {
	Origin   string      `json:"origin"` // "gen" or the corpus file name
	WGSL     string      `json:"wgsl"`
	Entry    string      `json:"entry"`
	Stage    string      `json:"stage"`
	SMMinor  uint32      `json:"sm_minor"`
	Bypass   bool        `json:"bypass"`
	BindMap  []bindEntry `json:"bindmap"`
	Iface    *iface      `json:"iface,omitempty"`
	Features []string    `json:"features,omitempty"`
}

func (g *gen) preamble(w *strings.Builder, seed string) {
	fmt.Fprintf(w, "  let ru: u32 = %s;\n", seed)
	w.WriteString("  let rf: f32 = f32(ru & 255u) * 0.5;\n  let ri: i32 = i32(ru) - 7i;\n  let rb: bool = (ru & 1u) == 0u;\n  var acc: u32 = ru;\n")
	g.declare(scopeVar{name: "ru", ty: scalar(kU32)})
	g.declare(scopeVar{name: "rf", ty: scalar(kF32)})
	g.declare(scopeVar{name: "ri", ty: scalar(kI32)})
	g.declare(scopeVar{name: "rb", ty: scalar(kBool)})
	g.declare(scopeVar{name: "acc", ty: scalar(kU32), mutable: true})
}

func (g *gen) body(w *strings.Builder, stmts int) {
	g.budget = stmts
	for g.budget > 0 {
		g.stmt(1, w)
	}
	// keep function-level values alive
	for _, sc := range g.scopes {
		for _, v := range sc {
			if v.ty.isValueType() && v.name != "acc" && !strings.HasPrefix(v.name, "r") && g.chance(80) {
				fmt.Fprintf(w, "  acc = acc ^ %s;\n", toU32(v.name, v.ty))
			}
		}
	}
}

func (g *gen) genHelper(stmts int) {
	h := helper{name: g.fresh("h"), ret: g.valueType(true, true)}
	np := g.n(0, 4)
	var ps []string
	ps = append(ps, "seed: u32")
	g.push()
	for i := 0; i < np; i++ {
		t := g.valueType(true, true)
		h.params = append(h.params, t)
		n := fmt.Sprintf("p%d", i)
		ps = append(ps, fmt.Sprintf("%s: %s", n, t))
		g.declare(scopeVar{name: n, ty: t})
	}
	var w strings.Builder
	fmt.Fprintf(&w, "fn %s(%s) -> %s {\n", h.name, strings.Join(ps, ", "), h.ret)
	g.inHelper = true
	g.fnDepth = len(g.helpers)
	g.preamble(&w, "seed")
	ret := h.ret
	g.retExpr = func(g *gen) string {
		return fmt.Sprintf("return %s;", fromU32("acc", ret))
	}
	g.body(&w, stmts)
	e, _ := g.expr(h.ret, 2)
	switch {
	case h.ret.isNumeric() && h.ret.k == tScalar:
		fmt.Fprintf(&w, "  return %s + %s;\n}\n", e, fromU32("acc", h.ret))
	case h.ret.s == kBool:
		fmt.Fprintf(&w, "  return %s != %s;\n}\n", e, fromU32("acc", h.ret))
	default:
		fmt.Fprintf(&w, "  return %s + %s;\n}\n", e, fromU32("acc", h.ret))
	}
	g.pop()
	g.inHelper = false
	g.retExpr = nil
	g.sb.WriteString(w.String())
	g.helpers = append(g.helpers, h)
}

func ioType(g *gen) *wty {
	s := []sk{kF32, kF32, kI32, kU32}[g.n(0, 3)]
	if g.chance(30) {
		return scalar(s)
	}
	return vec(g.n(2, 4), s)
}

func ioAttr(e ioElem, interp bool) string {
	if e.Builtin != "" {
		return fmt.Sprintf("@builtin(%s)", e.Builtin)
	}
	a := fmt.Sprintf("@location(%d)", e.Location)
	if interp && e.ty.s != kF32 {
		a += " @interpolate(flat)"
	}
	return a
}

func genProgram(t *rapid.T) testCase {
	g := &gen{t: t, feat: map[string]bool{}}
	g.avoidFatal = os.Getenv("VERIF_NO_EXCLUDE") == ""
	if g.avoidFatal {
		ev.Class("excluded:dxil-selfref-store-overflow(built-in)")
	}
	g.stage = []string{"compute", "vertex", "fragment"}[g.n(0, 2)]
	size := g.n(0, 99)
	stmts := 0
	switch {
	case size < 45:
		stmts = g.n(1, 12)
		g.maxDepth = g.n(1, 3)
	case size < 80:
		stmts = g.n(12, 50)
		g.maxDepth = g.n(2, 4)
	case size < 95:
		stmts = g.n(50, 160)
		g.maxDepth = g.n(2, 4)
	default:
		stmts = g.n(160, 420)
		g.maxDepth = g.n(2, 5)
	}
	g.bigLits = g.chance(60)
	g.allowAtomics = g.chance(25) && !ev.Excluded("dxil-atomics")
	g.allowDiscard = g.chance(30)
	g.av = map[string]bool{}
	for _, tag := range []string{"dxil-buffer-access-chain", "dxil-private-vector", "dxil-local-matrix-var",
		"dxil-bool-shortcircuit", "dxil-workgroup-vector-array", "dxil-vector-unary-ops", "dxil-uvec-rem", "dxil-bool-var", "dxil-num-workgroups-psv", "dxil-matrix-dynamic-column", "dxil-place-component-store"} {
		g.av[tag] = ev.Excluded(tag)
	}
	g.push() // module scope

	// ---- resources
	nres := g.n(0, 4)
	if g.chance(8) {
		nres = g.n(5, 14)
	}
	// plain structs usable as nested members
	for i := g.n(0, 2); i > 0; i-- {
		g.declStruct(false, false, false)
	}
	usedBind := map[[2]int]bool{}
	hasRW := false
	var decls strings.Builder
	for i := 0; i < nres || (g.stage == "compute" && !hasRW); i++ {
		var cls string
		switch g.n(0, 2) {
		case 0:
			cls = "uniform"
		case 1:
			cls = "storage_read"
		default:
			cls = "storage_rw"
		}
		if g.stage == "vertex" && cls == "storage_rw" {
			cls = "storage_read"
		}
		if g.stage == "compute" && !hasRW && i >= nres-1 {
			cls = "storage_rw"
		}
		var gb [2]int
		for {
			gb = [2]int{g.n(0, 3), g.n(0, 9)}
			if !usedBind[gb] {
				break
			}
		}
		usedBind[gb] = true
		name := fmt.Sprintf("res%d", i)
		var ty *wty
		switch {
		case cls == "uniform":
			ty = g.declStruct(true, false, false)
		case g.chance(55):
			ty = g.declStruct(false, true, cls == "storage_rw")
		case g.chance(50):
			ty = arr(g.valueType(false, false), 0)
			g.use("runtime-array")
		default:
			ty = arr(g.valueType(false, true), g.n(1, 8))
		}
		as := map[string]string{"uniform": "uniform", "storage_read": "storage, read", "storage_rw": "storage, read_write"}[cls]
		fmt.Fprintf(&decls, "@group(%d) @binding(%d) var<%s> %s: %s;\n", gb[0], gb[1], as, name, ty)
		g.resources = append(g.resources, resource{Group: gb[0], Binding: gb[1], Class: cls, name: name})
		g.addPlaces(name, ty, cls == "storage_rw", len(g.resources)-1)
		if cls == "storage_rw" {
			hasRW = true
		}
	}
	g.sb.WriteString(decls.String())

	// ---- module constants, private and workgroup variables
	for i := g.n(0, 3); i > 0; i-- {
		t := g.valueType(true, false)
		n := g.fresh("C")
		fmt.Fprintf(&g.sb, "const %s: %s = %s;\n", n, t, g.literal(t, false))
		g.declare(scopeVar{n, t, false, true})
		g.use("module-const")
	}
	for i := g.n(0, 2); i > 0; i-- {
		t := g.valueType(true, true)
		if g.av["dxil-private-vector"] {
			t = scalar(t.s)
		}
		n := g.fresh("pv")
		if g.chance(50) {
			fmt.Fprintf(&g.sb, "var<private> %s: %s = %s;\n", n, t, g.literal(t, false))
		} else {
			fmt.Fprintf(&g.sb, "var<private> %s: %s;\n", n, t)
		}
		g.places = append(g.places, place{expr: func(*gen) string { return n }, ty: t, writable: true, res: -1})
		g.use("private")
	}
	if g.stage == "compute" && g.chance(35) {
		t := arr(g.valueType(false, false), g.n(1, 16))
		if g.av["dxil-workgroup-vector-array"] {
			t.elem = scalar(t.elem.s)
		}
		n := g.fresh("wg")
		fmt.Fprintf(&g.sb, "var<workgroup> %s: %s;\n", n, t)
		g.addPlaces(n, t, true, -1)
		g.use("workgroup")
	}

	// ---- helpers
	nh := g.n(0, 2)
	if stmts > 50 {
		nh = g.n(0, 5)
	}
	for i := 0; i < nh; i++ {
		g.genHelper(g.n(1, 4+stmts/4))
	}

	// ---- entry point
	ifc := &iface{Resources: g.resources}
	var w strings.Builder
	var params []string
	seed := ""
	g.push()
	entry := "main"
	if g.chance(30) {
		entry = []string{"cs_main", "vs_main", "fs_main", "entry_point", "f"}[g.n(0, 4)]
	}
	outName := ""
	switch g.stage {
	case "compute":
		ifc.Workgroup = [3]int{g.n(1, 8), 1, 1}
		if g.chance(50) {
			ifc.Workgroup = [3]int{g.n(1, 16), g.n(1, 8), g.n(1, 4)}
		}
		type bi struct {
			b, n string
			t    *wty
		}
		bis := []bi{{"global_invocation_id", "gid", vec(3, kU32)}, {"local_invocation_id", "lid", vec(3, kU32)},
			{"local_invocation_index", "lidx", scalar(kU32)}, {"workgroup_id", "wid", vec(3, kU32)}, {"num_workgroups", "nwg", vec(3, kU32)}}
		for i, b := range bis {
			if b.b == "num_workgroups" && g.av["dxil-num-workgroups-psv"] {
				continue
			}
			if i == 0 || g.chance(30) {
				params = append(params, fmt.Sprintf("@builtin(%s) %s: %s", b.b, b.n, b.t))
				g.declare(scopeVar{name: b.n, ty: b.t})
				g.use("builtin:" + b.b)
				if b.b == "num_workgroups" {
					ifc.NumWorkgroups = true
				}
			}
		}
		seed = "gid.x"
		switch g.n(0, 2) {
		case 0:
			fmt.Fprintf(&w, "@compute @workgroup_size(%d)\n", ifc.Workgroup[0])
			ifc.Workgroup[1], ifc.Workgroup[2] = 1, 1
		case 1:
			fmt.Fprintf(&w, "@compute @workgroup_size(%d, %d)\n", ifc.Workgroup[0], ifc.Workgroup[1])
			ifc.Workgroup[2] = 1
		default:
			fmt.Fprintf(&w, "@compute @workgroup_size(%d, %d, %d)\n", ifc.Workgroup[0], ifc.Workgroup[1], ifc.Workgroup[2])
		}
		fmt.Fprintf(&w, "fn %s(%s) {\n", entry, strings.Join(params, ", "))
		g.retExpr = func(*gen) string { return "return;" }
	default:
		vertex := g.stage == "vertex"
		// inputs
		nloc := g.n(0, 4)
		if g.chance(10) {
			nloc = g.n(5, 12)
		}
		locs := rapid.Permutation([]int{0, 1, 2, 3, 4, 5, 6, 7, 8, 9, 10, 11, 12, 13, 14, 15}).Draw(t, "locs")
		inLocs := append([]int{}, locs[:nloc]...)
		sort.Ints(inLocs)
		if g.chance(60) { // contiguous from 0
			for i := range inLocs {
				inLocs[i] = i
			}
		}
		var ins []ioElem
		if vertex {
			if g.chance(60) || nloc == 0 {
				ins = append(ins, ioElem{Builtin: "vertex_index", Comps: 1, Scalar: "u32", name: "vi", ty: scalar(kU32)})
			}
			if g.chance(30) {
				ins = append(ins, ioElem{Builtin: "instance_index", Comps: 1, Scalar: "u32", name: "ii", ty: scalar(kU32)})
			}
		} else {
			if g.chance(60) || nloc == 0 {
				ins = append(ins, ioElem{Builtin: "position", Comps: 4, Scalar: "f32", name: "fpos", ty: vec(4, kF32)})
			}
			if g.chance(25) {
				ins = append(ins, ioElem{Builtin: "front_facing", Comps: 1, Scalar: "bool", name: "ff", ty: scalar(kBool)})
			}
		}
		for i, l := range inLocs {
			ty := ioType(g)
			ins = append(ins, ioElem{Location: l, Comps: ty.comps(), Scalar: ty.s.String(), name: fmt.Sprintf("a%d", i), ty: ty})
		}
		if g.chance(50) { // shuffle declaration order a little
			ins = rapid.Permutation(ins).Draw(t, "inorder")
		}
		ifc.Inputs = ins
		useInStruct := len(ins) > 0 && g.chance(40)
		if useInStruct {
			fmt.Fprintf(&g.sb, "struct In_ {\n")
			for _, e := range ins {
				fmt.Fprintf(&g.sb, "  %s %s: %s,\n", ioAttr(e, !vertex), e.name, e.ty)
			}
			g.sb.WriteString("}\n")
			params = append(params, "in_: In_")
			g.use("input-struct")
		}
		for _, e := range ins {
			ref := e.name
			if useInStruct {
				ref = "in_." + e.name
				g.places = append(g.places, place{expr: func(*gen) string { return ref }, ty: e.ty, res: -1})
			} else {
				params = append(params, fmt.Sprintf("%s %s: %s", ioAttr(e, !vertex), e.name, e.ty))
				g.declare(scopeVar{name: e.name, ty: e.ty})
			}
			if seed == "" {
				seed = toU32(ref, e.ty)
			}
			if e.Builtin != "" {
				g.use("builtin:" + e.Builtin)
			}
		}
		// outputs
		var outs []ioElem
		nout := g.n(0, 3)
		if g.chance(8) {
			nout = g.n(4, 8)
		}
		if vertex {
			outs = append(outs, ioElem{Builtin: "position", Comps: 4, Scalar: "f32", name: "pos", ty: vec(4, kF32)})
			if g.chance(10) {
				nout = g.n(4, 14)
			}
		} else if nout == 0 || g.chance(15) {
			if g.chance(50) {
				outs = append(outs, ioElem{Builtin: "frag_depth", Comps: 1, Scalar: "f32", name: "depth", ty: scalar(kF32)})
			} else if nout == 0 {
				nout = 1
			}
		}
		outLocs := append([]int{}, locs[:nout]...)
		if !vertex {
			// fragment outputs: at most 8 render targets
			outLocs = outLocs[:0]
			for _, l := range rapid.Permutation([]int{0, 1, 2, 3, 4, 5, 6, 7}).Draw(t, "targets")[:nout] {
				outLocs = append(outLocs, l)
			}
		}
		sort.Ints(outLocs)
		if g.chance(60) {
			for i := range outLocs {
				outLocs[i] = i
			}
		}
		for i, l := range outLocs {
			ty := ioType(g)
			if !vertex && g.chance(60) {
				ty = vec(4, kF32)
			}
			outs = append(outs, ioElem{Location: l, Comps: ty.comps(), Scalar: ty.s.String(), name: fmt.Sprintf("o%d", i), ty: ty})
		}
		ifc.Outputs = outs
		attr := "@vertex"
		if !vertex {
			attr = "@fragment"
		}
		direct := len(outs) == 1 && g.chance(60)
		if direct {
			fmt.Fprintf(&w, "%s\nfn %s(%s) -> %s %s {\n", attr, entry, strings.Join(params, ", "), ioAttr(outs[0], vertex), outs[0].ty)
			if g.avoidFatal {
				fmt.Fprintf(&w, "  var out_: %s = %s;\n", outs[0].ty, g.literal(outs[0].ty, true))
			} else {
				fmt.Fprintf(&w, "  var out_: %s;\n", outs[0].ty)
			}
			g.declare(scopeVar{name: "out_", ty: outs[0].ty, mutable: true})
		} else {
			fmt.Fprintf(&g.sb, "struct Out_ {\n")
			for _, e := range outs {
				fmt.Fprintf(&g.sb, "  %s %s: %s,\n", ioAttr(e, vertex), e.name, e.ty)
			}
			g.sb.WriteString("}\n")
			fmt.Fprintf(&w, "%s\nfn %s(%s) -> Out_ {\n", attr, entry, strings.Join(params, ", "))
			w.WriteString("  var out_: Out_;\n")
			if g.avoidFatal {
				for _, e := range outs {
					fmt.Fprintf(&w, "  out_.%s = %s;\n", e.name, g.literal(e.ty, true))
				}
			}
			for _, e := range outs {
				n, ty := "out_."+e.name, e.ty
				g.places = append(g.places, place{expr: func(*gen) string { return n }, ty: ty, writable: true, res: -1})
			}
			outName = "struct"
		}
		g.retExpr = func(*gen) string { return "return out_;" }
		_ = outName
	}
	g.preamble(&w, seed)
	g.fnDepth = 0
	g.body(&w, stmts)

	// ---- sink: every resource feeds acc, acc feeds an observable output
	ifc.AllResourcesUsed = true
	for ri := range g.resources {
		var ps []place
		for _, p := range g.places {
			if p.res == ri && !p.atomic {
				ps = append(ps, p)
			}
		}
		if len(ps) == 0 {
			ifc.AllResourcesUsed = false
			continue
		}
		p := ps[g.n(0, len(ps)-1)]
		sn := g.fresh("s")
		fmt.Fprintf(&w, "  let %s: %s = %s;\n  acc = acc ^ %s;\n", sn, p.ty, p.expr(g), toU32(sn, p.ty))
	}
	switch g.stage {
	case "compute":
		var ws []place
		for _, p := range g.places {
			if p.writable && p.res >= 0 && !p.atomic {
				ws = append(ws, p)
			}
		}
		if len(ws) == 0 {
			ifc.AllResourcesUsed = false
		} else {
			p := ws[g.n(0, len(ws)-1)]
			fmt.Fprintf(&w, "  %s = %s;\n", p.expr(g), fromU32("acc", p.ty))
		}
		w.WriteString("}\n")
	default:
		outs := ifc.Outputs
		direct := outName == ""
		for i, e := range outs {
			target := "out_." + e.name
			if direct {
				target = "out_"
			}
			ex, _ := g.expr(e.ty, 2)
			if i == len(outs)-1 || g.chance(30) {
				if e.Builtin == "frag_depth" {
					fmt.Fprintf(&w, "  %s = clamp(%s + %s, 0.0, 1.0);\n", target, ex, fromU32("acc", e.ty))
				} else {
					fmt.Fprintf(&w, "  %s = %s + %s;\n", target, ex, fromU32("acc", e.ty))
				}
			} else if g.chance(70) {
				fmt.Fprintf(&w, "  %s = %s;\n", target, ex)
			}
		}
		w.WriteString("  return out_;\n}\n")
	}
	g.pop()
	g.sb.WriteString(w.String())

	c := testCase{Origin: "gen", WGSL: g.sb.String(), Entry: entry, Stage: g.stage, Iface: ifc}
	for f := range g.feat {
		c.Features = append(c.Features, f)
	}
	sort.Strings(c.Features)
	c.SMMinor = uint32(g.n(0, 6))
	c.Bypass = g.chance(50)
	c.BindMap = genBindMap(t, g.resources)
	return c
}

// genBindMap draws an injective map from the resources' (group, binding) to
// (space, register); sometimes empty, sometimes partial.
func genBindMap(t *rapid.T, res []resource) []bindEntry {
	mode := rapid.IntRange(0, 3).Draw(t, "bindmode")
	if mode == 0 || len(res) == 0 {
		return nil
	}
	used := map[[2]uint32]bool{}
	// unmapped resources keep their raw numbers: stay clear of those
	for _, r := range res {
		used[[2]uint32{uint32(r.Group), uint32(r.Binding)}] = true
	}
	var out []bindEntry
	for _, r := range res {
		if mode == 1 && rapid.IntRange(0, 1).Draw(t, "mapped") == 0 {
			continue
		}
		var tgt [2]uint32
		for {
			tgt = [2]uint32{uint32(rapid.IntRange(0, 5).Draw(t, "space")), uint32(rapid.IntRange(0, 40).Draw(t, "register"))}
			if mode == 3 && rapid.IntRange(0, 9).Draw(t, "bigreg") == 0 {
				tgt[1] = uint32(rapid.IntRange(41, 100000).Draw(t, "register"))
			}
			if !used[tgt] {
				break
			}
		}
		used[tgt] = true
		out = append(out, bindEntry{uint32(r.Group), uint32(r.Binding), tgt[0], tgt[1]})
	}
	return out
}
