// Package c01 checks property C01: the SPIR-V naga emits computes what the
// WGSL program means.
package c01

import (
	"strconv"
	"testing"

	"pgregory.net/rapid"

	"verif/internal/ev"
	"verif/internal/execcheck"
	"verif/internal/xrun"
)

func TestMain(m *testing.M) { ev.Main(m, "C01") }

var versions = []string{"1.0", "1.1", "1.2", "1.3", "1.4", "1.5", "1.6"}

var cfg = &execcheck.Config{
	Check:  "spirv-exec",
	Prefix: "spv.",
	Run:    xrun.RunSPIRV,
	DrawOpts: func(t *rapid.T) map[string]string {
		o := map[string]string{
			"version":   versions[rapid.IntRange(0, len(versions)-1).Draw(t, "version")],
			"debug":     strconv.Itoa(rapid.IntRange(0, 1).Draw(t, "debug")),
			"loopbound": strconv.Itoa(rapid.IntRange(0, 1).Draw(t, "loopbound")),
		}
		if rapid.IntRange(0, 5).Draw(t, "api") == 0 {
			o["api"] = "compile"
		}
		return o
	},
}

var judges = map[string]ev.Judge{"spirv-exec": cfg.Judge}

func TestKnown(t *testing.T)  { ev.RunKnown(t, "C01", judges) }
func TestReplay(t *testing.T) { ev.RunReplay(t, judges) }

func TestPropExec(t *testing.T) {
	ev.Rule("exec-profile WGSL compute programs (own AST, valid by construction: scalars/vectors/matrices/arrays/structs/pointers, helpers, let/var/const, if/switch/loop/for/while/break/continue/return, compound assignment, swizzles, builtins, atomics, workgroup memory + barriers) x boundary-biased buffer contents x spirv options {version 1.0-1.6, debug, loop bounding, one-call Compile API}; oracle: independent WGSL reference evaluator vs independent SPIR-V interpreter on the emitted binary, every non-padding output byte compared (bit-exact; tolerance only for float results WGSL does not determine bit-exactly), no poison, no trap, termination within a step budget derived from the reference; non-trivial = reference run loaded from an input buffer, stored to an output buffer and executed >= 5 dynamic operations of >= 3 classes; distinct = hash(WGSL, inputs, options)")
	ev.Assume("verif/internal/wref implements WGSL evaluation; verif/internal/spv implements SPIR-V execution; both written from the specifications, sharing no code with naga")
	ev.Assume("textures, derivatives, subgroup and ray-query operations are outside the executors")
	cfg.Prop(t)
}
