// Package c01 checks property C01: the SPIR-V naga emits computes what the
// WGSL program means.
package c01

import (
	"encoding/json"
	"fmt"
	"strconv"
	"testing"

	"github.com/gogpu/naga"
	"github.com/gogpu/naga/spirv"
	"pgregory.net/rapid"

	"verif/internal/ev"
	"verif/internal/spv"
	"verif/internal/wgen"
	"verif/internal/wref"
	"verif/internal/xrun"
)

func TestMain(m *testing.M) { ev.Main(m, "C01") }

var judges = map[string]ev.Judge{"spirv-exec": judgeExec}

func TestKnown(t *testing.T)  { ev.RunKnown(t, "C01", judges) }
func TestReplay(t *testing.T) { ev.RunReplay(t, judges) }

// compileSPIRV runs the pipeline under test with the options recorded in the case.
func compileSPIRV(c *xrun.Case) ([]byte, string, error) {
	ver := spirv.Version1_3
	if v, ok := c.Opts["version"]; ok {
		maj, _ := strconv.Atoi(v[:1])
		mnr, _ := strconv.Atoi(v[2:])
		ver = spirv.Version{Major: uint8(maj), Minor: uint8(mnr)}
	}
	if c.Opts["api"] == "compile" {
		b, err := naga.CompileWithOptions(c.WGSL, naga.CompileOptions{SPIRVVersion: ver, Debug: c.Opts["debug"] == "1", Validate: true})
		return b, "compile", err
	}
	ast, err := naga.Parse(c.WGSL)
	if err != nil {
		return nil, "parse", err
	}
	m, err := naga.LowerWithSource(ast, c.WGSL)
	if err != nil {
		return nil, "lower", err
	}
	b, err := naga.GenerateSPIRV(m, spirv.Options{Version: ver, Debug: c.Opts["debug"] == "1", ForceLoopBounding: c.Opts["loopbound"] == "1"})
	return b, "spirv", err
}

// Verdict of one judged case.
type verdict struct {
	ok       bool
	msg      string
	rejected string // naga refused the program (C08's business)
	unsup    string // interpreter does not model something
}

func judge(c *xrun.Case) verdict {
	bin, stage, err := compileSPIRV(c)
	if err != nil {
		return verdict{ok: true, rejected: stage + ": " + err.Error()}
	}
	mod, err := spv.Parse(bin)
	if err != nil {
		return verdict{ok: false, msg: "emitted SPIR-V does not parse: " + err.Error()}
	}
	bufs := map[spv.Key][]byte{}
	init := c.InitialBuffers()
	for k, b := range init {
		bufs[spv.Key{Set: uint32(k[0]), Binding: uint32(k[1])}] = b
	}
	res, err := spv.Run(mod, spv.RunConfig{Entry: c.Entry, Buffers: bufs, NumWorkgroups: c.NumWG, StepLimit: c.StepBudget()})
	if err != nil {
		if err == spv.ErrStepLimit {
			return verdict{ok: false, msg: fmt.Sprintf("emitted SPIR-V does not terminate within %d steps (reference needed %d)", c.StepBudget(), c.RefSteps)}
		}
		return verdict{ok: true, unsup: "interpreter error: " + err.Error()}
	}
	if res.Trap != "" {
		if len(res.Trap) >= 12 && res.Trap[:12] == "unsupported:" {
			return verdict{ok: true, unsup: res.Trap}
		}
		return verdict{ok: false, msg: "executing the emitted SPIR-V traps: " + res.Trap}
	}
	if len(res.Poison) > 0 {
		return verdict{ok: false, msg: "the emitted SPIR-V uses a value the SPIR-V specification leaves undefined: " + res.Poison[0]}
	}
	got := map[[2]int][]byte{}
	for k, b := range bufs {
		got[[2]int{int(k.Set), int(k.Binding)}] = b
	}
	ok, msg := c.Compare(got)
	return verdict{ok: ok, msg: msg}
}

func judgeExec(raw json.RawMessage) (bool, string) {
	var c xrun.Case
	if err := json.Unmarshal(raw, &c); err != nil {
		return false, "bad case: " + err.Error()
	}
	v := judge(&c)
	if v.rejected != "" {
		return true, "rejected: " + v.rejected
	}
	return v.ok, v.msg
}

var versions = []string{"1.0", "1.1", "1.2", "1.3", "1.4", "1.5", "1.6"}

func TestPropExec(t *testing.T) {
	ev.Rule("exec-profile WGSL compute programs (own AST, valid by construction: scalars/vectors/matrices/arrays/structs/pointers, helpers, let/var/const, if/switch/loop/for/while/break/continue/return, compound assignment, swizzles, builtins, atomics, workgroup memory + barriers) x boundary-biased buffer contents x spirv options {version 1.0-1.6, debug, loop bounding, one-call Compile API}; oracle: independent WGSL reference evaluator vs independent SPIR-V interpreter on the emitted binary, every non-padding output byte compared (bit-exact; tolerance only for float results WGSL does not determine bit-exactly), no poison, no trap, termination within a step budget derived from the reference; non-trivial = reference run loaded from an input buffer, stored to an output buffer and executed >= 5 dynamic operations of >= 3 classes; distinct = hash(WGSL, inputs, options)")
	ev.Assume("verif/internal/wref implements WGSL evaluation; verif/internal/spv implements SPIR-V execution; both written from the specifications, sharing no code with naga")
	ev.Assume("textures, derivatives, subgroup and ray-query operations are outside the executors")
	rapid.Check(t, func(t *rapid.T) {
		f := wgen.DefaultFeatures()
		f.ConstOK = wref.ConstOK
		f.Off = func(tag string) bool { return ev.Excluded(tag) || ev.Excluded("spv."+tag) }
		gc := wgen.GenExec(t, f)
		c, res, discard, err := xrun.Build(gc, nil, knownDiscards)
		if err != nil {
			ev.Inconclusive("reference evaluator failed on a generated program: " + err.Error())
			t.Fatalf("harness: %v\n%s", err, gc.Src)
		}
		if discard != "" {
			ev.Class("discard:" + discard)
			ev.Eval(ev.HashS(gc.Src), false)
			return
		}
		c.Opts = map[string]string{
			"version":   versions[rapid.IntRange(0, len(versions)-1).Draw(t, "version")],
			"debug":     strconv.Itoa(rapid.IntRange(0, 1).Draw(t, "debug")),
			"loopbound": strconv.Itoa(rapid.IntRange(0, 1).Draw(t, "loopbound")),
		}
		if rapid.IntRange(0, 5).Draw(t, "api") == 0 {
			c.Opts["api"] = "compile"
		}
		v := judge(c)
		raw, _ := json.Marshal(c.Opts)
		nt := xrun.NonTrivial(res) && v.rejected == "" && v.unsup == ""
		ev.Eval(ev.HashS(c.WGSL, fmt.Sprint(c.Buffers), string(raw)), nt)
		for _, k := range gc.Classes {
			ev.Class("gen:" + k)
		}
		ev.Class("opt:version=" + c.Opts["version"])
		if v.rejected != "" {
			ev.Class("rejected-by-naga")
			return
		}
		if v.unsup != "" {
			ev.Class("unsupported")
			if ev.WantSample("unsupported") {
				ev.Sample("unsupported", map[string]string{"why": v.unsup, "wgsl": c.WGSL})
			}
			return
		}
		if nt && ev.WantSample("exec") {
			ev.Sample("exec", c)
		}
		if !v.ok {
			ev.Fail("spirv-exec", c, v.msg)
			t.Fatalf("%s\n%s", v.msg, c.WGSL)
		}
	})
}

// knownDiscards keeps generated search away from executions that hit the root
// cause of an open known finding (counted as discards).
func knownDiscards(e *wref.Events) string {
	if (e.F2IRange > 0 || e.F2INaN > 0) && ev.Excluded("spv.f2i.out-of-range") {
		return "known:f2i-out-of-range"
	}
	if e.ClampInv > 0 && ev.Excluded("spv.clamp.inverted") {
		return "known:int-clamp-inverted"
	}
	if e.ShiftWide > 0 && ev.Excluded("spv.shift.wide") {
		return "known:shift-amount>=32"
	}
	if e.BitsClamp > 0 && ev.Excluded("spv.bits.out-of-range") {
		return "known:bits-out-of-range"
	}
	return ""
}
