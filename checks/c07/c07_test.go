// Package c07 checks property C07: buffer memory layout is the WGSL layout,
// in the IR and in every backend.
package c07

import (
	"encoding/json"
	"fmt"
	"testing"

	"github.com/gogpu/naga"
	"github.com/gogpu/naga/ir"
	"pgregory.net/rapid"

	"verif/internal/ev"
	"verif/internal/wgen"
)

func TestMain(m *testing.M) { ev.Main(m, "C07") }

var judges = map[string]ev.Judge{
	"ir-layout": judgeIR,
}

func TestKnown(t *testing.T)  { ev.RunKnown(t, "C07", judges) }
func TestReplay(t *testing.T) { ev.RunReplay(t, judges) }

// LayoutCase is the serialised form: the WGSL text plus the expected layout
// computed by the framework's own implementation of the WGSL rules.
type LayoutCase struct {
	WGSL   string       `json:"wgsl"`
	Var    string       `json:"var"`
	Space  string       `json:"space"`
	Expect []ExpectNode `json:"expect"` // flattened expectation, pre-order
}

// ExpectNode is the expected layout of one node of the type tree.
type ExpectNode struct {
	Path   string `json:"path"`
	Kind   string `json:"kind"` // scalar vec mat array struct atomic
	Size   int    `json:"size"` // WGSL SizeOf (0 for runtime arrays)
	Stride int    `json:"stride,omitempty"`
	Offset int    `json:"offset"` // offset within the parent struct (members only; -1 otherwise)
	N      int    `json:"n,omitempty"`
}

func expectOf(t *wgen.Type, path string, off int, out *[]ExpectNode) {
	n := ExpectNode{Path: path, Offset: off}
	switch t.K {
	case wgen.TScalar:
		n.Kind, n.Size = "scalar", wgen.SizeOf(t)
	case wgen.TAtomic:
		n.Kind, n.Size = "atomic", wgen.SizeOf(t)
	case wgen.TVec:
		n.Kind, n.Size = "vec", wgen.SizeOf(t)
	case wgen.TMat:
		n.Kind, n.Size = "mat", wgen.SizeOf(t)
	case wgen.TArray:
		n.Kind, n.Stride, n.N = "array", wgen.StrideOf(t), t.N
		if t.N > 0 {
			n.Size = wgen.SizeOf(t)
		}
		*out = append(*out, n)
		expectOf(t.Elem, path+"[]", -1, out)
		return
	case wgen.TStruct:
		n.Kind, n.Size, n.N = "struct", wgen.SizeOf(t), len(t.St.Members)
		if t.HasRuntimeArray() {
			// span as the IR defines it is checked only for sized structs
			n.Size = -1
		}
		*out = append(*out, n)
		offs := wgen.MemberOffsets(t.St)
		for i, m := range t.St.Members {
			expectOf(m.T, path+"."+m.Name, offs[i], out)
		}
		return
	}
	*out = append(*out, n)
}

func buildCase(c *wgen.TypeCase) *LayoutCase {
	decl := ""
	switch c.Space {
	case "storage":
		decl = "@group(0) @binding(0) var<storage, read_write> v: " + c.T.String() + ";\n"
	case "uniform":
		decl = "@group(0) @binding(0) var<uniform> v: " + c.T.String() + ";\n"
	case "workgroup":
		decl = "var<workgroup> v: " + c.T.String() + ";\n"
	}
	src := c.Enables + c.Decls + decl + "@compute @workgroup_size(1) fn main() { }\n"
	lc := &LayoutCase{WGSL: src, Var: "v", Space: c.Space}
	expectOf(c.T, "v", -1, &lc.Expect)
	return lc
}

// judgeIR lowers the program and compares offsets / spans / strides / sizes
// recorded in the IR with the expectation.
func judgeIR(raw json.RawMessage) (bool, string) {
	var c LayoutCase
	if err := json.Unmarshal(raw, &c); err != nil {
		return false, "bad case: " + err.Error()
	}
	ast, err := naga.Parse(c.WGSL)
	if err != nil {
		return true, "skip: parse: " + err.Error()
	}
	m, err := naga.LowerWithSource(ast, c.WGSL)
	if err != nil {
		return true, "skip: lower: " + err.Error()
	}
	var th ir.TypeHandle
	found := false
	for _, g := range m.GlobalVariables {
		if g.Name == c.Var {
			th, found = g.Type, true
		}
	}
	if !found {
		return false, "global variable not found in lowered module"
	}
	idx := 0
	var walk func(h ir.TypeHandle) string
	walk = func(h ir.TypeHandle) string {
		if idx >= len(c.Expect) {
			return "type tree larger than expected"
		}
		e := c.Expect[idx]
		idx++
		if int(h) >= len(m.Types) {
			return fmt.Sprintf("%s: type handle %d out of range", e.Path, h)
		}
		inner := m.Types[h].Inner
		switch t := inner.(type) {
		case ir.ScalarType, ir.VectorType, ir.MatrixType, ir.AtomicType:
			if got := int(ir.TypeSize(m, h)); got != e.Size {
				return fmt.Sprintf("%s: TypeSize %d, WGSL SizeOf %d", e.Path, got, e.Size)
			}
			kind := map[string]bool{"scalar": true, "vec": true, "mat": true, "atomic": true}
			if !kind[e.Kind] {
				return fmt.Sprintf("%s: IR has %T, expected %s", e.Path, inner, e.Kind)
			}
		case ir.ArrayType:
			if e.Kind != "array" {
				return fmt.Sprintf("%s: IR has array, expected %s", e.Path, e.Kind)
			}
			if int(t.Stride) != e.Stride {
				return fmt.Sprintf("%s: array stride %d, WGSL stride %d", e.Path, t.Stride, e.Stride)
			}
			if e.N > 0 {
				if t.Size.Constant == nil || int(*t.Size.Constant) != e.N {
					return fmt.Sprintf("%s: array length mismatch", e.Path)
				}
				if got := int(ir.TypeSize(m, h)); got != e.Size {
					return fmt.Sprintf("%s: TypeSize %d, WGSL SizeOf %d", e.Path, got, e.Size)
				}
			} else if t.Size.Constant != nil {
				return fmt.Sprintf("%s: expected runtime-sized array", e.Path)
			}
			return walk(t.Base)
		case ir.StructType:
			if e.Kind != "struct" {
				return fmt.Sprintf("%s: IR has struct, expected %s", e.Path, e.Kind)
			}
			if len(t.Members) != e.N {
				return fmt.Sprintf("%s: %d members, expected %d", e.Path, len(t.Members), e.N)
			}
			if e.Size >= 0 && int(t.Span) != e.Size {
				return fmt.Sprintf("%s: struct span %d, WGSL SizeOf %d", e.Path, t.Span, e.Size)
			}
			for _, mem := range t.Members {
				if idx >= len(c.Expect) {
					return "type tree larger than expected"
				}
				want := c.Expect[idx]
				if int(mem.Offset) != want.Offset {
					return fmt.Sprintf("%s: member offset %d, WGSL offset %d", want.Path, mem.Offset, want.Offset)
				}
				if msg := walk(mem.Type); msg != "" {
					return msg
				}
			}
		default:
			return fmt.Sprintf("%s: unexpected IR type %T", e.Path, inner)
		}
		return ""
	}
	if msg := walk(th); msg != "" {
		return false, msg
	}
	return true, ""
}

func nonTrivial(c *wgen.TypeCase) bool {
	for _, k := range c.Classes {
		switch k {
		case "vec3-then-scalar", "matrix", "nested-struct", "array-of-struct", "@align", "@size", "f16", "runtime-tail":
			return true
		}
	}
	return false
}

func TestPropIR(t *testing.T) {
	ev.Rule("types-profile trees (depth<=4, <=7 members, i32/u32/f32/f16, vectors, matrices, arrays, nested structs, atomics, @align/@size as decimal/hex/suffixed/named-const, runtime tail) in storage/uniform/workgroup; non-trivial = contains vec3-then-scalar, matrix, nested struct, array of struct, @align/@size, f16 or runtime tail; distinct = hash of WGSL text")
	ev.Assume("expected layout computed by verif/internal/wgen layout code written from the WGSL specification tables")
	rapid.Check(t, func(t *rapid.T) {
		f16 := rapid.IntRange(0, 3).Draw(t, "f16") == 0 && !ev.Excluded("types.f16")
		tc := wgen.GenTypeCase(t, f16, ev.Excluded)
		lc := buildCase(tc)
		raw, _ := json.Marshal(lc)
		ok, msg := judgeIR(raw)
		nt := nonTrivial(tc)
		if len(msg) > 5 && msg[:5] == "skip:" {
			ev.Class("rejected-by-naga")
			if ev.WantSample("rejected") {
				ev.Sample("rejected", map[string]string{"wgsl": lc.WGSL, "error": msg})
			}
			nt = false
		}
		ev.Eval(ev.HashS(lc.WGSL), nt)
		ev.Class("space:" + tc.Space)
		for _, k := range tc.Classes {
			ev.Class(k)
		}
		if nt && ev.WantSample("ir-layout") {
			ev.Sample("ir-layout", lc)
		}
		if !ok {
			ev.Fail("ir-layout", lc, msg)
			t.Fatalf("%s\n%s", msg, lc.WGSL)
		}
	})
}
