// Package c07 checks property C07: buffer memory layout is the WGSL layout,
// in the IR and in every backend.
package c07

import (
	"encoding/hex"
	"encoding/json"
	"fmt"
	"math"
	"strings"
	"testing"

	"github.com/gogpu/naga"
	"github.com/gogpu/naga/ir"
	"github.com/gogpu/naga/spirv"
	"pgregory.net/rapid"

	"verif/internal/ev"
	"verif/internal/spv"
	"verif/internal/wgen"
	"verif/internal/wref"
	"verif/internal/xrun"
)

func TestMain(m *testing.M) { ev.Main(m, "C07") }

var judges = map[string]ev.Judge{
	"ir-layout": judgeIR,
}

func TestKnown(t *testing.T)  { ev.RunKnown(t, "C07", judges) }
func TestReplay(t *testing.T) { ev.RunReplay(t, judges) }

// LayoutCase is the serialised form: the WGSL text plus the expected layout
// computed by the framework's own implementation of the WGSL rules.
type LayoutCase struct {
	WGSL   string       `json:"wgsl"`
	Var    string       `json:"var"`
	Space  string       `json:"space"`
	Expect []ExpectNode `json:"expect"` // flattened expectation, pre-order
}

// ExpectNode is the expected layout of one node of the type tree.
type ExpectNode struct {
	Path   string `json:"path"`
	Kind   string `json:"kind"` // scalar vec mat array struct atomic
	Size   int    `json:"size"` // WGSL SizeOf (0 for runtime arrays)
	Stride int    `json:"stride,omitempty"`
	Offset int    `json:"offset"` // offset within the parent struct (members only; -1 otherwise)
	N      int    `json:"n,omitempty"`
}

func expectOf(t *wgen.Type, path string, off int, out *[]ExpectNode) {
	n := ExpectNode{Path: path, Offset: off}
	switch t.K {
	case wgen.TScalar:
		n.Kind, n.Size = "scalar", wgen.SizeOf(t)
	case wgen.TAtomic:
		n.Kind, n.Size = "atomic", wgen.SizeOf(t)
	case wgen.TVec:
		n.Kind, n.Size = "vec", wgen.SizeOf(t)
	case wgen.TMat:
		n.Kind, n.Size = "mat", wgen.SizeOf(t)
	case wgen.TArray:
		n.Kind, n.Stride, n.N = "array", wgen.StrideOf(t), t.N
		if t.N > 0 {
			n.Size = wgen.SizeOf(t)
		}
		*out = append(*out, n)
		expectOf(t.Elem, path+"[]", -1, out)
		return
	case wgen.TStruct:
		n.Kind, n.Size, n.N = "struct", wgen.SizeOf(t), len(t.St.Members)
		if t.HasRuntimeArray() {
			// span as the IR defines it is checked only for sized structs
			n.Size = -1
		}
		*out = append(*out, n)
		offs := wgen.MemberOffsets(t.St)
		for i, m := range t.St.Members {
			expectOf(m.T, path+"."+m.Name, offs[i], out)
		}
		return
	}
	*out = append(*out, n)
}

func buildCase(c *wgen.TypeCase) *LayoutCase {
	decl := ""
	switch c.Space {
	case "storage":
		decl = "@group(0) @binding(0) var<storage, read_write> v: " + c.T.String() + ";\n"
	case "uniform":
		decl = "@group(0) @binding(0) var<uniform> v: " + c.T.String() + ";\n"
	case "workgroup":
		decl = "var<workgroup> v: " + c.T.String() + ";\n"
	}
	src := c.Enables + c.Decls + decl + "@compute @workgroup_size(1) fn main() { }\n"
	lc := &LayoutCase{WGSL: src, Var: "v", Space: c.Space}
	expectOf(c.T, "v", -1, &lc.Expect)
	return lc
}

// judgeIR lowers the program and compares offsets / spans / strides / sizes
// recorded in the IR with the expectation.
func judgeIR(raw json.RawMessage) (bool, string) {
	var c LayoutCase
	if err := json.Unmarshal(raw, &c); err != nil {
		return false, "bad case: " + err.Error()
	}
	ast, err := naga.Parse(c.WGSL)
	if err != nil {
		return true, "skip: parse: " + err.Error()
	}
	m, err := naga.LowerWithSource(ast, c.WGSL)
	if err != nil {
		return true, "skip: lower: " + err.Error()
	}
	var th ir.TypeHandle
	found := false
	for _, g := range m.GlobalVariables {
		if g.Name == c.Var {
			th, found = g.Type, true
		}
	}
	if !found {
		return false, "global variable not found in lowered module"
	}
	idx := 0
	var walk func(h ir.TypeHandle) string
	walk = func(h ir.TypeHandle) string {
		if idx >= len(c.Expect) {
			return "type tree larger than expected"
		}
		e := c.Expect[idx]
		idx++
		if int(h) >= len(m.Types) {
			return fmt.Sprintf("%s: type handle %d out of range", e.Path, h)
		}
		inner := m.Types[h].Inner
		switch t := inner.(type) {
		case ir.ScalarType, ir.VectorType, ir.MatrixType, ir.AtomicType:
			if got := int(ir.TypeSize(m, h)); got != e.Size {
				return fmt.Sprintf("%s: TypeSize %d, WGSL SizeOf %d", e.Path, got, e.Size)
			}
			kind := map[string]bool{"scalar": true, "vec": true, "mat": true, "atomic": true}
			if !kind[e.Kind] {
				return fmt.Sprintf("%s: IR has %T, expected %s", e.Path, inner, e.Kind)
			}
		case ir.ArrayType:
			if e.Kind != "array" {
				return fmt.Sprintf("%s: IR has array, expected %s", e.Path, e.Kind)
			}
			if int(t.Stride) != e.Stride {
				return fmt.Sprintf("%s: array stride %d, WGSL stride %d", e.Path, t.Stride, e.Stride)
			}
			if e.N > 0 {
				if t.Size.Constant == nil || int(*t.Size.Constant) != e.N {
					return fmt.Sprintf("%s: array length mismatch", e.Path)
				}
				if got := int(ir.TypeSize(m, h)); got != e.Size {
					return fmt.Sprintf("%s: TypeSize %d, WGSL SizeOf %d", e.Path, got, e.Size)
				}
			} else if t.Size.Constant != nil {
				return fmt.Sprintf("%s: expected runtime-sized array", e.Path)
			}
			return walk(t.Base)
		case ir.StructType:
			if e.Kind != "struct" {
				return fmt.Sprintf("%s: IR has struct, expected %s", e.Path, e.Kind)
			}
			if len(t.Members) != e.N {
				return fmt.Sprintf("%s: %d members, expected %d", e.Path, len(t.Members), e.N)
			}
			if e.Size >= 0 && int(t.Span) != e.Size {
				return fmt.Sprintf("%s: struct span %d, WGSL SizeOf %d", e.Path, t.Span, e.Size)
			}
			for _, mem := range t.Members {
				if idx >= len(c.Expect) {
					return "type tree larger than expected"
				}
				want := c.Expect[idx]
				if int(mem.Offset) != want.Offset {
					return fmt.Sprintf("%s: member offset %d, WGSL offset %d", want.Path, mem.Offset, want.Offset)
				}
				if msg := walk(mem.Type); msg != "" {
					return msg
				}
			}
		default:
			return fmt.Sprintf("%s: unexpected IR type %T", e.Path, inner)
		}
		return ""
	}
	if msg := walk(th); msg != "" {
		return false, msg
	}
	return true, ""
}

func nonTrivial(c *wgen.TypeCase) bool {
	for _, k := range c.Classes {
		switch k {
		case "vec3-then-scalar", "matrix", "nested-struct", "array-of-struct", "@align", "@size", "f16", "runtime-tail":
			return true
		}
	}
	return false
}

func TestPropIR(t *testing.T) {
	ev.Rule("types-profile trees (depth<=4, <=7 members, i32/u32/f32/f16, vectors, matrices, arrays, nested structs, atomics, @align/@size as decimal/hex/suffixed/named-const, runtime tail) in storage/uniform/workgroup; non-trivial = contains vec3-then-scalar, matrix, nested struct, array of struct, @align/@size, f16 or runtime tail; distinct = hash of WGSL text")
	ev.Assume("expected layout computed by verif/internal/wgen layout code written from the WGSL specification tables")
	rapid.Check(t, func(t *rapid.T) {
		f16 := rapid.IntRange(0, 3).Draw(t, "f16") == 0 && !ev.Excluded("types.f16")
		tc := wgen.GenTypeCase(t, f16, ev.Excluded)
		lc := buildCase(tc)
		raw, _ := json.Marshal(lc)
		ok, msg := judgeIR(raw)
		nt := nonTrivial(tc)
		if len(msg) > 5 && msg[:5] == "skip:" {
			ev.Class("rejected-by-naga")
			if ev.WantSample("rejected") {
				ev.Sample("rejected", map[string]string{"wgsl": lc.WGSL, "error": msg})
			}
			nt = false
		}
		ev.Eval(ev.HashS(lc.WGSL), nt)
		ev.Class("space:" + tc.Space)
		for _, k := range tc.Classes {
			ev.Class(k)
		}
		if nt && ev.WantSample("ir-layout") {
			ev.Sample("ir-layout", lc)
		}
		if !ok {
			ev.Fail("ir-layout", lc, msg)
			t.Fatalf("%s\n%s", msg, lc.WGSL)
		}
	})
}

// ---------------------------------------------------------------------------
// Backends: dynamic probes (reader / writer kernels) and SPIR-V decorations.

func pattern(n int) []byte {
	b := make([]byte, n)
	for i := range b {
		b[i] = byte((i*37 + 11) % 0x70) // never a NaN / Inf exponent in any 4-byte window
	}
	return b
}

type probe struct {
	X     *xrun.Case `json:"x"`
	Kind  string     `json:"kind"` // reader | writer
	Space string     `json:"space"`
}

func leafProbes(tc *wgen.TypeCase) []wgen.Leaf {
	var leaves []wgen.Leaf
	wgen.Leaves(tc.T, 0, tc.RtLen, "", &leaves)
	var out []wgen.Leaf
	for _, l := range leaves {
		if l.K == wgen.F16 {
			continue // f16 leaves are covered by the static checks only
		}
		out = append(out, l)
	}
	if len(out) > 48 {
		out = out[:48]
	}
	return out
}

func atomicLeafPaths(t *wgen.Type, path string, out map[string]bool) {
	switch t.K {
	case wgen.TAtomic:
		out[path] = true
	case wgen.TArray:
		n := t.N
		if n == 0 {
			n = 4
		}
		for i := 0; i < n; i++ {
			atomicLeafPaths(t.Elem, fmt.Sprintf("%s[%d]", path, i), out)
		}
	case wgen.TStruct:
		for _, m := range t.St.Members {
			atomicLeafPaths(m.T, path+"."+m.Name, out)
		}
	}
}

func buildProbes(tc *wgen.TypeCase) []*probe {
	if tc.Space == "workgroup" {
		return nil
	}
	leaves := leafProbes(tc)
	if len(leaves) == 0 {
		return nil
	}
	atomics := map[string]bool{}
	atomicLeafPaths(tc.T, "", atomics)
	size := wgen.SizeOfRT(tc.T, tc.RtLen)
	src := pattern(size)
	var ps []*probe
	// reader
	{
		access := "read"
		if len(atomics) > 0 {
			access = "read_write"
		}
		decl := fmt.Sprintf("@group(0) @binding(0) var<storage, %s> src: %s;\n", access, tc.T)
		if tc.Space == "uniform" {
			decl = fmt.Sprintf("@group(0) @binding(0) var<uniform> src: %s;\n", tc.T)
		}
		var body strings.Builder
		exp := make([]byte, 4*len(leaves))
		for k, l := range leaves {
			e := "src" + l.Path
			switch {
			case atomics[l.Path]:
				e = "atomicLoad(&" + e + ")"
				if l.K == wgen.I32 {
					e = "bitcast<u32>(" + e + ")"
				}
			case l.K != wgen.U32:
				e = "bitcast<u32>(" + e + ")"
			}
			fmt.Fprintf(&body, "  dst[%d] = %s;\n", k, e)
			copy(exp[4*k:], src[l.Off:l.Off+4])
		}
		wgsl := tc.Enables + tc.Decls + decl + "@group(0) @binding(1) var<storage, read_write> dst: array<u32>;\n@compute @workgroup_size(1) fn main() {\n" + body.String() + "}\n"
		mask := make([]byte, len(exp))
		for i := range mask {
			mask[i] = wref.MaskExact
		}
		x := &xrun.Case{WGSL: wgsl, Entry: "main", NumWG: [3]uint32{1, 1, 1}, WGSize: [3]int{1, 1, 1}, RefSteps: 4000,
			Buffers:  map[string]string{"0,0": hex.EncodeToString(src), "0,1": hex.EncodeToString(pattern(len(exp)))},
			Expected: map[string]string{"0,0": hex.EncodeToString(src), "0,1": hex.EncodeToString(exp)},
			Masks:    map[string]string{"0,1": hex.EncodeToString(mask)}}
		ps = append(ps, &probe{X: x, Kind: "reader", Space: tc.Space})
	}
	// writer (storage only)
	if tc.Space == "storage" {
		decl := fmt.Sprintf("@group(0) @binding(0) var<storage, read_write> dst: %s;\n", tc.T)
		var body strings.Builder
		exp := append([]byte(nil), src...)
		mask := make([]byte, len(exp))
		var all []wgen.Leaf
		wgen.Leaves(tc.T, 0, tc.RtLen, "", &all)
		for _, l := range all {
			n := 4
			if l.K == wgen.F16 {
				n = 2
			}
			for i := 0; i < n; i++ {
				mask[l.Off+i] = wref.MaskExact
			}
		}
		for k, l := range leaves {
			var lit string
			var bits uint32
			switch l.K {
			case wgen.U32:
				bits = uint32(0x1000 + k)
				lit = fmt.Sprintf("%du", bits)
			case wgen.I32:
				bits = uint32(int32(-1000 - k))
				lit = fmt.Sprintf("%di", int32(bits))
			default:
				f := float32(k+1) * 0.5
				bits = math.Float32bits(f)
				lit = fmt.Sprintf("%gf", f)
				if !strings.ContainsAny(lit, ".e") {
					lit = fmt.Sprintf("%g.0f", f)
				}
			}
			if atomics[l.Path] {
				fmt.Fprintf(&body, "  atomicStore(&dst%s, %s);\n", l.Path, lit)
			} else {
				fmt.Fprintf(&body, "  dst%s = %s;\n", l.Path, lit)
			}
			exp[l.Off], exp[l.Off+1], exp[l.Off+2], exp[l.Off+3] = byte(bits), byte(bits>>8), byte(bits>>16), byte(bits>>24)
		}
		wgsl := tc.Enables + tc.Decls + decl + "@compute @workgroup_size(1) fn main() {\n" + body.String() + "}\n"
		x := &xrun.Case{WGSL: wgsl, Entry: "main", NumWG: [3]uint32{1, 1, 1}, WGSize: [3]int{1, 1, 1}, RefSteps: 4000,
			Buffers:  map[string]string{"0,0": hex.EncodeToString(src)},
			Expected: map[string]string{"0,0": hex.EncodeToString(exp)},
			Masks:    map[string]string{"0,0": hex.EncodeToString(mask)}}
		ps = append(ps, &probe{X: x, Kind: "writer", Space: tc.Space})
	}
	return ps
}

func hasMatRows2(t *wgen.Type) bool {
	switch t.K {
	case wgen.TMat:
		return t.R == 2
	case wgen.TArray:
		return hasMatRows2(t.Elem)
	case wgen.TStruct:
		for _, m := range t.St.Members {
			if hasMatRows2(m.T) {
				return true
			}
		}
	}
	return false
}

var probeBackends = map[string]func(*xrun.Case) xrun.Outcome{"spirv": xrun.RunSPIRV, "glsl": xrun.RunGLSL, "hlsl": xrun.RunHLSL, "msl": xrun.RunMSL}

func judgeProbe(backend string) ev.Judge {
	return func(raw json.RawMessage) (bool, string) {
		var p probe
		if err := json.Unmarshal(raw, &p); err != nil {
			return false, "bad case: " + err.Error()
		}
		ok, msg, _ := runProbe(backend, &p)
		return ok, msg
	}
}

func runProbe(backend string, p *probe) (ok bool, msg string, class string) {
	o := probeBackends[backend](p.X)
	switch {
	case o.Rejected != "":
		return true, "", "rejected"
	case o.Unsupported != "":
		return true, "", "unsupported"
	case o.Invalid != "":
		return true, "", "invalid-text(other-property)"
	case o.Bad != "":
		return false, o.Bad, ""
	}
	ok, msg = p.X.Compare(o.Buffers)
	return ok, msg, ""
}

func init() {
	for b := range probeBackends {
		judges["probe-"+b] = judgeProbe(b)
	}
	judges["spirv-decorations"] = judgeDecorations
}

func probeOpts(t *rapid.T, backend string) map[string]string {
	switch backend {
	case "spirv":
		return map[string]string{"version": []string{"1.0", "1.3", "1.5"}[rapid.IntRange(0, 2).Draw(t, "spvv")]}
	case "glsl":
		return map[string]string{"glsl": []string{"430", "450", "es310"}[rapid.IntRange(0, 2).Draw(t, "glv")], "bindmap": "1"}
	case "hlsl":
		return map[string]string{"sm": []string{"5.1", "6.0"}[rapid.IntRange(0, 1).Draw(t, "sm")], "zeroinit": "1"}
	}
	return map[string]string{"msl": []string{"2.1", "3.0"}[rapid.IntRange(0, 1).Draw(t, "mslv")], "bind": []string{"auto", "map"}[rapid.IntRange(0, 1).Draw(t, "bind")], "zeroinit": "1"}
}

func TestPropBackends(t *testing.T) {
	ev.Rule("backends: for each generated type tree two kernels are compiled by every backend and executed by the independent interpreter of the target (SPIR-V decorations, GLSL std430/std140 rules, Metal size/alignment table, HLSL byte addresses and cbuffer packing): a reader copying every 32-bit leaf of the variable to an output array and a writer storing a distinct value to every leaf; the buffers hold a position-unique pattern, so every leaf must be found at its WGSL offset and padding must stay untouched; SPIR-V Offset/ArrayStride/MatrixStride decorations are additionally read and compared with the WGSL layout")
	backends := []string{"spirv", "glsl", "hlsl", "msl"}
	rapid.Check(t, func(t *rapid.T) {
		f16 := false
		tc := wgen.GenTypeCase(t, f16, ev.Excluded)
		b := backends[rapid.IntRange(0, len(backends)-1).Draw(t, "backend")]
		if ev.Excluded("c07.backend." + b) {
			return
		}
		nt := nonTrivial(tc)
		if b == "glsl" && ev.Excluded("c07.glsl.align-size-attrs") && wgen.AttrsChangeLayout(tc.T, tc.RtLen) {
			ev.Class("glsl:attributes-move-members:excluded")
			return
		}
		if b == "glsl" && tc.Space == "uniform" && ev.Excluded("c07.glsl.uniform-mat2") && hasMatRows2(tc.T) {
			ev.Class("glsl:uniform-matCx2:excluded")
			return
		}
		if b == "spirv" && tc.Space != "workgroup" {
			lc := buildCase(tc)
			raw, _ := json.Marshal(lc)
			if ok, msg := judgeDecorations(raw); !ok {
				ev.Fail("spirv-decorations", lc, msg)
				t.Fatalf("%s\n%s", msg, lc.WGSL)
			}
			ev.Class("spirv-decorations-checked")
		}
		for _, p := range buildProbes(tc) {
			p.X.Opts = probeOpts(t, b)
			ok, msg, class := runProbe(b, p)
			ev.Eval(ev.HashS(p.X.WGSL, b, fmt.Sprint(p.X.Opts)), nt && class == "")
			ev.Class("probe:" + b + ":" + p.Kind)
			ev.Class("space:" + tc.Space)
			if class != "" {
				ev.Class("probe-" + class + ":" + b)
				if ev.WantSample("skipped-" + class + "-" + b) {
					o := probeBackends[b](p.X)
					ev.Sample("skipped-"+class+"-"+b, map[string]string{"why": o.Rejected + o.Unsupported + o.Invalid, "wgsl": p.X.WGSL})
				}
				continue
			}
			if nt && ev.WantSample("probe-"+b) {
				ev.Sample("probe-"+b, p)
			}
			if !ok {
				ev.Fail("probe-"+b, p, msg)
				t.Fatalf("%s (%s %s)\n%s", msg, b, p.Kind, p.X.WGSL)
			}
		}
	})
}

// judgeDecorations compares the Offset / ArrayStride / MatrixStride
// decorations of the emitted SPIR-V with the expected layout.
func judgeDecorations(raw json.RawMessage) (bool, string) {
	var c LayoutCase
	if err := json.Unmarshal(raw, &c); err != nil {
		return false, "bad case: " + err.Error()
	}
	if c.Space == "workgroup" {
		return true, ""
	}
	// make the variable used so that it is emitted
	src := strings.Replace(c.WGSL, "fn main() { }", "fn main() { let p = &v; }", 1)
	m, _, err := xrun.Lower(src)
	if err != nil {
		return true, "skip: " + err.Error()
	}
	bin, err := naga.GenerateSPIRV(m, spirv.Options{Version: spirv.Version1_3})
	if err != nil {
		return true, "skip: " + err.Error()
	}
	mod, err := spv.Parse(bin)
	if err != nil {
		return false, "emitted SPIR-V does not parse: " + err.Error()
	}
	var rv *spv.ResourceVar
	for _, r := range mod.ResourceVars() {
		r := r
		if r.HasBind && r.Set == 0 && r.Binding == 0 {
			rv = &r
		}
	}
	if rv == nil {
		return true, "skip: variable not emitted"
	}
	idx := 0
	const decOffset, decArrayStride, decMatrixStride = 35, 6, 7
	var walk func(id uint32, memberOf uint32, member int) string
	walk = func(id uint32, memberOf uint32, member int) string {
		if idx >= len(c.Expect) {
			return "type tree larger than expected"
		}
		e := c.Expect[idx]
		idx++
		t := mod.Type(id)
		if t == nil {
			return e.Path + ": unknown type id"
		}
		switch e.Kind {
		case "struct":
			if t.Kind != spv.TStruct || len(t.Members) != e.N {
				return fmt.Sprintf("%s: expected a struct with %d members, SPIR-V has %s", e.Path, e.N, mod.TypeString(id))
			}
			for i, mid := range t.Members {
				want := c.Expect[idx]
				d, ok := mod.MemberDeco(id, i, decOffset)
				if !ok {
					return fmt.Sprintf("%s: member %d has no Offset decoration", e.Path, i)
				}
				if int(d.Params[0]) != want.Offset {
					return fmt.Sprintf("%s: Offset %d, WGSL offset %d", want.Path, d.Params[0], want.Offset)
				}
				if msg := walk(mid, id, i); msg != "" {
					return msg
				}
			}
		case "array":
			if t.Kind != spv.TArray && t.Kind != spv.TRuntimeArray {
				return fmt.Sprintf("%s: expected an array, SPIR-V has %s", e.Path, mod.TypeString(id))
			}
			d, ok := mod.Deco(id, decArrayStride)
			if !ok {
				return fmt.Sprintf("%s: array without ArrayStride", e.Path)
			}
			if int(d.Params[0]) != e.Stride {
				return fmt.Sprintf("%s: ArrayStride %d, WGSL stride %d", e.Path, d.Params[0], e.Stride)
			}
			return walk(t.Elem, memberOf, member)
		case "mat":
			if t.Kind != spv.TMatrix {
				return fmt.Sprintf("%s: expected a matrix, SPIR-V has %s", e.Path, mod.TypeString(id))
			}
			if memberOf != 0 {
				d, ok := mod.MemberDeco(memberOf, member, decMatrixStride)
				if !ok {
					return fmt.Sprintf("%s: matrix member without MatrixStride", e.Path)
				}
				col := mod.Type(t.Elem)
				rows := int(col.Count)
				w := int(mod.Type(col.Elem).Width) / 8
				want := rows * w
				if rows == 3 {
					want = 4 * w
				}
				if int(d.Params[0]) != want {
					return fmt.Sprintf("%s: MatrixStride %d, WGSL column stride %d", e.Path, d.Params[0], want)
				}
			}
		}
		return ""
	}
	pt := mod.Type(rv.Pointee)
	first := walk(rv.Pointee, 0, 0)
	if first == "" {
		return true, ""
	}
	// naga wraps some variables in a one-member block struct
	if pt != nil && pt.Kind == spv.TStruct && len(pt.Members) == 1 {
		if d, ok := mod.MemberDeco(rv.Pointee, 0, decOffset); !ok || d.Params[0] != 0 {
			return false, "wrapper struct member without Offset 0"
		}
		idx = 0
		if msg := walk(pt.Members[0], rv.Pointee, 0); msg != "" {
			return false, msg
		}
		return true, ""
	}
	return false, first
	return true, ""
}
