// Package c15 checks property C15: generated code has no reachable undefined
// behaviour on hostile data (with each backend's protective options).
package c15

import (
	"os"
	"path/filepath"
	"strconv"
	"testing"

	"pgregory.net/rapid"

	"verif/internal/ev"
	"verif/internal/execcheck"
	"verif/internal/wgen"
	"verif/internal/wref"
	"verif/internal/xrun"
)

func TestMain(m *testing.M) { ev.Main(m, "C15") }

func hostileEvents(r *wref.Result) bool {
	e := &r.Ev
	return e.DivZero+e.DivOverflow+e.NegOverflow+e.F2IRange+e.OOB > 0
}

func hostileOps(f *wgen.Features) { f.Hostile = true }
func hostileAll(f *wgen.Features) { f.Hostile, f.HostileIdx = true, true }

var spirvCfg = &execcheck.Config{
	Check: "spirv-hostile", Prefix: "spv.", Run: xrun.RunSPIRV, Features: hostileOps, NonTrivial: hostileEvents,
	DrawOpts: func(t *rapid.T) map[string]string {
		return map[string]string{"version": []string{"1.0", "1.3", "1.4", "1.6"}[rapid.IntRange(0, 3).Draw(t, "version")],
			"loopbound": strconv.Itoa(rapid.IntRange(0, 1).Draw(t, "loopbound"))}
	},
}

var hlslCfg = &execcheck.Config{
	Check: "hlsl-hostile", Prefix: "hlsl.", Run: xrun.RunHLSL, Features: hostileAll, NonTrivial: hostileEvents,
	PreOpts: func(t *rapid.T) (map[string]string, func(*wref.Config)) {
		o := map[string]string{"sm": []string{"5.1", "6.0", "6.6"}[rapid.IntRange(0, 2).Draw(t, "sm")], "restrict": "1", "zeroinit": "1",
			"loopbound": strconv.Itoa(rapid.IntRange(0, 1).Draw(t, "loopbound")), "fake": strconv.Itoa(rapid.IntRange(0, 1).Draw(t, "fake"))}
		return o, func(w *wref.Config) { w.ClampOOB = true }
	},
	Retry: []func(*wref.Config){func(w *wref.Config) { w.ClampNegToZero = true }},
}

var mslCfg = &execcheck.Config{
	Check: "msl-hostile", Prefix: "msl.", Run: xrun.RunMSL, Features: hostileAll, NonTrivial: hostileEvents,
	PreOpts: func(t *rapid.T) (map[string]string, func(*wref.Config)) {
		// the index policy (function / private / workgroup data and values) and the buffer policy
		// (storage and uniform data) are drawn independently
		pols := []string{"restrict", "rzsw"}
		if ev.Excluded("msl.rzsw.value-index") {
			// open finding C04-3: read-zero-skip-write reads are emitted as unparenthesised ?: expressions
			pols = pols[:1]
		}
		pol := pols[rapid.IntRange(0, len(pols)-1).Draw(t, "policy")]
		bufPol := pols[rapid.IntRange(0, len(pols)-1).Draw(t, "bufPolicy")]
		o := map[string]string{"msl": []string{"1.2", "2.1", "3.0", "3.1"}[rapid.IntRange(0, 3).Draw(t, "msl")], "idx": pol, "buf": bufPol, "zeroinit": "1",
			"bind": []string{"auto", "fake", "map"}[rapid.IntRange(0, 2).Draw(t, "bind")], "loopbound": strconv.Itoa(rapid.IntRange(0, 1).Draw(t, "loopbound"))}
		if pol == "rzsw" {
			return o, func(w *wref.Config) { w.ZeroOOBReads = true; w.BufPolicy = bufPol }
		}
		return o, func(w *wref.Config) { w.ClampOOB = true; w.BufPolicy = bufPol }
	},
	Retry: []func(*wref.Config){func(w *wref.Config) { w.ClampNegToZero = true }},
}

var glslCfg = &execcheck.Config{
	Check: "glsl-hostile", Prefix: "glsl.", Run: xrun.RunGLSL, Features: hostileOps, NonTrivial: func(r *wref.Result) bool { return xrun.NonTrivial(r) },
	DrawOpts: func(t *rapid.T) map[string]string {
		return map[string]string{"glsl": []string{"430", "450", "es310"}[rapid.IntRange(0, 2).Draw(t, "glsl")], "bindmap": "1"}
	},
	// GLSL has no protective option for integer division or float->int conversion (C05 excludes them):
	// only zero-initialisation of variables is judged here.
	OutOfDomain: func(e *wref.Events) string {
		if e.DivZero+e.DivOverflow+e.F2IRange+e.F2INaN+e.F2UNeg > 0 {
			return "glsl-no-protective-option"
		}
		return ""
	},
}

var judges = map[string]ev.Judge{"spirv-hostile": spirvCfg.Judge, "hlsl-hostile": hlslCfg.Judge, "msl-hostile": mslCfg.Judge, "glsl-hostile": glslCfg.Judge}

func TestKnown(t *testing.T)  { ev.RunKnown(t, "C15", judges) }
func TestReplay(t *testing.T) { ev.RunReplay(t, judges) }

const rule = "exec-profile programs biased to the guarded constructs: integer / and % with divisors 0 and INT_MIN/-1 from boundary-biased buffers, unary minus and abs of INT_MIN, f32->i32/u32 of infinite and out-of-range floats loaded from a hostile buffer, variables without initialiser, and (HLSL RestrictIndexing; MSL Index+Buffer policies restrict / read-zero-skip-write) unguarded dynamic indices of arrays, vectors, matrices and runtime arrays taken from 32-bit boundary values; oracle: the target interpreter traps on any out-of-object access and reports every use of a value the target language leaves undefined; results must equal the WGSL-defined values computed by the reference evaluator under the policy (restrict: clamped index, either end accepted for negative indices; read-zero-skip-write: zero reads, skipped writes); non-trivial = the reference run met >= 1 hostile event (division by zero / overflow, negation overflow, out-of-range conversion, out-of-range index); distinct = hash(WGSL, inputs, options)"

func TestPropSPIRV(t *testing.T) {
	ev.Rule("SPIR-V (default wrappers + workgroup zero-init, no index policy exists): " + rule)
	spirvCfg.Prop(t)
}
func TestPropHLSL(t *testing.T) { ev.Rule("HLSL: " + rule); hlslCfg.Prop(t) }
func TestPropMSL(t *testing.T) {
	// enabled once the MSL triage (C04) has filed the defects that also fire here
	if _, err := os.Stat(filepath.Join(ev.Root(), "checks", "c15", "ENABLE_MSL")); err != nil {
		t.Skip("MSL sub-check not enabled yet")
	}
	ev.Rule("MSL: " + rule)
	mslCfg.Prop(t)
}
func TestPropGLSL(t *testing.T) {
	ev.Rule("GLSL (zero-initialisation only; no protective options for operators or buffer indices): " + rule)
	glslCfg.Prop(t)
}
