// Package c06 checks property C06: compile-time evaluation agrees with
// run-time evaluation (and with WGSL's constant-evaluation rules).
package c06

import (
	"encoding/hex"
	"encoding/json"
	"fmt"
	"os"
	"regexp"
	"sort"
	"strings"
	"testing"

	"github.com/gogpu/naga"
	"github.com/gogpu/naga/ir"
	"github.com/gogpu/naga/spirv"
	"pgregory.net/rapid"

	"verif/internal/ev"
	"verif/internal/spv"
	"verif/internal/wgen"
	"verif/internal/wref"
	"verif/internal/xrun"
)

func TestMain(m *testing.M) { ev.Main(m, "C06") }

var judges = map[string]ev.Judge{"const-value": judgeCase, "const-reject": judgeCase, "runtime-agree": judgeCase}

func TestKnown(t *testing.T)  { ev.RunKnown(t, "C06", judges) }
func TestReplay(t *testing.T) { ev.RunReplay(t, judges) }

// Case is the serialisable case: both programs, the input of the run-time
// twin and the expected output bytes.
type Case struct {
	Site       string `json:"site"`
	Expr       string `json:"expr"`
	Class      string `json:"class"` // "value" | "must-reject"
	Why        string `json:"why,omitempty"`
	PConst     string `json:"p_const"`
	PRun       string `json:"p_run,omitempty"`
	RunInput   string `json:"run_input,omitempty"` // hex of the input buffer of p_run (binding 1)
	OutInit    string `json:"out_init"`            // hex
	Expected   string `json:"expected"`            // hex
	Mask       string `json:"mask"`                // hex
	ConstInput string `json:"const_input,omitempty"`
}

func storageType(t *wgen.Type) *wgen.Type {
	if t.S == wgen.Bool {
		return t.WithKind(wgen.U32)
	}
	return t
}

func storeExpr(t *wgen.Type, x string) string {
	if t.S == wgen.Bool {
		st := storageType(t)
		return fmt.Sprintf("select(%s(0u), %s(1u), %s)", st, st, x)
	}
	return x
}

func valueLit(v wref.Value) string {
	switch v.T.S {
	case wgen.Bool:
		return fmt.Sprint(v.B != 0)
	default:
		return wgen.LitString(&wgen.Lit{T: wgen.Scalar(v.T.S), Bits: v.B})
	}
}

// computedZeroDivisor reports whether every zero divisor of an integer / or % in e is a computed value
// (a call, a unary or binary expression ...) rather than a literal or a named constant.
func computedZeroDivisor(e wgen.Expr, decls []*wgen.Var) bool {
	plain, computed := false, false
	wgen.WalkExpr(e, func(x wgen.Expr) bool {
		b, ok := x.(*wgen.Binary)
		if !ok || (b.Op != "/" && b.Op != "%") || b.R.Type() == nil || !intKind(b.R.Type().S) {
			return true
		}
		v, class, _ := wref.ConstEval(b.R, b.R.Type(), decls)
		switch b.R.(type) {
		case *wgen.Lit, *wgen.VarRef:
			if class == wref.ConstValue && isZeroValue(v) {
				plain = true
			}
		default:
			// a computed divisor that is zero, or whose own evaluation is already an error
			if class != wref.ConstValue || isZeroValue(v) {
				computed = true
			}
		}
		return true
	})
	return computed && !plain
}

func intKind(k wgen.Kind) bool { return k == wgen.I32 || k == wgen.U32 || k == wgen.AbsInt }

// isZeroValue reports whether every component of an integer value is zero.
func isZeroValue(v wref.Value) bool {
	if len(v.E) > 0 {
		for _, c := range v.E {
			if isZeroValue(c) {
				return true // a zero lane is enough for a component-wise division to fail
			}
		}
		return false
	}
	if v.T != nil && v.T.S == wgen.AbsInt {
		return v.I == 0
	}
	return v.B == 0
}

// build prints the constant program (and the run-time twin when the
// expression is fully concrete) and computes the expected output.
func build(cc *wgen.ConstCase) (*Case, bool) {
	val, class, why := wref.ConstEval(cc.E, cc.T, cc.Decls)
	c := &Case{Site: cc.Site, Expr: wgen.ExprString(cc.E), Why: why}
	switch class {
	case wref.ConstUnspecified:
		return nil, false
	case wref.ConstMustReject:
		c.Class = "must-reject"
	default:
		c.Class = "value"
	}
	var decls strings.Builder
	for _, d := range cc.Decls {
		if d.NoType {
			fmt.Fprintf(&decls, "const %s = %s;\n", d.Name, wgen.ExprString(d.Init))
		} else {
			fmt.Fprintf(&decls, "const %s: %s = %s;\n", d.Name, d.T, wgen.ExprString(d.Init))
		}
	}
	T := cc.T
	st := storageType(T)
	E := wgen.ExprString(cc.E)
	outDecl := fmt.Sprintf("struct Out { v: %s }\n@group(0) @binding(0) var<storage, read_write> outp: Out;\n", st)
	mainHead := "@compute @workgroup_size(1) fn main() {\n"
	outSize := wgen.SizeOf(st)
	expectVal := func() {
		buf := make([]byte, outSize)
		for i := range buf {
			buf[i] = 0xA5
		}
		c.OutInit = hex.EncodeToString(buf)
		mask := make([]byte, outSize)
		sv := val
		if T.S == wgen.Bool {
			// bool -> 0/1 words
			sv = wref.Zero(st, 0)
			if T.K == wgen.TScalar {
				sv.B = val.B
			} else {
				for i := range sv.E {
					sv.E[i].B = val.E[i].B
				}
			}
		}
		wref.Encode(sv, buf, 0, mask)
		// float constants: WGSL lets an implementation evaluate const-expressions
		// with extra intermediate precision, so last-place differences are not judged
		for i := range mask {
			if mask[i] == wref.MaskFloat {
				mask[i] = wref.MaskFuzzy
			}
		}
		c.Expected, c.Mask = hex.EncodeToString(buf), hex.EncodeToString(mask)
	}
	small := func(words int, at int, v uint32) {
		buf := make([]byte, words*4)
		for i := range buf {
			buf[i] = 0xA5
		}
		c.OutInit = hex.EncodeToString(buf)
		exp := append([]byte(nil), buf...)
		exp[at*4], exp[at*4+1], exp[at*4+2], exp[at*4+3] = byte(v), byte(v>>8), byte(v>>16), byte(v>>24)
		mask := make([]byte, len(buf))
		for i := 0; i < 4; i++ {
			mask[at*4+i] = wref.MaskExact
		}
		c.Expected, c.Mask = hex.EncodeToString(exp), hex.EncodeToString(mask)
	}
	var b strings.Builder
	b.WriteString(decls.String())
	switch cc.Site {
	case "module-const":
		fmt.Fprintf(&b, "const R: %s = %s;\n%s%s  outp.v = %s;\n}\n", T, E, outDecl, mainHead, storeExpr(T, "R"))
		expectVal()
	case "module-const-inferred":
		fmt.Fprintf(&b, "const R = %s;\n%s%s  outp.v = %s;\n}\n", E, outDecl, mainHead, storeExpr(T, "R"))
		expectVal()
	case "fn-const":
		fmt.Fprintf(&b, "%s%s  const r: %s = %s;\n  outp.v = %s;\n}\n", outDecl, mainHead, T, E, storeExpr(T, "r"))
		expectVal()
	case "let":
		fmt.Fprintf(&b, "%s%s  let r = %s;\n  outp.v = %s;\n}\n", outDecl, mainHead, E, storeExpr(T, "r"))
		expectVal()
	case "var-init":
		fmt.Fprintf(&b, "%s%s  var r: %s = %s;\n  outp.v = %s;\n}\n", outDecl, mainHead, T, E, storeExpr(T, "r"))
		expectVal()
	case "arg":
		fmt.Fprintf(&b, "%sfn id(x: %s) -> %s { return x; }\n%s  outp.v = %s;\n}\n", outDecl, T, T, mainHead, storeExpr(T, "id("+E+")"))
		expectVal()
	case "store":
		fmt.Fprintf(&b, "%s%s  outp.v = %s;\n}\n", outDecl, mainHead, storeExpr(T, E))
		expectVal()
	case "array-size":
		fmt.Fprintf(&b, "struct Out { a: array<u32, %s>, tail: u32 }\n@group(0) @binding(0) var<storage, read_write> outp: Out;\n%s  outp.tail = 7u;\n}\n", E, mainHead)
		n := int(val.B)
		small(n+1, n, 7)
	case "case-selector":
		fmt.Fprintf(&b, "struct Out { v: u32 }\n@group(0) @binding(0) var<storage, read_write> outp: Out;\n@group(0) @binding(2) var<storage, read> sel: %s;\n%s  switch sel {\n    case %s: { outp.v = 1u; }\n    default: { outp.v = 2u; }\n  }\n}\n", T, mainHead, E)
		small(1, 0, 1)
		sb := make([]byte, 4)
		sb[0], sb[1], sb[2], sb[3] = byte(val.B), byte(val.B>>8), byte(val.B>>16), byte(val.B>>24)
		c.ConstInput = hex.EncodeToString(sb)
	case "const-assert":
		if val.AnyFuzzy() || T.K != wgen.TScalar {
			return nil, false
		}
		fmt.Fprintf(&b, "const_assert %s == %s;\nstruct Out { v: u32 }\n@group(0) @binding(0) var<storage, read_write> outp: Out;\n%s  outp.v = 1u;\n}\n", E, valueLit(val), mainHead)
		small(1, 0, 1)
	case "workgroup-size":
		fmt.Fprintf(&b, "struct Out { cnt: atomic<u32> }\n@group(0) @binding(0) var<storage, read_write> outp: Out;\n@compute @workgroup_size(%s) fn main() {\n  atomicAdd(&outp.cnt, 1u);\n}\n", E)
		buf := make([]byte, 4)
		c.OutInit = hex.EncodeToString(buf)
		exp := []byte{byte(val.B), 0, 0, 0}
		c.Expected, c.Mask = hex.EncodeToString(exp), "01010101"
	}
	c.PConst = b.String()
	// run-time twin: every literal leaf is loaded from an input buffer
	if c.Class == "value" && cc.Leaves != nil && len(cc.Leaves) > 0 && len(cc.Leaves) <= 24 &&
		(cc.Site == "store" || cc.Site == "let" || cc.Site == "fn-const" || cc.Site == "module-const" || cc.Site == "var-init" || cc.Site == "arg") {
		idx := map[*wgen.Lit]int{}
		var members []string
		in := make([]byte, 0, len(cc.Leaves)*4)
		for i, l := range cc.Leaves {
			idx[l] = i
			mt := l.T
			if l.T.S == wgen.Bool {
				mt = wgen.TU32
			}
			members = append(members, fmt.Sprintf("l%d: %s,", i, mt))
			in = append(in, byte(l.Bits), byte(l.Bits>>8), byte(l.Bits>>16), byte(l.Bits>>24))
		}
		wgen.LitHook = func(l *wgen.Lit) (string, bool) {
			i, ok := idx[l]
			if !ok {
				return "", false
			}
			if l.T.S == wgen.Bool {
				return fmt.Sprintf("(inp.l%d != 0u)", i), true
			}
			return fmt.Sprintf("inp.l%d", i), true
		}
		er := wgen.ExprString(cc.E)
		wgen.LitHook = nil
		c.PRun = fmt.Sprintf("struct In { %s }\n@group(0) @binding(1) var<storage, read> inp: In;\n%s%s  outp.v = %s;\n}\n",
			strings.Join(members, " "), outDecl, mainHead, storeExpr(T, er))
		c.RunInput = hex.EncodeToString(in)
	}
	return c, true
}

func lowerAndCompile(src string) (bin []byte, m *ir.Module, stage string, err error) {
	defer func() {
		if r := recover(); r != nil {
			stage, err = "panic", fmt.Errorf("%v", r)
		}
	}()
	ast, e := naga.Parse(src)
	if e != nil {
		return nil, nil, "parse", e
	}
	m, e = naga.LowerWithSource(ast, src)
	if e != nil {
		return nil, nil, "lower", e
	}
	bin, e = naga.GenerateSPIRV(m, spirv.Options{Version: spirv.Version1_3})
	if e != nil {
		return nil, m, "spirv", e
	}
	return bin, m, "", nil
}

type outcome struct {
	ok       bool
	check    string
	msg      string
	rejected string
	unsup    string
	folded   bool
}

func execute(src string, c *Case, input map[spv.Key]string) (got []byte, rejected, unsup, bad string, m *ir.Module) {
	bin, m, stage, err := lowerAndCompile(src)
	if err != nil {
		return nil, stage + ": " + err.Error(), "", "", m
	}
	mod, err := spv.Parse(bin)
	if err != nil {
		return nil, "", "", "emitted SPIR-V does not parse: " + err.Error(), m
	}
	out, _ := hex.DecodeString(c.OutInit)
	bufs := map[spv.Key][]byte{{Set: 0, Binding: 0}: out}
	for k, h := range input {
		b, _ := hex.DecodeString(h)
		bufs[k] = b
	}
	res, err := spv.Run(mod, spv.RunConfig{Entry: "main", Buffers: bufs, NumWorkgroups: [3]uint32{1, 1, 1}, StepLimit: 1 << 20})
	if err != nil {
		return nil, "", "interpreter: " + err.Error(), "", m
	}
	if strings.HasPrefix(res.Trap, "unsupported:") {
		return nil, "", res.Trap, "", m
	}
	if res.Trap != "" {
		return nil, "", "", "executing the emitted SPIR-V traps: " + res.Trap, m
	}
	if len(res.Poison) > 0 {
		return nil, "", "", "emitted SPIR-V uses an undefined value: " + res.Poison[0], m
	}
	return out, "", "", "", m
}

func compare(c *Case, got []byte) (bool, string) {
	xc := &xrun.Case{Expected: map[string]string{"0,0": c.Expected}, Masks: map[string]string{"0,0": c.Mask}}
	return xc.Compare(map[[2]int][]byte{{0, 0}: got})
}

func judge(c *Case) outcome {
	var in map[spv.Key]string
	if c.ConstInput != "" {
		in = map[spv.Key]string{{Set: 0, Binding: 2}: c.ConstInput}
	}
	if c.Class == "must-reject" {
		_, _, stage, err := lowerAndCompile(c.PConst)
		if err == nil {
			return outcome{check: "const-reject", msg: fmt.Sprintf("constant expression %s must be a shader-creation error (%s) but the program compiles", c.Expr, c.Why)}
		}
		_ = stage
		return outcome{ok: true}
	}
	got, rejected, unsup, bad, m := execute(c.PConst, c, in)
	if rejected != "" {
		if c.Site == "const-assert" && strings.Contains(rejected, "assert") {
			return outcome{check: "const-value", msg: "const_assert on the WGSL value of the expression is refused: " + rejected}
		}
		return outcome{ok: true, rejected: rejected}
	}
	if unsup != "" {
		return outcome{ok: true, unsup: unsup}
	}
	if bad != "" {
		return outcome{check: "const-value", msg: bad}
	}
	folded := isFolded(m)
	if ok, msg := compare(c, got); !ok {
		so := secondOpinion(c)
		if strings.Contains(so, "SPIR-V back end") && ev.Excluded("spv.const.alias") {
			// root cause is the open SPIR-V finding C01-8 (constants without inline value are emitted as null)
			return outcome{ok: true, unsup: "known:spirv-const-null"}
		}
		return outcome{check: "const-value", msg: "constant program: " + msg + so, folded: folded}
	}
	if c.PRun != "" {
		got2, rej2, unsup2, bad2, _ := execute(c.PRun, c, map[spv.Key]string{{Set: 0, Binding: 1}: c.RunInput})
		switch {
		case rej2 != "" || unsup2 != "":
			// the run-time twin is C08/C01 business
		case bad2 != "":
			return outcome{check: "runtime-agree", msg: "run-time twin: " + bad2, folded: folded}
		default:
			if ok, msg := compare(c, got2); !ok {
				return outcome{check: "runtime-agree", msg: "run-time twin disagrees with the WGSL value (and with the folded program): " + msg, folded: folded}
			}
		}
	}
	return outcome{ok: true, folded: folded}
}

// isFolded reports whether the value stored by main is a literal / constant
// (so that the folder, not the backend, produced it).
func isFolded(m *ir.Module) bool {
	if m == nil || len(m.EntryPoints) == 0 {
		return false
	}
	f := &m.EntryPoints[0].Function
	folded := false
	var walk func(b ir.Block)
	walk = func(b ir.Block) {
		for _, s := range b {
			switch k := s.Kind.(type) {
			case ir.StmtStore:
				if int(k.Value) < len(f.Expressions) {
					switch f.Expressions[k.Value].Kind.(type) {
					case ir.Literal, ir.ExprConstant, ir.ExprZeroValue, ir.ExprCompose, ir.ExprSplat:
						folded = true
					}
				}
			case ir.StmtBlock:
				walk(k.Block)
			case ir.StmtSwitch:
				folded = true // selector folded into a case value
			}
		}
	}
	walk(f.Body)
	if len(f.Body) <= 3 {
		folded = folded || true
	}
	return folded
}

func judgeCase(raw json.RawMessage) (bool, string) {
	var c Case
	if err := json.Unmarshal(raw, &c); err != nil {
		return false, "bad case: " + err.Error()
	}
	o := judge(&c)
	return o.ok, o.msg
}

func TestPropConst(t *testing.T) {
	ev.Rule("constant-expression trees (depth<=5) over abstract-int/float, i32, u32, f32, bool literals and named module constants: all operators, foldable builtins, conversions, constructors, swizzles, scalar and vector shapes, boundary operands; each placed at one of 11 sites (module const typed/inferred, fn const, let, var init, argument, store, array size, case selector, const_assert, workgroup_size); oracle: independent const-evaluator (abstract ints in 64 bits, floats in binary64, WGSL conversion rank) vs the value observed by executing the compiled program with the independent SPIR-V interpreter; fully concrete trees are also compiled as a run-time twin (leaves loaded from a buffer) which must give the same value; expressions WGSL makes an error (integer division by zero, value not representable) must be rejected; non-trivial = >= 2 operator/builtin nodes and the lowered IR stores a literal/constant; distinct = hash(expr, site)")
	ev.Assume("float results are compared with a relative tolerance of 1e-3 (an implementation may evaluate float const-expressions with extra precision)")
	ev.Assume("wrap-around of concrete i32/u32 const arithmetic, over-wide const shifts and non-finite float const results are not judged (skipped)")
	wgen.ForceConstSite = os.Getenv("C06_SITE")
	wref.AbsWideUnjudged = ev.Excluded("const.abstract-int.wide")
	rapid.Check(t, func(t *rapid.T) {
		cc := wgen.GenConstCase(t, func(tag string) bool { return ev.Excluded(tag) || ev.Excluded("spv."+tag) })
		c, ok := build(cc)
		if !ok {
			ev.Class("skipped:unspecified")
			return
		}
		if c.PRun != "" && wref.LastConstRoundTies > 0 && ev.Excluded("spv.round.tie") {
			// open finding C01-10: run-time round() is GLSL.std.450 Round, undefined at exact ties;
			// the constant program is still judged, the run-time twin is not built
			c.PRun = ""
			ev.Class("runtime-twin-dropped:round-tie")
		}
		if c.Class == "must-reject" && strings.Contains(c.Why, "not representable") && ev.Excluded("const.unrepresentable") {
			return
		}
		if c.Class == "must-reject" && strings.Contains(c.Why, "division by zero") && !strings.HasPrefix(c.Site, "module-const") && ev.Excluded("const.divzero.non-module-site") {
			return
		}
		if c.Class == "must-reject" && strings.Contains(c.Why, "division by zero") && !strings.HasPrefix(c.Site, "module-const") &&
			computedZeroDivisor(cc.E, cc.Decls) && ev.Excluded("const.divzero.computed-divisor") {
			// open finding C06-20: outside module-scope consts only a literal or named-constant zero divisor is diagnosed
			return
		}
		o := judge(c)
		ev.Eval(ev.HashS(c.Expr, c.Site), cc.Nodes >= 2 && o.folded && o.rejected == "" && o.unsup == "")
		ev.Class("site:" + c.Site)
		ev.Class("class:" + c.Class)
		for _, k := range cc.Classes {
			ev.Class("expr:" + k)
		}
		if c.PRun != "" {
			ev.Class("with-runtime-twin")
		}
		if o.rejected != "" {
			ev.Class("rejected-by-naga")
			if ev.WantSample("rejected") {
				ev.Sample("rejected", map[string]string{"why": o.rejected, "p_const": c.PConst})
			}
			return
		}
		if o.unsup != "" {
			ev.Class("unsupported")
			return
		}
		if o.folded && cc.Nodes >= 2 && ev.WantSample(c.Site) {
			ev.Sample(c.Site, c)
		}
		if !o.ok {
			if os.Getenv("C06_SURVEY") != "" {
				key := o.check + " | " + c.Site + " | " + survKey(o.msg)
				survey[key]++
				if _, seen := surveyEx[key]; !seen || len(c.Expr) < len(surveyEx[key].Expr) {
					surveyEx[key] = c
				}
				return
			}
			ev.Fail(o.check, c, o.msg)
			t.Fatalf("%s\nexpr: %s\n%s", o.msg, c.Expr, c.PConst)
		}
	})
	if os.Getenv("C06_SURVEY") != "" {
		var keys []string
		for k := range survey {
			keys = append(keys, k)
		}
		sort.Slice(keys, func(i, j int) bool { return survey[keys[i]] > survey[keys[j]] })
		for _, k := range keys {
			fmt.Printf("SURVEY %4d %s\n      expr: %s\n", survey[k], k, surveyEx[k].Expr)
		}
	}
}

var (
	survey   = map[string]int{}
	surveyEx = map[string]*Case{}
	reDigits = regexp.MustCompile(`[0-9a-fx]{3,}`)
)

func survKey(msg string) string {
	m := reDigits.ReplaceAllString(msg, "N")
	if len(m) > 90 {
		m = m[:90]
	}
	return m
}

// secondOpinion executes the constant program through the GLSL backend and
// the GLSL interpreter to tell a front-end (folding) defect from a SPIR-V
// back-end defect.
func secondOpinion(c *Case) string {
	xc := &xrun.Case{WGSL: c.PConst, Entry: "main", NumWG: [3]uint32{1, 1, 1}, Buffers: map[string]string{"0,0": c.OutInit},
		Expected: map[string]string{"0,0": c.Expected}, Masks: map[string]string{"0,0": c.Mask}, RefSteps: 1000, Opts: map[string]string{"glsl": "450"}}
	if c.ConstInput != "" {
		xc.Buffers["0,2"] = c.ConstInput
	}
	o := xrun.RunGLSL(xc)
	switch {
	case o.Rejected != "" || o.Unsupported != "" || o.Invalid != "" || o.Bad != "":
		return " [second opinion via GLSL unavailable]"
	}
	if ok, _ := xc.Compare(o.Buffers); ok {
		return " [the GLSL output gives the WGSL value: the SPIR-V back end mis-emits the constant]"
	}
	return " [the GLSL output is wrong too: front-end constant evaluation]"
}
