// Package c12 checks property C12: output depends only on (source, options):
// deterministic, history- and race-free; no backend modifies its input module.
package c12

import (
	"crypto/sha256"
	"encoding/hex"
	"encoding/json"
	"fmt"
	"os"
	"os/exec"
	"path/filepath"
	"sort"
	"strings"
	"sync"
	"testing"

	"github.com/gogpu/naga"
	"github.com/gogpu/naga/dxil"
	"github.com/gogpu/naga/glsl"
	"github.com/gogpu/naga/hlsl"
	"github.com/gogpu/naga/ir"
	"github.com/gogpu/naga/msl"
	"github.com/gogpu/naga/spirv"
	"pgregory.net/rapid"

	"verif/internal/ev"
	"verif/internal/irx"
	"verif/internal/wgen"
	"verif/internal/wref"
)

func TestMain(m *testing.M) { ev.Main(m, "C12") }

var judges = map[string]ev.Judge{"history": judgeHistory}

func TestKnown(t *testing.T)  { ev.RunKnown(t, "C12", judges) }
func TestReplay(t *testing.T) { ev.RunReplay(t, judges) }

// ---------------------------------------------------------------------------
// Sources

var (
	corpusOnce sync.Once
	corpus     []string // sources that parse and lower
	corpusName []string
)

func loadCorpus() {
	corpusOnce.Do(func() {
		files, _ := filepath.Glob("/repo/snapshot/testdata/in/*.wgsl")
		sort.Strings(files)
		for _, f := range files {
			b, err := os.ReadFile(f)
			if err != nil || len(b) > 40000 {
				continue
			}
			if m := lower(string(b)); m != nil {
				corpus = append(corpus, string(b))
				corpusName = append(corpusName, filepath.Base(f))
			}
		}
	})
}

func lower(src string) (m *ir.Module) {
	defer func() {
		if recover() != nil {
			m = nil
		}
	}()
	ast, err := naga.Parse(src)
	if err != nil {
		return nil
	}
	m, err = naga.LowerWithSource(ast, src)
	if err != nil {
		return nil
	}
	return m
}

func drawSource(t *rapid.T) string {
	loadCorpus()
	if len(corpus) > 0 && rapid.IntRange(0, 1).Draw(t, "srcKind") > 0 {
		ev.Class("source:corpus")
		return corpus[rapid.IntRange(0, len(corpus)-1).Draw(t, "corpus")]
	}
	if rapid.Bool().Draw(t, "fullProfile") {
		// full profile: several entry points of mixed stages, textures, samplers (one texture may be
		// sampled through two samplers), IO structs, overrides
		ev.Class("source:generated-full")
		return wgen.GenFull(t, wgen.FullFeatures{Off: ev.ExcludedQuiet}).Src
	}
	ev.Class("source:generated")
	f := wgen.DefaultFeatures()
	f.MaxStmts = 10
	f.ConstOK = wref.ConstOK
	f.Off = ev.ExcludedQuiet
	return wgen.GenExec(t, f).Src
}

// ---------------------------------------------------------------------------
// Backends: name -> compile function (fresh backend instance each call)

type backendFn func(m *ir.Module) ([]byte, error)

func entryNames(m *ir.Module) []string {
	var n []string
	for _, ep := range m.EntryPoints {
		n = append(n, ep.Name)
	}
	return n
}

var backendNames = []string{"spirv13", "spirv10dbg", "spirv15lb", "hlsl", "hlsl60ri", "msl", "msl30z", "glsl450", "glsles310", "dxil", "overrides"}

func runBackend(name string, m *ir.Module, reused *spirv.Backend) (out []byte, err error) {
	defer func() {
		if r := recover(); r != nil {
			out, err = nil, fmt.Errorf("panic: %v", r)
		}
	}()
	switch name {
	case "spirv13":
		return spirv.NewBackend(spirv.Options{Version: spirv.Version1_3}).Compile(m)
	case "spirv10dbg":
		return spirv.NewBackend(spirv.Options{Version: spirv.Version{Major: 1, Minor: 0}, Debug: true}).Compile(m)
	case "spirv15lb":
		return spirv.NewBackend(spirv.Options{Version: spirv.Version{Major: 1, Minor: 5}, ForceLoopBounding: true}).Compile(m)
	case "spirv-reused":
		return reused.Compile(m)
	case "hlsl":
		o := hlsl.DefaultOptions()
		o.FakeMissingBindings = true
		s, _, e := hlsl.Compile(m, o)
		return []byte(s), e
	case "hlsl60ri":
		o := hlsl.DefaultOptions()
		o.FakeMissingBindings = true
		o.ShaderModel = hlsl.ShaderModel6_0
		o.RestrictIndexing = true
		o.ZeroInitializeWorkgroupMemory = true
		s, _, e := hlsl.Compile(m, o)
		return []byte(s), e
	case "msl":
		o := msl.DefaultOptions()
		o.FakeMissingBindings = true
		s, _, e := msl.Compile(m, o)
		return []byte(s), e
	case "msl30z":
		o := msl.DefaultOptions()
		o.FakeMissingBindings = true
		o.LangVersion = msl.Version{Major: 3, Minor: 0}
		o.ZeroInitializeWorkgroupMemory = true
		s, _, e := msl.Compile(m, o)
		return []byte(s), e
	case "glsl450", "glsles310":
		v := glsl.Version{Major: 4, Minor: 50}
		if name == "glsles310" {
			v = glsl.Version{Major: 3, Minor: 10, ES: true}
		}
		var all []byte
		for _, ep := range entryNames(m) {
			s, _, e := glsl.Compile(m, glsl.Options{LangVersion: v, EntryPoint: ep})
			if e != nil {
				all = append(all, []byte("\n//ERR "+ep+": "+e.Error())...)
				continue
			}
			all = append(all, []byte("\n//EP "+ep+"\n"+s)...)
		}
		return all, nil
	case "dxil":
		return dxil.Compile(m, dxil.DefaultOptions())
	case "overrides":
		c := ir.CloneModuleForOverrides(m)
		if e := ir.ProcessOverrides(c, ir.PipelineConstants{}); e != nil {
			return nil, e
		}
		return spirv.NewBackend(spirv.Options{Version: spirv.Version1_3}).Compile(c)
	}
	return nil, fmt.Errorf("unknown backend %s", name)
}

func digest(out []byte, err error) string {
	if err != nil {
		return "ERR:" + err.Error()
	}
	s := sha256.Sum256(out)
	return hex.EncodeToString(s[:8])
}

// canonical output of (source, backend): fresh parse + lower + fresh backend.
func canonical(src, backend string) string {
	m := lower(src)
	if m == nil {
		return "REJECTED"
	}
	if backend == "spirv-reused" {
		backend = "spirv13"
	}
	return digest(runBackend(backend, m, nil))
}

// ---------------------------------------------------------------------------
// Histories

// Step of a history.
type Step struct {
	Op      string `json:"op"`      // "lower" | "compile"
	Src     int    `json:"src"`     // index into Sources (lower)
	Mod     int    `json:"mod"`     // index into the module pool (compile)
	Backend string `json:"backend"` // compile
}

// History is a serialisable case.
type History struct {
	Sources []string `json:"sources"`
	Steps   []Step   `json:"steps"`
}

type pooled struct {
	src  string
	m    *ir.Module
	hash uint64
}

// judgeHistory replays a history and checks the invariants after every step.
func judgeHistory(raw json.RawMessage) (bool, string) {
	var h History
	if err := json.Unmarshal(raw, &h); err != nil {
		return false, "bad case: " + err.Error()
	}
	ok, msg, _ := runHistory(&h)
	return ok, msg
}

func runHistory(h *History) (ok bool, msg string, shared bool) {
	var pool []*pooled
	reused := spirv.NewBackend(spirv.Options{Version: spirv.Version1_3})
	touched := map[int]map[string]bool{}
	for i, st := range h.Steps {
		switch st.Op {
		case "lower":
			m := lower(h.Sources[st.Src])
			if m == nil {
				continue
			}
			pool = append(pool, &pooled{src: h.Sources[st.Src], m: m, hash: irx.Hash(m)})
		case "compile":
			if len(pool) == 0 {
				continue
			}
			p := pool[st.Mod%len(pool)]
			got := digest(runBackend(st.Backend, p.m, reused))
			if touched[st.Mod%len(pool)] == nil {
				touched[st.Mod%len(pool)] = map[string]bool{}
			}
			touched[st.Mod%len(pool)][st.Backend] = true
			if len(touched[st.Mod%len(pool)]) >= 2 {
				shared = true
			}
			want := canonical(p.src, st.Backend)
			if strings.HasPrefix(want, "ERR:") && strings.HasPrefix(got, "ERR:") {
				// both fail: error text may legitimately mention nothing else; same outcome class
			} else if got != want {
				return false, fmt.Sprintf("step %d: backend %s on pooled module gives %s, fresh pipeline gives %s", i, st.Backend, got, want), shared
			}
			if hNow := irx.Hash(p.m); hNow != p.hash {
				fresh := lower(p.src)
				d := ""
				if fresh != nil {
					d = irx.Diff(fresh, p.m)
				}
				return false, fmt.Sprintf("step %d: backend %s modified the caller's module (first difference vs fresh lowering: %s)", i, st.Backend, d), shared
			}
		}
	}
	return true, "", shared
}

func TestPropHistories(t *testing.T) {
	ev.Rule("histories: rapid state machine over {lower a source, compile pooled module i with backend j (11 backend/option sets + one reused spirv.Backend instance + ProcessOverrides on a clone)}; sources = corpus files and generated compute programs; after every step: output digest equals that of a fresh parse+lower+fresh backend, and irx.Hash of the pooled module equals its hash at creation; non-trivial = >= 4 steps with >= 2 distinct backends on one module; distinct = hash of (sources, steps)")
	ev.Assume("irx.Hash is a complete deep hash of *ir.Module; outputs compared by SHA-256 digest")
	rapid.Check(t, func(t *rapid.T) {
		h := &History{}
		ns := rapid.IntRange(1, 3).Draw(t, "nsrc")
		for i := 0; i < ns; i++ {
			h.Sources = append(h.Sources, drawSource(t))
		}
		n := rapid.IntRange(2, 12).Draw(t, "nsteps")
		h.Steps = append(h.Steps, Step{Op: "lower", Src: 0})
		names := append([]string{"spirv-reused", "spirv-reused"}, backendNames...)
		for i := 0; i < n; i++ {
			if rapid.IntRange(0, 4).Draw(t, "op") == 0 {
				h.Steps = append(h.Steps, Step{Op: "lower", Src: rapid.IntRange(0, ns-1).Draw(t, "src")})
				continue
			}
			b := names[rapid.IntRange(0, len(names)-1).Draw(t, "backend")]
			if ev.Excluded("c12.backend." + b) {
				continue
			}
			if b == "overrides" && ev.Excluded("c14.clone-shares-module") {
				// open finding C14-1: ProcessOverrides on a clone writes through pointers shared with
				// the caller's module; only modules without override declarations are exempt
				hasOv := false
				for _, src := range h.Sources {
					hasOv = hasOv || strings.Contains(src, "override ")
				}
				if hasOv {
					continue
				}
			}
			h.Steps = append(h.Steps, Step{Op: "compile", Mod: rapid.IntRange(0, 3).Draw(t, "mod"), Backend: b})
			ev.Class("backend:" + b)
		}
		ok, msg, shared := runHistory(h)
		raw, _ := json.Marshal(h)
		ev.Eval(ev.Hash64(raw), len(h.Steps) >= 4 && shared)
		if shared && ev.WantSample("history") {
			ev.Sample("history", map[string]any{"steps": h.Steps, "source0": h.Sources[0]})
		}
		if !ok {
			ev.Fail("history", h, msg)
			t.Fatalf("%s", msg)
		}
	})
}

// ---------------------------------------------------------------------------
// Fresh processes (fresh map hash seeds)

const workerEnv = "VERIF_C12_WORKER"

func sampleSources() []string {
	loadCorpus()
	return corpus
}

// TestWorkerDigest is the worker: prints one digest line per (source, backend).
func TestWorkerDigest(t *testing.T) {
	if os.Getenv(workerEnv) == "" {
		t.Skip("worker only")
	}
	for i, src := range sampleSources() {
		m := lower(src)
		if m == nil {
			continue
		}
		for _, b := range backendNames {
			if b == "dxil" || b == "overrides" {
				// these are known to need a private module; give each its own
				m2 := lower(src)
				fmt.Printf("DIGEST %d %s %s\n", i, b, digest(runBackend(b, m2, nil)))
				continue
			}
			fmt.Printf("DIGEST %d %s %s\n", i, b, digest(runBackend(b, m, nil)))
		}
		fmt.Printf("DIGEST %d irhash %x\n", i, irx.Hash(lower(src)))
	}
}

func TestPropProcesses(t *testing.T) {
	if os.Getenv("VERIF_SHARD") != "" && os.Getenv("VERIF_SHARD") != "0" {
		t.Skip("run by shard 0 only")
	}
	ev.Rule("processes: the corpus is compiled by all backends in N fresh processes (fresh map hash seeds); every (source, backend) digest and the IR hash must agree across processes; each (source,backend) pair counts as one evaluation")
	rounds := 3
	if ev.Thorough() {
		rounds = 8
	}
	exe, err := os.Executable()
	if err != nil {
		ev.Inconclusive("os.Executable: " + err.Error())
		return
	}
	var first map[string]string
	for r := 0; r < rounds; r++ {
		cmd := exec.Command(exe, "-test.run", "^TestWorkerDigest$", "-test.count=1")
		cmd.Env = append(os.Environ(), workerEnv+"=1", "VERIF_OUT=")
		out, err := cmd.Output()
		if err != nil {
			ev.Inconclusive(fmt.Sprintf("worker process failed: %v", err))
			return
		}
		cur := map[string]string{}
		for _, line := range strings.Split(string(out), "\n") {
			f := strings.Fields(line)
			if len(f) >= 4 && f[0] == "DIGEST" {
				cur[f[1]+" "+f[2]] = strings.Join(f[3:], " ")
			}
		}
		if first == nil {
			first = cur
			for k := range cur {
				ev.Eval(ev.HashS("proc", k), true)
			}
			continue
		}
		var keys []string
		for k := range first {
			keys = append(keys, k)
		}
		sort.Strings(keys)
		for _, k := range keys {
			if cur[k] != first[k] {
				var idx int
				var b string
				fmt.Sscanf(k, "%d %s", &idx, &b)
				if ev.Excluded("c12.proc." + b) {
					continue
				}
				c := map[string]any{"source": sampleSources()[idx], "file": corpusName[idx], "backend": b, "digest_a": first[k], "digest_b": cur[k]}
				ev.Fail("process-"+b, c, fmt.Sprintf("%s / %s: digest differs between fresh processes", corpusName[idx], b))
				t.Errorf("%s %s differs across processes", corpusName[idx], b)
			}
		}
	}
	ev.Class("process-rounds")
}

// ---------------------------------------------------------------------------
// Repeated in-process compilation (map iteration order varies per iteration)

func TestPropRepeat(t *testing.T) {
	ev.Rule("repeat: one source is parsed+lowered+compiled twice in one process by every backend; digests and IR hashes must agree (Go randomises map iteration per loop)")
	rapid.Check(t, func(t *rapid.T) {
		src := drawSource(t)
		m1, m2 := lower(src), lower(src)
		if m1 == nil || m2 == nil {
			ev.Class("rejected")
			return
		}
		ev.Eval(ev.HashS("repeat", src), len(m1.EntryPoints) > 0)
		if a, b := irx.Hash(m1), irx.Hash(m2); a != b && !ev.Excluded("c12.lower.nondet") {
			msg := "two lowerings of the same source differ: " + irx.Diff(m1, m2)
			ev.Fail("repeat-lower", map[string]string{"wgsl": src}, msg)
			t.Fatalf("%s", msg)
		}
		for _, b := range backendNames {
			if b == "dxil" || b == "overrides" {
				continue
			}
			d1, d2 := digest(runBackend(b, m1, nil)), digest(runBackend(b, m1, nil))
			for k := 0; k < 3 && d1 == d2; k++ {
				// a two-element map flips its iteration order only about every other time
				d2 = digest(runBackend(b, m1, nil))
			}
			if d1 != d2 {
				msg := fmt.Sprintf("backend %s: two compilations of one module differ (%s vs %s)", b, d1, d2)
				ev.Fail("repeat-"+b, map[string]string{"wgsl": src, "backend": b}, msg)
				t.Fatalf("%s", msg)
			}
		}
	})
}

func init() {
	judges["repeat-lower"] = func(raw json.RawMessage) (bool, string) {
		var c struct {
			WGSL string `json:"wgsl"`
		}
		json.Unmarshal(raw, &c)
		for i := 0; i < 40; i++ {
			m1, m2 := lower(c.WGSL), lower(c.WGSL)
			if m1 == nil || m2 == nil {
				return true, "rejected"
			}
			if irx.Hash(m1) != irx.Hash(m2) {
				return false, "two lowerings of the same source differ: " + irx.Diff(m1, m2)
			}
		}
		return true, ""
	}
}

// ---------------------------------------------------------------------------
// Concurrency (built with -race by the driver; stage "race")

func TestRaceConcurrent(t *testing.T) {
	if os.Getenv("VERIF_STAGE") != "race" {
		t.Skip("race stage only")
	}
	ev.Rule("race: under the Go race detector N goroutines compile (a) separate modules, (b) one shared module with different backends; outputs must equal the solo outputs and the detector must stay silent; non-trivial = batch with >= 2 goroutines on a shared module")
	rapid.Check(t, func(t *rapid.T) {
		src := drawSource(t)
		shared := lower(src)
		if shared == nil {
			return
		}
		names := []string{"spirv13", "spirv10dbg", "hlsl", "msl", "glsl450", "spirv15lb", "hlsl60ri", "msl30z"}
		want := map[string]string{}
		for _, b := range names {
			want[b] = canonical(src, b)
		}
		mode := rapid.IntRange(0, 1).Draw(t, "mode")
		n := rapid.IntRange(2, 6).Draw(t, "n")
		var wg sync.WaitGroup
		errs := make([]string, n)
		for i := 0; i < n; i++ {
			b := names[rapid.IntRange(0, len(names)-1).Draw(t, "b")]
			m := shared
			if mode == 0 {
				m = lower(src)
			}
			wg.Add(1)
			go func(i int, b string, m *ir.Module) {
				defer wg.Done()
				got := digest(runBackend(b, m, nil))
				if got != want[b] && !(strings.HasPrefix(got, "ERR:") && strings.HasPrefix(want[b], "ERR:")) {
					errs[i] = fmt.Sprintf("concurrent %s gives %s, solo gives %s", b, got, want[b])
				}
			}(i, b, m)
		}
		wg.Wait()
		ev.Eval(ev.HashS("race", src, fmt.Sprint(mode, n)), mode == 1)
		ev.Class(fmt.Sprintf("race-mode:%d", mode))
		for _, e := range errs {
			if e != "" {
				ev.Fail("concurrent", map[string]any{"wgsl": src, "mode": mode}, e)
				t.Fatalf("%s", e)
			}
		}
	})
}
