#!/usr/bin/env python3
"""mkcase.py <out.json> <message> <glsl-version> <bindmap 0|1> <file.wgsl> <buffers> <expected> [masks]
Builds a minimal C05 replay case by hand.  buffers / expected / masks: "g,b=hex;g,b=hex".
u32 words may be written as w:1,2,0xff (little endian words) instead of hex; f: for floats."""
import json, struct, sys
def dec(v):
    if v.startswith('w:'):
        return b''.join(struct.pack('<I', int(x, 0) & 0xffffffff) for x in v[2:].split(',')).hex()
    if v.startswith('f:'):
        return b''.join(struct.pack('<f', float(x)) for x in v[2:].split(',')).hex()
    return v
def parse(s):
    out = {}
    for part in s.split(';'):
        if not part: continue
        k, v = part.split('=')
        out[k] = dec(v)
    return out
out, msg, ver, bm, wg, bufs, exp = sys.argv[1:8]
masks = parse(sys.argv[8]) if len(sys.argv) > 8 else {}
src = open(wg).read()
wgs = [1, 1, 1]
import re
m = re.search(r'@workgroup_size\(([^)]*)\)', src)
if m:
    p = [int(x) for x in m.group(1).replace(' ', '').split(',') if x]
    for i, x in enumerate(p): wgs[i] = x
b, e = parse(bufs), parse(exp)
for k in b:
    if k not in e: e[k] = b[k]
for k in e:
    if k not in masks and '<storage, read_write>' in src:
        pass
case = {"wgsl": src, "entry": "main", "num_workgroups": [1, 1, 1], "workgroup_size": wgs, "buffers": b, "expected": e, "masks": masks,
        "ref_steps": 50, "opts": {"glsl": ver, "bindmap": bm}}
json.dump({"property": "C05", "check": "glsl-exec", "message": msg, "case": case}, open(out, 'w'), indent=1)
print("wrote", out)
