// Package c05 checks property C05: the GLSL naga emits computes what the
// WGSL program means (on executions where GLSL defines the result).
package c05

import (
	"strconv"
	"testing"

	"pgregory.net/rapid"

	"verif/internal/ev"
	"verif/internal/execcheck"
	"verif/internal/wref"
	"verif/internal/xrun"
)

func TestMain(m *testing.M) { ev.Main(m, "C05") }

var glslVersions = []string{"430", "450", "460", "es310", "es320"}

var cfg = &execcheck.Config{
	Check:  "glsl-exec",
	Prefix: "glsl.",
	Run:    xrun.RunGLSL,
	DrawOpts: func(t *rapid.T) map[string]string {
		return map[string]string{
			"glsl":    glslVersions[rapid.IntRange(0, len(glslVersions)-1).Draw(t, "glsl")],
			"bindmap": strconv.Itoa(rapid.IntRange(0, 1).Draw(t, "bindmap")),
		}
	},
	// C05's domain: executions free of GLSL-undefined behaviour.
	OutOfDomain: func(e *wref.Events) string {
		switch {
		case e.DivZero > 0 || e.DivOverflow > 0:
			return "glsl-undefined:int-division"
		case e.F2IRange > 0 || e.F2INaN > 0 || e.F2UNeg > 0:
			return "glsl-undefined:float-to-int"
		}
		return ""
	},
}

var judges = map[string]ev.Judge{"glsl-exec": cfg.Judge}

func TestKnown(t *testing.T)  { ev.RunKnown(t, "C05", judges) }
func TestReplay(t *testing.T) { ev.RunReplay(t, judges) }

func TestPropExec(t *testing.T) {
	ev.Rule("same program/input generator as C01 x glsl options {430, 450, 460, ES 310, ES 320; explicit binding map or reflection-based binding}; oracle: WGSL reference evaluator vs independent GLSL front end + interpreter (std430/std140 layout, GLSL operator/constructor/builtin rules; text must be valid GLSL of the requested version); executions with integer division by zero or out-of-range float->int conversion are outside C05's domain and discarded; non-trivial and distinct as C01")
	ev.Assume("verif/internal/ctext implements GLSL 4.60 / ESSL 3.20 semantics from the specifications")
	cfg.Prop(t)
}
