// Package c17 checks property C17: every resource variable and every
// entry-point input / output is bound in the emitted code where the WGSL
// attributes and the caller's binding options say, and the reflection data
// returned to the caller describes the emitted text.
//
// The expectation comes from the generator's own record of what it wrote
// (wgen.FullCase.Entries / Resources) and from the binding maps drawn here —
// never from naga's IR.  SPIR-V is read with the independent reader
// verif/internal/spv; HLSL / MSL / GLSL declarations with the line scanners in
// scan_test.go (only declarations and signatures are needed).
package c17

import (
	"encoding/json"
	"fmt"
	"os"
	"sort"
	"strings"
	"testing"

	"github.com/gogpu/naga"
	"github.com/gogpu/naga/glsl"
	"github.com/gogpu/naga/hlsl"
	"github.com/gogpu/naga/ir"
	"github.com/gogpu/naga/msl"
	"github.com/gogpu/naga/spirv"
	"pgregory.net/rapid"

	"verif/internal/ev"
	"verif/internal/wgen"
)

func TestMain(m *testing.M) { ev.Main(m, "C17") }

const checkName = "bindings"

var judges = map[string]ev.Judge{checkName: judgeRaw}

func TestKnown(t *testing.T)  { ev.RunKnown(t, "C17", judges) }
func TestReplay(t *testing.T) { ev.RunReplay(t, judges) }

// genOff: generator exclusions.  C17 does not run ir.Validate, so the C08-2 tag
// (validator rejects aliased bindings) does not apply here.  Under
// VERIF_NO_EXCLUDE=1 only C17's own guards are lifted: the guards of other
// properties' findings stay, otherwise no generated program gets past the
// front end (C08-17…19) and nothing would be checked.
func genOff(tag string) bool {
	if tag == "binding.alias-across-entry-points" {
		return false
	}
	if os.Getenv("VERIF_NO_EXCLUDE") != "" {
		return foreignTags()[tag]
	}
	return ev.Excluded(tag)
}

var foreign map[string]bool

func foreignTags() map[string]bool {
	if foreign != nil {
		return foreign
	}
	foreign = map[string]bool{}
	b, err := os.ReadFile(ev.Root() + "/known_findings.json")
	if err != nil {
		return foreign
	}
	var doc struct {
		Findings []ev.Finding `json:"findings"`
	}
	if json.Unmarshal(b, &doc) != nil {
		return foreign
	}
	for _, f := range doc.Findings {
		if f.Status == "open" && f.Property != "C17" {
			for _, t := range f.Tags {
				foreign[t] = true
			}
		}
	}
	return foreign
}

// ---------------------------------------------------------------------------
// The serialised case

type rb struct {
	Group   int `json:"group"`
	Binding int `json:"binding"`
}

type hlslEntry struct {
	rb
	Space    int `json:"space"`
	Register int `json:"register"`
}

type mslEntry struct {
	rb
	Slot int `json:"slot"` // buffer, texture or sampler slot according to the resource kind
}

type mslEP struct {
	Entry       string     `json:"entry"`
	Resources   []mslEntry `json:"resources"`
	SizesBuffer int        `json:"sizes_buffer"` // -1: not given
}

type glslEntry struct {
	rb
	Slot int `json:"slot"`
}

type options struct {
	SpvVersion string `json:"spv_version"`
	SpvDebug   bool   `json:"spv_debug"`

	HlslSM         string      `json:"hlsl_shader_model"`
	HlslFake       bool        `json:"hlsl_fake_missing_bindings"`
	HlslMap        []hlslEntry `json:"hlsl_binding_map"`
	HlslSamplerBuf []hlslEntry `json:"hlsl_sampler_buffer_map"` // keyed by Group only

	MslVersion string  `json:"msl_version"`
	MslFake    bool    `json:"msl_fake_missing_bindings"`
	MslMap     []mslEP `json:"msl_per_entry_point_map"`

	GlslVersion string      `json:"glsl_version"`
	GlslMap     []glslEntry `json:"glsl_binding_map"`
	GlslUseMap  bool        `json:"glsl_use_binding_map"`
}

type c17case struct {
	WGSL          string              `json:"wgsl"`
	Entries       []wgen.FullEntry    `json:"entries"`
	Resources     []wgen.FullResource `json:"resources"`
	UsesWorkgroup map[string]bool     `json:"uses_workgroup"`
	Opt           options             `json:"options"`
}

// violation is one breach; Rule names the assertion (exclusion tags of known
// findings are "c17.<rule>").
type violation struct {
	Rule string
	Msg  string
}

func (v violation) String() string { return v.Rule + ": " + v.Msg }

type report struct {
	viol    []violation
	classes map[string]int
}

func (r *report) fail(rule, f string, a ...any) {
	r.viol = append(r.viol, violation{rule, fmt.Sprintf(f, a...)})
}
func (r *report) class(s string) { r.classes[s]++ }

var spvVersions = map[string]spirv.Version{"1.0": spirv.Version1_0, "1.1": spirv.Version1_1, "1.2": spirv.Version1_2,
	"1.3": spirv.Version1_3, "1.4": spirv.Version1_4, "1.5": spirv.Version1_5, "1.6": spirv.Version1_6}
var hlslSMs = map[string]hlsl.ShaderModel{"5_0": hlsl.ShaderModel5_0, "5_1": hlsl.ShaderModel5_1, "6_0": hlsl.ShaderModel6_0, "6_6": hlsl.ShaderModel6_6}
var mslVersions = map[string]msl.Version{"1.2": msl.Version1_2, "2.0": msl.Version2_0, "2.1": msl.Version2_1, "2.4": msl.Version2_4, "3.1": msl.Version3_1}
var glslVersions = map[string]glsl.Version{"330": glsl.Version330, "410": glsl.Version410, "420": glsl.Version420, "430": glsl.Version430,
	"450": glsl.Version450, "460": glsl.Version460, "300es": glsl.VersionES300, "310es": glsl.VersionES310, "320es": glsl.VersionES320}

func glslExplicitBinding(v string) bool {
	switch v {
	case "420", "430", "450", "460", "310es", "320es":
		return true
	}
	return false
}

// lower parses, lowers and (as Rust naga's contract asks before any backend)
// resolves overrides to their defaults.
func lower(src string) (*ir.Module, error) {
	ast, err := naga.Parse(src)
	if err != nil {
		return nil, err
	}
	m, err := naga.LowerWithSource(ast, src)
	if err != nil {
		return nil, err
	}
	if err := ir.ProcessOverrides(m, nil); err != nil {
		return nil, err
	}
	return m, nil
}

func guarded(f func() error) (err error) {
	defer func() {
		if r := recover(); r != nil {
			err = fmt.Errorf("panic: %v", r)
		}
	}()
	return f()
}

// judgeCase compiles the module with every backend under the case's options
// and checks the oracles.  A front-end or backend rejection is C08's
// business: it is counted, never flagged (except the "missing map entry must
// be an error" oracles, which are about errors).
func judgeCase(c *c17case) *report {
	r := &report{classes: map[string]int{}}
	if _, err := lower(c.WGSL); err != nil {
		r.class("rejected:front-end")
		return r
	}
	checkSPIRV(c, r)
	checkHLSL(c, r)
	checkMSL(c, r)
	checkGLSL(c, r)
	return r
}

func judgeRaw(raw json.RawMessage) (bool, string) {
	var c c17case
	if err := json.Unmarshal(raw, &c); err != nil {
		return true, "unreadable case: " + err.Error()
	}
	r := judgeCase(&c)
	if len(r.viol) == 0 {
		return true, ""
	}
	var s []string
	for _, v := range r.viol {
		s = append(s, v.String())
	}
	return false, strings.Join(s, "\n")
}

// ---------------------------------------------------------------------------
// drawing option sets

func pick(t *rapid.T, label string, vals ...string) string {
	return vals[rapid.IntRange(0, len(vals)-1).Draw(t, label)]
}

func distinctBindings(c *wgen.FullCase) []rb {
	seen := map[rb]bool{}
	var out []rb
	for _, r := range c.Resources {
		k := rb{r.Group, r.Binding}
		if !seen[k] {
			seen[k] = true
			out = append(out, k)
		}
	}
	sort.Slice(out, func(i, j int) bool {
		if out[i].Group != out[j].Group {
			return out[i].Group < out[j].Group
		}
		return out[i].Binding < out[j].Binding
	})
	return out
}

// perm draws n distinct small numbers.
func perm(t *rapid.T, label string, n, limit int) []int {
	used := map[int]bool{}
	out := make([]int, n)
	for i := range out {
		v := rapid.IntRange(0, limit-1).Draw(t, label)
		for used[v] {
			v = (v + 1) % limit
		}
		used[v] = true
		out[i] = v
	}
	return out
}

func drawOptions(t *rapid.T, c *wgen.FullCase) options {
	var o options
	o.SpvVersion = pick(t, "spvv", "1.0", "1.1", "1.2", "1.3", "1.4", "1.5", "1.6")
	o.SpvDebug = rapid.Bool().Draw(t, "spvdbg")
	bs := distinctBindings(c)
	absent := func(label string) bool { return rapid.IntRange(0, 99).Draw(t, label) < 12 }

	o.HlslSM = pick(t, "hlslsm", "5_0", "5_1", "6_0", "6_6")
	o.HlslFake = rapid.Bool().Draw(t, "hlslfake") || ruleOff("hlsl.missing-binding.error")
	regs := perm(t, "hlslreg", len(bs), 48)
	for i, b := range bs {
		if absent("hlslabs") {
			continue
		}
		o.HlslMap = append(o.HlslMap, hlslEntry{b, rapid.IntRange(0, 5).Draw(t, "hlslsp"), regs[i]})
	}
	for _, g := range []int{0, 1} {
		if !absent("hlslsbabs") {
			o.HlslSamplerBuf = append(o.HlslSamplerBuf, hlslEntry{rb{g, 0}, 10 + rapid.IntRange(0, 3).Draw(t, "hlslsbsp"), rapid.IntRange(0, 20).Draw(t, "hlslsbr")})
		}
	}

	o.MslVersion = pick(t, "mslv", "1.2", "2.0", "2.1", "2.4", "3.1")
	o.MslFake = rapid.Bool().Draw(t, "mslfake") || ruleOff("msl.missing-binding.error")
	for _, e := range c.Entries {
		if rapid.IntRange(0, 99).Draw(t, "mslepabs") < 10 {
			continue // no map for this entry point at all
		}
		ep := mslEP{Entry: e.Name, SizesBuffer: -1}
		slots := perm(t, "mslslot", len(bs), 28)
		for i, b := range bs {
			if absent("mslabs") {
				continue
			}
			ep.Resources = append(ep.Resources, mslEntry{b, slots[i]})
		}
		if !absent("mslszabs") {
			ep.SizesBuffer = 29 + rapid.IntRange(0, 1).Draw(t, "mslsz")
		}
		o.MslMap = append(o.MslMap, ep)
	}

	vers := []string{"330", "410", "420", "430", "450", "460", "300es", "310es", "320es"}
	if c.UsesStorage || c.UsesAtomic {
		vers = []string{"430", "450", "460", "310es", "320es"}
	}
	for _, e := range c.Entries {
		if e.Stage == "compute" {
			vers = []string{"430", "450", "460", "310es", "320es"}
		}
	}
	o.GlslVersion = pick(t, "glslv", vers...)
	o.GlslUseMap = rapid.IntRange(0, 3).Draw(t, "glslmap") > 0
	gslots := perm(t, "glslslot", len(bs), 64)
	for i, b := range bs {
		if absent("glslabs") {
			continue
		}
		o.GlslMap = append(o.GlslMap, glslEntry{b, gslots[i]})
	}
	return o
}

// ruleOff: the assertion `rule` is suspended by an open known finding (tag
// "c17.<rule>"); VERIF_NO_EXCLUDE=1 re-enables everything.
func ruleOff(rule string) bool { return ev.Excluded("c17." + rule) }

// ---------------------------------------------------------------------------

func nontrivial(c *wgen.FullCase) bool {
	if len(c.Entries) >= 2 {
		shared, unshared := false, false
		for _, r := range c.Resources {
			if len(r.UsedBy) >= 2 {
				shared = true
			}
			if len(r.UsedBy) == 1 {
				unshared = true
			}
		}
		if shared && unshared {
			return true
		}
	}
	n := map[string]int{}
	for _, e := range c.Entries {
		for _, io := range append(append([]wgen.FullIO{}, e.Inputs...), e.Outputs...) {
			if io.Struct != "" {
				n[e.Name+"/"+io.Struct]++
			}
		}
	}
	for _, k := range n {
		if k >= 3 {
			return true
		}
	}
	return false
}

func TestPropBindings(t *testing.T) {
	ev.Rule("wgen.GenFull modules (1-4 entry points of mixed stages, shared / unshared / aliased resources, IO structs and bare IO, every builtin valid per stage, locations 0-15, interpolation, invariant, workgroup sizes) x one drawn option set per backend: SPIR-V version 1.0-1.6 x debug; HLSL BindingMap (distinct registers, spaces 0-5, ~12% absent entries) x FakeMissingBindings x SamplerBufferBindingMap; MSL PerEntryPointMap (distinct slots, absent entries, absent entry points, sizes buffer) x FakeMissingBindings; GLSL version x BindingMap (absent entries). Expectation = the generator's record + the maps. non-trivial = >= 2 entry points with >= 1 shared and >= 1 unshared resource, or an IO struct with >= 3 members; distinct = hash(text, option set)")
	ev.Assume("the generator's record of its own text (entry interfaces read back from the attribute strings it wrote; static use = the function text names the variable, closed over helper calls); overrides are resolved with ir.ProcessOverrides(module, nil) before every backend; a front-end or backend rejection is C08's business and only counted")
	rapid.Check(t, func(t *rapid.T) {
		g := wgen.GenFull(t, wgen.FullFeatures{Off: genOff})
		c := &c17case{WGSL: g.Src, Entries: g.Entries, Resources: g.Resources, UsesWorkgroup: g.UsesWorkgroup, Opt: drawOptions(t, g)}
		r := judgeCase(c)
		oj, _ := json.Marshal(c.Opt)
		ev.Eval(ev.HashS(c.WGSL, string(oj)), nontrivial(g))
		for k, n := range r.classes {
			ev.ClassN(k, int64(n))
		}
		for _, cl := range g.Classes {
			if strings.HasPrefix(cl, "io:") || strings.HasPrefix(cl, "entry:") || strings.HasPrefix(cl, "binding:") || strings.HasPrefix(cl, "interpolate:") || strings.HasPrefix(cl, "workgroup-size:") {
				ev.Class("gen:" + cl)
			}
		}
		ev.Class("opt:spv:" + c.Opt.SpvVersion)
		ev.Class("opt:glsl:" + c.Opt.GlslVersion)
		ev.Class(fmt.Sprintf("opt:hlsl:fake=%v", c.Opt.HlslFake))
		ev.Class(fmt.Sprintf("opt:msl:fake=%v", c.Opt.MslFake))
		if ev.WantSample("case") {
			ev.Sample("case", c)
		}
		var bad []violation
		for _, v := range r.viol {
			if ruleOff(v.Rule) {
				continue
			}
			bad = append(bad, v)
		}
		if os.Getenv("C17_BUCKETS") != "" {
			for _, v := range r.viol {
				bucket(v, c)
			}
			return
		}
		if len(bad) > 0 {
			var s []string
			for _, v := range bad {
				s = append(s, v.String())
			}
			msg := strings.Join(s, "\n")
			ev.Fail(checkName, c, msg)
			t.Fatalf("%s\n%s", msg, c.WGSL)
		}
	})
	dumpBuckets()
}

// ---------------------------------------------------------------------------
// triage aid: C17_BUCKETS=1 prints a histogram of violated rules with one sample each.

type bk struct {
	n   int
	msg string
	c   *c17case
}

var buckets = map[string]*bk{}

func bucket(v violation, c *c17case) {
	b := buckets[v.Rule]
	if b == nil {
		b = &bk{}
		buckets[v.Rule] = b
	}
	b.n++
	if b.c == nil || len(c.WGSL) < len(b.c.WGSL) {
		b.c, b.msg = c, v.Msg
	}
}

func dumpBuckets() {
	dir := os.Getenv("C17_BUCKETS")
	if dir == "" {
		return
	}
	_ = os.MkdirAll(dir, 0o755)
	var keys []string
	for k := range buckets {
		keys = append(keys, k)
	}
	sort.Strings(keys)
	for _, k := range keys {
		b := buckets[k]
		fmt.Printf("BUCKET %6d %s :: %s\n", b.n, k, firstLine(b.msg))
		j, _ := json.MarshalIndent(map[string]any{"property": "C17", "check": checkName, "message": k + ": " + b.msg, "case": b.c}, "", " ")
		_ = os.WriteFile(dir+"/"+strings.ReplaceAll(k, "/", "_")+".json", j, 0o644)
	}
}

func firstLine(s string) string {
	if i := strings.IndexByte(s, '\n'); i >= 0 {
		s = s[:i]
	}
	if len(s) > 220 {
		s = s[:220]
	}
	return s
}
