package c17

// Light declaration scanners for naga's HLSL / MSL / GLSL output.  naga writes
// one declaration per line in a fixed style, so line patterns are enough for
// what C17 reads: resource declarations with their register / slot / binding
// annotations, IO struct fields, entry-function signatures.  Lines that look
// like a declaration of interest but do not match are reported through
// `unparsed` (counted as a class by the caller, never a violation).

import (
	"regexp"
	"strconv"
	"strings"
)

func atoi(s string) int { n, _ := strconv.Atoi(s); return n }

// splitTop splits s at commas that are outside <>, () and [].
func splitTop(s string) []string {
	var out []string
	depth, start := 0, 0
	for i := 0; i < len(s); i++ {
		switch s[i] {
		case '<', '(', '[':
			depth++
		case '>', ')', ']':
			depth--
		case ',':
			if depth == 0 {
				out = append(out, strings.TrimSpace(s[start:i]))
				start = i + 1
			}
		}
	}
	if t := strings.TrimSpace(s[start:]); t != "" {
		out = append(out, t)
	}
	return out
}

// ---------------------------------------------------------------------------
// HLSL

type hlslRes struct {
	name, typ string
	class     byte
	reg       int
	space     int
	array     int
}

type hlslField struct {
	mods      string // interpolation modifiers and "precise"
	typ, name string
	sem       string
}

type hlslFunc struct {
	name, ret, retSem string
	params            []hlslField
	numthreads        [3]int
	hasNT             bool
}

type hlslScan struct {
	res      []hlslRes
	structs  map[string][]hlslField
	funcs    map[string]*hlslFunc
	unparsed []string
}

var (
	reHCbuffer = regexp.MustCompile(`^cbuffer\s+(\w+)\s*:\s*register\((\w)(\d+)(?:,\s*space(\d+))?\)`)
	reHRes     = regexp.MustCompile(`^([A-Za-z][\w<>, ]*?)\s+(\w+)(?:\[(\d+)\])?\s*:\s*register\((\w)(\d+)(?:,\s*space(\d+))?\);`)
	reHStruct  = regexp.MustCompile(`^struct (\w+) \{$`)
	reHField   = regexp.MustCompile(`^\s+((?:(?:nointerpolation|noperspective|centroid|sample|linear|precise|row_major|column_major) )*)([\w<>]+) (\w+)(?:\[\d+\])*(?: : (\w+))?;`)
	reHFunc    = regexp.MustCompile(`^(?:precise )?([A-Za-z_][\w<>]*) (\w+)\((.*)\)(?: : (\w+))?$`)
	reHNT      = regexp.MustCompile(`^\[numthreads\((\d+), (\d+), (\d+)\)\]$`)
	reHParam   = regexp.MustCompile(`^((?:(?:nointerpolation|noperspective|centroid|sample|linear|precise|in|out|inout) )*)([\w<>, ]+?) (\w+)(?: : (\w+))?$`)
)

func scanHLSL(text string) *hlslScan {
	s := &hlslScan{structs: map[string][]hlslField{}, funcs: map[string]*hlslFunc{}}
	lines := strings.Split(text, "\n")
	cur := ""
	var nt *[3]int
	for _, l := range lines {
		if cur != "" {
			if strings.HasPrefix(l, "}") {
				cur = ""
				continue
			}
			if m := reHField.FindStringSubmatch(l); m != nil {
				s.structs[cur] = append(s.structs[cur], hlslField{strings.TrimSpace(m[1]), m[2], m[3], m[4]})
			} else if strings.Contains(l, " : ") {
				s.unparsed = append(s.unparsed, l)
			}
			continue
		}
		if m := reHStruct.FindStringSubmatch(l); m != nil {
			cur = m[1]
			s.structs[cur] = nil
			continue
		}
		if m := reHCbuffer.FindStringSubmatch(l); m != nil {
			sp := 0
			if m[4] != "" {
				sp = atoi(m[4])
			}
			s.res = append(s.res, hlslRes{name: m[1], typ: "cbuffer", class: m[2][0], reg: atoi(m[3]), space: sp})
			continue
		}
		if m := reHRes.FindStringSubmatch(l); m != nil {
			sp := 0
			if m[6] != "" {
				sp = atoi(m[6])
			}
			s.res = append(s.res, hlslRes{name: m[2], typ: m[1], class: m[4][0], reg: atoi(m[5]), space: sp, array: atoi(m[3])})
			continue
		}
		if strings.Contains(l, "register(") {
			s.unparsed = append(s.unparsed, l)
			continue
		}
		if m := reHNT.FindStringSubmatch(l); m != nil {
			nt = &[3]int{atoi(m[1]), atoi(m[2]), atoi(m[3])}
			continue
		}
		if m := reHFunc.FindStringSubmatch(l); m != nil && !strings.HasPrefix(l, "static ") && !strings.HasPrefix(l, "return") {
			f := &hlslFunc{name: m[2], ret: m[1], retSem: m[4]}
			if nt != nil {
				f.numthreads, f.hasNT = *nt, true
			}
			for _, p := range splitTop(m[3]) {
				if pm := reHParam.FindStringSubmatch(p); pm != nil {
					f.params = append(f.params, hlslField{strings.TrimSpace(pm[1]), pm[2], pm[3], pm[4]})
				} else {
					s.unparsed = append(s.unparsed, "param: "+p)
				}
			}
			s.funcs[f.name] = f
		}
		nt = nil
	}
	return s
}

// ---------------------------------------------------------------------------
// MSL

type mslArg struct {
	typ, name string
	attrs     []string
}

type mslFunc struct {
	stage, ret, name string
	args             []mslArg
}

type mslScan struct {
	structs  map[string][]mslArg
	funcs    map[string]*mslFunc
	unparsed []string
}

var (
	reMEntry  = regexp.MustCompile(`^(vertex|fragment|kernel) (\S.*?) (\w+)\($`)
	reMStruct = regexp.MustCompile(`^struct (\w+) \{$`)
	reMAttr   = regexp.MustCompile(`^(.*\S)\s+(\w+)(?:\[\d+\])?\s*\[\[(.*)\]\];?$`)
	reMPlain  = regexp.MustCompile(`^(.*\S)\s+(\w+)(?:\[\d+\])?;?$`)
)

func parseMslDecl(l string) (mslArg, bool) {
	l = strings.TrimSpace(strings.TrimPrefix(strings.TrimSpace(l), ","))
	if m := reMAttr.FindStringSubmatch(l); m != nil {
		return mslArg{typ: m[1], name: m[2], attrs: splitTop(m[3])}, true
	}
	if m := reMPlain.FindStringSubmatch(l); m != nil {
		return mslArg{typ: m[1], name: m[2]}, true
	}
	return mslArg{}, false
}

func scanMSL(text string) *mslScan {
	s := &mslScan{structs: map[string][]mslArg{}, funcs: map[string]*mslFunc{}}
	lines := strings.Split(text, "\n")
	for i := 0; i < len(lines); i++ {
		l := lines[i]
		if m := reMStruct.FindStringSubmatch(l); m != nil {
			name := m[1]
			s.structs[name] = nil
			for i++; i < len(lines) && !strings.HasPrefix(lines[i], "}"); i++ {
				if a, ok := parseMslDecl(lines[i]); ok {
					s.structs[name] = append(s.structs[name], a)
				} else if strings.Contains(lines[i], "[[") {
					s.unparsed = append(s.unparsed, lines[i])
				}
			}
			continue
		}
		if m := reMEntry.FindStringSubmatch(l); m != nil {
			f := &mslFunc{stage: m[1], ret: m[2], name: m[3]}
			for i++; i < len(lines) && !strings.HasPrefix(lines[i], ")"); i++ {
				if strings.TrimSpace(lines[i]) == "" {
					continue
				}
				if a, ok := parseMslDecl(lines[i]); ok {
					f.args = append(f.args, a)
				} else {
					s.unparsed = append(s.unparsed, lines[i])
				}
			}
			s.funcs[f.name] = f
		}
	}
	return s
}

func attrArg(attrs []string, name string) (int, bool) {
	for _, a := range attrs {
		if strings.HasPrefix(a, name+"(") && strings.HasSuffix(a, ")") {
			n, err := strconv.Atoi(a[len(name)+1 : len(a)-1])
			return n, err == nil
		}
	}
	return 0, false
}

func hasAttr(attrs []string, name string) bool {
	for _, a := range attrs {
		if a == name {
			return true
		}
	}
	return false
}

// ---------------------------------------------------------------------------
// GLSL

type glslBlock struct {
	name, instance string
	storage        bool
	binding        int // -1: none
	layout         string
}

type glslSampler struct {
	typ, name string
	binding   int
}

type glslVarying struct {
	name, typ string
	dir       string // in | out
	location  int    // -1: none
	quals     string
}

type glslScan struct {
	version   string
	localSize [3]int
	hasLocal  bool
	blocks    []glslBlock
	samplers  []glslSampler
	varyings  []glslVarying
	invariant bool // "invariant gl_Position;"
	unparsed  []string
}

var (
	reGVersion = regexp.MustCompile(`^#version (\d+)(?: (core|es))?`)
	reGLocal   = regexp.MustCompile(`^layout\(local_size_x = (\d+), local_size_y = (\d+), local_size_z = (\d+)\) in;`)
	reGBlock   = regexp.MustCompile(`^layout\(([^)]*)\) ((?:readonly |writeonly |coherent |restrict )*)(uniform|buffer) (\w+) \{(.*)$`)
	reGSampler = regexp.MustCompile(`^(?:layout\(([^)]*)\) )?(?:readonly |writeonly |coherent |restrict )*uniform (?:highp |mediump |lowp )?(\w*(?:sampler|image|texture)\w*) (\w+);`)
	reGVarying = regexp.MustCompile(`^(?:layout\(location = (\d+)(?:, index = \d+)?\) )?((?:flat |smooth |noperspective |centroid |sample |invariant )*)(in|out) (?:highp |mediump |lowp )?(\w+) (\w+)(?:\[\d*\])?;`)
	reGInst    = regexp.MustCompile(`\b(_group_\d+_binding_\d+_\w+?)\b[\[;]`)
	reGBinding = regexp.MustCompile(`binding = (\d+)`)
)

func scanGLSL(text string) *glslScan {
	s := &glslScan{}
	lines := strings.Split(text, "\n")
	for i := 0; i < len(lines); i++ {
		l := lines[i]
		if m := reGVersion.FindStringSubmatch(l); m != nil {
			s.version = m[1]
			if m[2] == "es" {
				s.version += "es"
			}
			continue
		}
		if m := reGLocal.FindStringSubmatch(l); m != nil {
			s.localSize, s.hasLocal = [3]int{atoi(m[1]), atoi(m[2]), atoi(m[3])}, true
			continue
		}
		if strings.HasPrefix(l, "invariant gl_Position") {
			s.invariant = true
			continue
		}
		if m := reGBlock.FindStringSubmatch(l); m != nil {
			b := glslBlock{name: m[4], storage: m[3] == "buffer", binding: -1, layout: m[1]}
			if bm := reGBinding.FindStringSubmatch(m[1]); bm != nil {
				b.binding = atoi(bm[1])
			}
			body := m[5]
			for !strings.Contains(body, "}") && i+1 < len(lines) {
				i++
				body += "\n" + lines[i]
			}
			// instance name: the identifier between "}" and ";" or the sole member of the block
			if j := strings.LastIndex(body, "}"); j >= 0 {
				inst := strings.TrimSpace(strings.TrimSuffix(strings.TrimSpace(body[j+1:]), ";"))
				if inst != "" {
					b.instance = inst
				}
			}
			if b.instance == "" {
				if im := reGInst.FindStringSubmatch(body); im != nil {
					b.instance = im[1]
				}
			}
			s.blocks = append(s.blocks, b)
			continue
		}
		if m := reGSampler.FindStringSubmatch(l); m != nil {
			sm := glslSampler{typ: m[2], name: m[3], binding: -1}
			if bm := reGBinding.FindStringSubmatch(m[1]); bm != nil {
				sm.binding = atoi(bm[1])
			}
			s.samplers = append(s.samplers, sm)
			continue
		}
		if m := reGVarying.FindStringSubmatch(l); m != nil {
			v := glslVarying{name: m[5], typ: m[4], dir: m[3], location: -1, quals: strings.TrimSpace(m[2])}
			if m[1] != "" {
				v.location = atoi(m[1])
			}
			s.varyings = append(s.varyings, v)
			continue
		}
		if (strings.HasPrefix(l, "layout(") || strings.HasPrefix(l, "uniform ") || strings.HasPrefix(l, "buffer ")) && !strings.HasPrefix(l, "uniform uint naga_") {
			s.unparsed = append(s.unparsed, l)
		}
	}
	return s
}
