package c17

import (
	"encoding/json"
	"fmt"
	"os"
	"testing"

	"github.com/gogpu/naga"
	"github.com/gogpu/naga/glsl"
	"github.com/gogpu/naga/hlsl"
	"github.com/gogpu/naga/ir"
	"github.com/gogpu/naga/msl"
	"github.com/gogpu/naga/spirv"
	"pgregory.net/rapid"

	"verif/internal/spv"
	"verif/internal/wgen"
)

var dumped bool

// TestDump: development aid (C17_DUMP=1): print one generated module, its metadata and every backend's output.
func TestDump(t *testing.T) {
	if os.Getenv("C17_DUMP") == "" {
		t.Skip()
	}
	rapid.Check(t, func(t *rapid.T) {
		c := wgen.GenFull(t, wgen.FullFeatures{Off: genOff})
		st := ""
		for _, e := range c.Entries {
			st += e.Stage[:1]
		}
		if want := os.Getenv("C17_DUMP"); dumped || (want != "1" && st != want) {
			return
		}
		dumped = true
		fmt.Println(c.Src)
		b, _ := json.MarshalIndent(map[string]any{"entries": c.Entries, "resources": c.Resources}, "", " ")
		fmt.Println(string(b))
		ast, err := naga.Parse(c.Src)
		if err != nil {
			t.Fatal(err)
		}
		m, err := naga.LowerWithSource(ast, c.Src)
		if err != nil {
			t.Fatal(err)
		}
		if err := ir.ProcessOverrides(m, nil); err != nil {
			t.Fatal(err)
		}
		bin, err := naga.GenerateSPIRV(m, spirv.Options{Version: spirv.Version1_3, Debug: true})
		if err == nil {
			sm, _ := spv.Parse(bin)
			fmt.Println(sm.Disassemble()[:6000])
		} else {
			fmt.Println("SPIRV ERR", err)
		}
		ho := hlsl.DefaultOptions()
		hs, hi, err := hlsl.Compile(m, ho)
		fmt.Println("=== HLSL", err)
		fmt.Println(hs)
		fmt.Printf("%+v\n", hi)
		mo := msl.DefaultOptions()
		ms, mi, err := msl.Compile(m, mo)
		fmt.Println("=== MSL", err)
		fmt.Println(ms)
		fmt.Printf("%+v\n", mi)
		for _, ep := range m.EntryPoints {
			gs, gi, err := glsl.Compile(m, glsl.Options{LangVersion: glsl.Version450, EntryPoint: ep.Name})
			fmt.Println("=== GLSL", ep.Name, err)
			fmt.Println(gs)
			fmt.Printf("%+v\n", gi)
		}
	})
}

// TestShow: development aid (C17_SHOW=<replay json>, C17_BACKEND=hlsl|msl|glsl:<entry>|spirv): print the output for a saved case.
func TestShow(t *testing.T) {
	p := os.Getenv("C17_SHOW")
	if p == "" {
		t.Skip()
	}
	b, _ := os.ReadFile(p)
	var f struct {
		Case c17case `json:"case"`
	}
	if err := json.Unmarshal(b, &f); err != nil {
		t.Fatal(err)
	}
	c := &f.Case
	r := judgeCase(c)
	for _, v := range r.viol {
		fmt.Println("VIOLATION", v)
	}
	fmt.Println(showBackend(c, os.Getenv("C17_BACKEND")))
}
