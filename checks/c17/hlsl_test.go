package c17

import (
	"regexp"
	"fmt"
	"sort"
	"strings"

	"github.com/gogpu/naga/hlsl"

	"verif/internal/wgen"
)

func hlslClassOf(kind string) byte {
	switch kind {
	case "uniform":
		return 'b'
	case "storage_rw", "storage_texture":
		return 'u'
	case "sampler", "sampler_comparison":
		return 's'
	}
	return 't' // storage_ro, sampled / depth / multisampled textures
}

var hlslComputeSem = map[string]string{"global_invocation_id": "SV_DispatchThreadID", "local_invocation_id": "SV_GroupThreadID",
	"local_invocation_index": "SV_GroupIndex", "workgroup_id": "SV_GroupID"}

// hlslExpectedIO: "mods|SEMANTIC" strings; ok=false entries (num_workgroups: delivered through a constant
// buffer, its semantic is a placeholder) are not compared.
func hlslExpectedIO(e wgen.FullEntry) (in, out []string, skipIn int) {
	mods := func(io wgen.FullIO, interStage bool) string {
		if !interStage {
			return ""
		}
		var m []string
		switch io.Interp {
		case "flat":
			m = append(m, "nointerpolation")
		case "linear":
			m = append(m, "noperspective")
		}
		switch io.Sampling {
		case "centroid":
			m = append(m, "centroid")
		case "sample":
			m = append(m, "sample")
		}
		sort.Strings(m)
		return strings.Join(m, " ")
	}
	for _, io := range e.Inputs {
		switch {
		case io.Builtin == "":
			in = append(in, mods(io, e.Stage == "fragment")+"|LOC"+fmt.Sprint(io.Location))
		case io.Builtin == "num_workgroups":
			skipIn++
		case e.Stage == "compute":
			in = append(in, "|"+hlslComputeSem[io.Builtin])
		default:
			in = append(in, "|"+map[string]string{"vertex_index": "SV_VertexID", "instance_index": "SV_InstanceID", "position": "SV_Position",
				"front_facing": "SV_IsFrontFace", "sample_index": "SV_SampleIndex", "sample_mask": "SV_Coverage"}[io.Builtin])
		}
	}
	for _, io := range e.Outputs {
		switch {
		case io.Builtin == "" && e.Stage == "fragment":
			out = append(out, "|SV_Target"+fmt.Sprint(io.Location))
		case io.Builtin == "":
			out = append(out, mods(io, e.Stage == "vertex")+"|LOC"+fmt.Sprint(io.Location))
		default:
			out = append(out, "|"+map[string]string{"position": "SV_Position", "frag_depth": "SV_Depth", "sample_mask": "SV_Coverage"}[io.Builtin])
		}
	}
	return
}

func fieldKey(f hlslField, interStage bool) string {
	if !interStage {
		return "|" + f.sem
	}
	var m []string
	for _, x := range strings.Fields(f.mods) {
		if x != "precise" && x != "linear" {
			m = append(m, x)
		}
	}
	sort.Strings(m)
	return strings.Join(m, " ") + "|" + f.sem
}

// compileHLSL builds the options of the case and compiles the whole module.
func compileHLSL(c *c17case) (text string, info *hlsl.TranslationInfo, err error) {
	mod, err := lower(c.WGSL)
	if err != nil {
		return "", nil, err
	}
	o := hlsl.DefaultOptions()
	o.ShaderModel = hlslSMs[c.Opt.HlslSM]
	o.FakeMissingBindings = c.Opt.HlslFake
	o.BindingMap = map[hlsl.ResourceBinding]hlsl.BindTarget{}
	for _, e := range c.Opt.HlslMap {
		o.BindingMap[hlsl.ResourceBinding{Group: uint32(e.Group), Binding: uint32(e.Binding)}] = hlsl.BindTarget{Space: uint8(e.Space), Register: uint32(e.Register)}
	}
	o.SamplerBufferBindingMap = map[uint32]hlsl.BindTarget{}
	for _, e := range c.Opt.HlslSamplerBuf {
		o.SamplerBufferBindingMap[uint32(e.Group)] = hlsl.BindTarget{Space: uint8(e.Space), Register: uint32(e.Register)}
	}
	err = guarded(func() error {
		var e error
		text, info, e = hlsl.Compile(mod, o)
		return e
	})
	return
}

func checkHLSL(c *c17case, r *report) {
	if _, err := lower(c.WGSL); err != nil {
		return
	}
	given := map[rb]hlslEntry{}
	for _, e := range c.Opt.HlslMap {
		given[e.rb] = e
	}
	sbuf := map[int]hlslEntry{}
	for _, e := range c.Opt.HlslSamplerBuf {
		sbuf[e.Group] = e
	}
	text, info, err := compileHLSL(c)
	checkHLSLText(c, r, given, sbuf, text, info, err)
}

func checkHLSLText(c *c17case, r *report, given map[rb]hlslEntry, sbuf map[int]hlslEntry, text string, info *hlsl.TranslationInfo, err error) {
	// absent entries
	var absent []string
	samplerGroups := map[int]bool{}
	for _, res := range c.Resources {
		if _, ok := given[rb{res.Group, res.Binding}]; !ok {
			absent = append(absent, res.Name)
		}
		if strings.HasPrefix(res.Kind, "sampler") {
			samplerGroups[res.Group] = true
		}
	}
	for g := range samplerGroups {
		if _, ok := sbuf[g]; !ok {
			absent = append(absent, fmt.Sprintf("sampler index buffer of group %d", g))
		}
	}
	sort.Strings(absent)
	if len(absent) > 0 && !c.Opt.HlslFake {
		if err == nil {
			r.fail("hlsl.missing-binding.error", "hlsl.Compile succeeded although BindingMap has no entry for %v and FakeMissingBindings is off", absent)
		} else {
			r.class("hlsl:missing-binding:error-returned")
		}
		return
	}
	if err != nil {
		r.class("rejected:hlsl")
		return
	}
	r.class("checked:hlsl")
	sc := scanHLSL(text)
	if len(sc.unparsed) > 0 {
		r.class("hlsl:unparsed-declaration-lines")
	}
	find := func(name string) *hlslRes {
		for i := range sc.res {
			if sc.res[i].name == name || sc.res[i].name == name+"_" {
				return &sc.res[i]
			}
		}
		return nil
	}
	// --- resources
	invented := map[string]string{}
	for _, res := range c.Resources {
		if strings.HasPrefix(res.Kind, "sampler") {
			continue // samplers live in the sampler heaps (checked below)
		}
		hr := find(res.Name)
		if hr == nil {
			r.fail("hlsl.resource.missing", "resource %q (@group(%d) @binding(%d), %s) has no declaration with a register in the HLSL text", res.Name, res.Group, res.Binding, res.Kind)
			continue
		}
		if want := hlslClassOf(res.Kind); hr.class != want {
			r.fail("hlsl.resource.class", "resource %q (%s, %s) is declared in register class %c, expected %c", res.Name, res.Kind, res.Decl, hr.class, want)
		}
		if g, ok := given[rb{res.Group, res.Binding}]; ok {
			if hr.reg != g.Register || hr.space != g.Space {
				r.fail("hlsl.resource.register", "resource %q: BindingMap says register %d space %d, the text says %c%d space%d", res.Name, g.Register, g.Space, hr.class, hr.reg, hr.space)
			}
		} else {
			key := fmt.Sprintf("%c%d space%d", hr.class, hr.reg, hr.space)
			if other, dup := invented[key]; dup && !sameBinding(c, other, res.Name) {
				r.fail("hlsl.resource.fake-unique", "FakeMissingBindings gave %q and %q the same register %s", other, res.Name, key)
			}
			invented[key] = res.Name
		}
		// reflection
		if info != nil {
			want := fmt.Sprintf("register(%c%d)", hr.class, hr.reg)
			if hr.space != 0 {
				want = fmt.Sprintf("register(%c%d, space%d)", hr.class, hr.reg, hr.space)
			}
			got, ok := info.RegisterBindings[hr.name]
			if !ok {
				r.fail("hlsl.reflection.registerbindings", "RegisterBindings has no entry for %q (text: %s)", hr.name, want)
			} else if got != want && got != strings.Replace(want, ")", ", space0)", 1) {
				r.fail("hlsl.reflection.registerbindings", "RegisterBindings[%q] = %q, the text says %q", hr.name, got, want)
			}
		}
	}
	if info != nil {
		for name := range info.RegisterBindings {
			known := false
			for i := range sc.res {
				if sc.res[i].name == name {
					known = true
				}
			}
			if !known {
				r.fail("hlsl.reflection.registerbindings", "RegisterBindings names %q, which the text does not declare with a register", name)
			}
		}
	}
	// sampler heaps and index buffers
	for g := range samplerGroups {
		name := fmt.Sprintf("nagaGroup%dSamplerIndexArray", g)
		hr := find(name)
		used := false
		for _, res := range c.Resources {
			if strings.HasPrefix(res.Kind, "sampler") && res.Group == g && len(res.UsedBy) > 0 {
				used = true
			}
		}
		if hr == nil {
			if used {
				r.fail("hlsl.sampler.index-buffer", "samplers of group %d are used but %s is not declared", g, name)
			}
			continue
		}
		if e, ok := sbuf[g]; ok && (hr.reg != e.Register || hr.space != e.Space || hr.class != 't') {
			r.fail("hlsl.sampler.index-buffer", "%s: SamplerBufferBindingMap says t%d space%d, the text says %c%d space%d", name, e.Register, e.Space, hr.class, hr.reg, hr.space)
		}
	}
	for _, h := range []struct {
		name  string
		space int
	}{{"nagaSamplerHeap", 0}, {"nagaComparisonSamplerHeap", 1}} {
		if hr := find(h.name); hr != nil && (hr.class != 's' || hr.reg != 0 || hr.space != h.space) {
			r.fail("hlsl.sampler.heap", "%s: default SamplerHeapTargets say s0 space%d, the text says %c%d space%d", h.name, h.space, hr.class, hr.reg, hr.space)
		}
	}
	// --- entry points
	for _, e := range c.Entries {
		fn := ""
		if info != nil {
			fn = info.EntryPointNames[e.Name]
		}
		f := sc.funcs[fn]
		if f == nil {
			r.fail("hlsl.reflection.entrypointnames", "EntryPointNames[%q] = %q, no such function in the text", e.Name, fn)
			continue
		}
		if e.Stage == "compute" {
			if !f.hasNT || f.numthreads != e.WorkgroupSize {
				r.fail("hlsl.entry.numthreads", "entry point %q: [numthreads%v] (present=%v), @workgroup_size is %v", e.Name, f.numthreads, f.hasNT, e.WorkgroupSize)
			}
		} else if f.hasNT {
			r.fail("hlsl.entry.numthreads", "%s entry point %q carries [numthreads]", e.Stage, e.Name)
		}
		var gotIn, gotOut []string
		for _, p := range f.params {
			if fields, ok := sc.structs[p.typ]; ok {
				for _, fl := range fields {
					if fl.sem != "" {
						gotIn = append(gotIn, fieldKey(fl, e.Stage == "fragment"))
					}
				}
			} else if p.sem != "" {
				gotIn = append(gotIn, fieldKey(p, e.Stage == "fragment"))
			}
		}
		if fields, ok := sc.structs[f.ret]; ok {
			for _, fl := range fields {
				if fl.sem != "" {
					gotOut = append(gotOut, fieldKey(fl, e.Stage == "vertex"))
				}
			}
		} else if f.retSem != "" {
			gotOut = append(gotOut, "|"+f.retSem)
		}
		wantIn, wantOut, skip := hlslExpectedIO(e)
		missing, extra := diffMultiset(wantIn, gotIn)
		// compiler-introduced inputs: num_workgroups placeholder semantics, zero-init polyfill thread id
		var extra2 []string
		for _, x := range extra {
			if e.Stage == "compute" && (x == "|SV_GroupThreadID" || (x == "|SV_GroupID" && skip > 0)) {
				if x == "|SV_GroupID" {
					skip--
				}
				continue
			}
			extra2 = append(extra2, x)
		}
		if len(missing) > 0 || len(extra2) > 0 {
			r.fail(hlslIORule(missing, extra2, "in"), "entry point %q (%s) inputs: missing %v, unexplained %v (modifiers|semantic)", e.Name, e.Stage, missing, extra2)
		}
		if missing, extra := diffMultiset(wantOut, gotOut); len(missing) > 0 || len(extra) > 0 {
			r.fail(hlslIORule(missing, extra, "out"), "entry point %q (%s) outputs: missing %v, unexplained %v (modifiers|semantic)", e.Name, e.Stage, missing, extra)
		}
		hlslArgumentRebuild(c, r, sc, f, e, text)
	}
}

var (
	reHArgStruct = regexp.MustCompile(`^\s+[\w<>]+ (\w+) = \{ (.*) \};$`)
	reHArgBare   = regexp.MustCompile(`^\s+[\w<>]+ (\w+) = (\w+)\.(\w+);$`)
)

// hlslArgumentRebuild: when the backend gathers all inputs of an entry point in one generated input
// struct, the prologue of the function rebuilds the WGSL arguments from that struct's members
// (`Varyings v = { in.pos, in.base }; float4 tint = in.tint_1;`).  Each WGSL input, in declaration order,
// must be rebuilt from the member that carries ITS semantic.
func hlslArgumentRebuild(c *c17case, r *report, sc *hlslScan, f *hlslFunc, e wgen.FullEntry, text string) {
	if len(f.params) != 1 {
		return
	}
	fields, ok := sc.structs[f.params[0].typ]
	if !ok || len(fields) == 0 {
		return
	}
	pname := f.params[0].name
	semOf := map[string]string{}
	for _, fl := range fields {
		semOf[fl.name] = fl.sem
	}
	// the prologue: lines right after the function header
	lines := strings.Split(text, "\n")
	start := -1
	for i, l := range lines {
		if m := reHFunc.FindStringSubmatch(l); m != nil && m[2] == f.name {
			start = i + 2 // header, "{"
			break
		}
	}
	if start < 0 {
		return
	}
	var got []string // semantic of the member each flattened WGSL input is rebuilt from
	for i := start; i < len(lines); i++ {
		l := lines[i]
		if m := reHArgStruct.FindStringSubmatch(l); m != nil && strings.Contains(m[2], pname+".") {
			for _, part := range splitTop(m[2]) {
				part = strings.TrimSpace(part)
				if !strings.HasPrefix(part, pname+".") {
					return // a shape this scanner does not know: say nothing
				}
				got = append(got, semOf[strings.TrimPrefix(part, pname+".")])
			}
			continue
		}
		if m := reHArgBare.FindStringSubmatch(l); m != nil && m[2] == pname {
			got = append(got, semOf[m[3]])
			continue
		}
		break
	}
	want, _, _ := hlslExpectedIO(e)
	var wantSem []string
	for _, io := range e.Inputs {
		if io.Builtin == "num_workgroups" {
			return // delivered through a constant buffer: different prologue
		}
	}
	for _, w := range want {
		wantSem = append(wantSem, w[strings.IndexByte(w, '|')+1:])
	}
	if len(got) != len(wantSem) {
		r.class("hlsl:argument-rebuild:shape-not-recognised")
		return
	}
	r.class("hlsl:argument-rebuild:checked")
	for i := range got {
		if got[i] != wantSem[i] {
			r.fail("hlsl.io.argument-rebuild", "entry point %q: WGSL input #%d (%s) is bound to %s but the function prologue rebuilds it from the %s member of %s", e.Name, i, e.Inputs[i].Name, wantSem[i], got[i], f.params[0].typ)
			return
		}
	}
}

func hlslIORule(missing, extra []string, dir string) string {
	sem := func(l []string) []string {
		var o []string
		for _, x := range l {
			o = append(o, x[strings.IndexByte(x, '|'):])
		}
		return o
	}
	if m, e := diffMultiset(sem(missing), sem(extra)); len(m) == 0 && len(e) == 0 {
		return "hlsl.io.interpolation." + dir
	}
	return "hlsl.io.semantic." + dir
}

// sameBinding: two resources declared on the same @group/@binding (aliases).
func sameBinding(c *c17case, a, b string) bool {
	var ra, rbb *wgen.FullResource
	for i := range c.Resources {
		if c.Resources[i].Name == a {
			ra = &c.Resources[i]
		}
		if c.Resources[i].Name == b {
			rbb = &c.Resources[i]
		}
	}
	return ra != nil && rbb != nil && ra.Group == rbb.Group && ra.Binding == rbb.Binding
}
