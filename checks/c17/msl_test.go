package c17

import (
	"fmt"
	"sort"
	"strings"

	"github.com/gogpu/naga/ir"
	"github.com/gogpu/naga/msl"

	"verif/internal/wgen"
)

func u8p(i int) *uint8 { v := uint8(i); return &v }

func compileMSL(c *c17case) (text string, info msl.TranslationInfo, err error) {
	mod, err := lower(c.WGSL)
	if err != nil {
		return "", info, err
	}
	o := msl.DefaultOptions()
	o.LangVersion = mslVersions[c.Opt.MslVersion]
	o.FakeMissingBindings = c.Opt.MslFake
	if len(c.Opt.MslMap) > 0 {
		o.PerEntryPointMap = map[string]msl.EntryPointResources{}
	}
	rw := map[rb]bool{}
	for _, r := range c.Resources {
		if r.Kind == "storage_rw" || r.Kind == "storage_texture" {
			rw[rb{r.Group, r.Binding}] = true
		}
	}
	for _, ep := range c.Opt.MslMap {
		res := msl.EntryPointResources{Resources: map[ir.ResourceBinding]msl.BindTarget{}}
		for _, e := range ep.Resources {
			// the same slot number in every slot class: whichever kind the variable has finds its slot
			res.Resources[ir.ResourceBinding{Group: uint32(e.Group), Binding: uint32(e.Binding)}] = msl.BindTarget{
				Buffer: u8p(e.Slot), Texture: u8p(e.Slot), Sampler: &msl.BindSamplerTarget{Slot: uint8(e.Slot)}, Mutable: rw[e.rb]}
		}
		if ep.SizesBuffer >= 0 {
			res.SizesBuffer = u8p(ep.SizesBuffer)
		}
		o.PerEntryPointMap[ep.Entry] = res
	}
	err = guarded(func() error {
		var e error
		text, info, e = msl.Compile(mod, o)
		return e
	})
	return
}

func mslSlotAttr(kind string) string {
	switch kind {
	case "uniform", "storage_ro", "storage_rw":
		return "buffer"
	case "sampler", "sampler_comparison":
		return "sampler"
	}
	return "texture"
}

func mslInterp(io wgen.FullIO) string {
	if io.Interp == "flat" {
		return "flat"
	}
	s := "center"
	if io.Sampling == "centroid" || io.Sampling == "sample" {
		s = io.Sampling
	}
	if io.Interp == "linear" {
		return s + "_no_perspective"
	}
	return s + "_perspective"
}

var mslBuiltinIn = map[string]string{"vertex_index": "vertex_id", "instance_index": "instance_id", "position": "position", "front_facing": "front_facing",
	"sample_index": "sample_id", "sample_mask": "sample_mask", "global_invocation_id": "thread_position_in_grid",
	"local_invocation_id": "thread_position_in_threadgroup", "local_invocation_index": "thread_index_in_threadgroup",
	"workgroup_id": "threadgroup_position_in_grid", "num_workgroups": "threadgroups_per_grid"}

func mslExpectedIO(e wgen.FullEntry) (in, out []string) {
	for _, io := range e.Inputs {
		switch {
		case io.Builtin != "":
			in = append(in, mslBuiltinIn[io.Builtin])
		case e.Stage == "vertex":
			in = append(in, fmt.Sprintf("attribute(%d)", io.Location))
		default:
			in = append(in, fmt.Sprintf("user(loc%d) %s", io.Location, mslInterp(io)))
		}
	}
	for _, io := range e.Outputs {
		switch {
		case io.Builtin == "position" && io.Invariant:
			out = append(out, "position invariant")
		case io.Builtin == "position":
			out = append(out, "position")
		case io.Builtin == "frag_depth":
			out = append(out, "depth(any)")
		case io.Builtin == "sample_mask":
			out = append(out, "sample_mask")
		case e.Stage == "fragment":
			out = append(out, fmt.Sprintf("color(%d)", io.Location))
		default:
			out = append(out, fmt.Sprintf("user(loc%d) %s", io.Location, mslInterp(io)))
		}
	}
	return
}

func needsSizes(r wgen.FullResource) bool {
	return (r.Kind == "storage_ro" || r.Kind == "storage_rw") && (r.Decl == "RTail" || (strings.HasPrefix(r.Decl, "array<") && !strings.Contains(r.Decl, ", ")))
}

func checkMSL(c *c17case, r *report) {
	if _, err := lower(c.WGSL); err != nil {
		return
	}
	text, info, err := compileMSL(c)
	maps := map[string]*mslEP{}
	for i := range c.Opt.MslMap {
		maps[c.Opt.MslMap[i].Entry] = &c.Opt.MslMap[i]
	}
	slotOf := func(ep *mslEP, res wgen.FullResource) (int, bool) {
		for _, e := range ep.Resources {
			if e.Group == res.Group && e.Binding == res.Binding {
				return e.Slot, true
			}
		}
		return 0, false
	}
	usedBy := func(res wgen.FullResource, entry string) bool {
		for _, u := range res.UsedBy {
			if u == entry {
				return true
			}
		}
		return false
	}
	// absent entries of entry points that do have a map
	var absent []string
	for _, e := range c.Entries {
		ep := maps[e.Name]
		if ep == nil {
			continue
		}
		sizes := false
		for _, res := range c.Resources {
			if !usedBy(res, e.Name) {
				continue
			}
			if _, ok := slotOf(ep, res); !ok {
				absent = append(absent, e.Name+"/"+res.Name)
			}
			sizes = sizes || needsSizes(res)
		}
		if sizes && ep.SizesBuffer < 0 {
			absent = append(absent, e.Name+"/sizes buffer")
		}
	}
	if len(absent) > 0 && !c.Opt.MslFake {
		if err == nil {
			r.fail("msl.missing-binding.error", "msl.Compile succeeded although PerEntryPointMap lacks %v and FakeMissingBindings is off", absent)
		} else {
			r.class("msl:missing-binding:error-returned")
		}
		return
	}
	if err != nil {
		r.class("rejected:msl")
		return
	}
	r.class("checked:msl")
	sc := scanMSL(text)
	if len(sc.unparsed) > 0 {
		r.class("msl:unparsed-declaration-lines")
	}
	stageKw := map[string]string{"vertex": "vertex", "fragment": "fragment", "compute": "kernel"}
	for _, e := range c.Entries {
		fn := info.EntryPointNames[e.Name]
		f := sc.funcs[fn]
		if f == nil {
			r.fail("msl.reflection.entrypointnames", "EntryPointNames[%q] = %q, no such entry function in the text", e.Name, fn)
			continue
		}
		if f.stage != stageKw[e.Stage] {
			r.fail("msl.entry.stage", "entry point %q (%s) is declared `%s`", e.Name, e.Stage, f.stage)
		}
		ep := maps[e.Name]
		argByName := map[string]*mslArg{}
		for i := range f.args {
			argByName[f.args[i].name] = &f.args[i]
		}
		find := func(name string) *mslArg {
			if a := argByName[name]; a != nil {
				return a
			}
			return argByName[name+"_"]
		}
		resourceArg := map[string]bool{}
		usedSlots := map[string]string{}
		sizes := false
		for _, res := range c.Resources {
			a := find(res.Name)
			if a != nil {
				resourceArg[a.name] = true
			}
			if !usedBy(res, e.Name) {
				if a != nil {
					r.class("msl:unused-resource-argument")
				}
				continue
			}
			sizes = sizes || needsSizes(res)
			if a == nil {
				r.fail("msl.resource.missing", "entry point %q uses %q but its MSL function has no such argument", e.Name, res.Name)
				continue
			}
			kind := mslSlotAttr(res.Kind)
			n, has := attrArg(a.attrs, kind)
			if ep != nil {
				if slot, ok := slotOf(ep, res); ok {
					if !has || n != slot {
						r.fail("msl.resource.slot", "entry point %q, resource %q: PerEntryPointMap says %s(%d), the text says [[%s]]", e.Name, res.Name, kind, slot, strings.Join(a.attrs, ", "))
					}
					continue
				}
			}
			// no map entry: FakeMissingBindings ([[user(fake0)]]) or, for an entry point without any map, automatic slots
			switch {
			case c.Opt.MslFake:
				if !hasAttr(a.attrs, "user(fake0)") {
					r.fail("msl.resource.fake", "entry point %q, resource %q has no PerEntryPointMap entry and FakeMissingBindings is on, but the text says [[%s]] instead of [[user(fake0)]]", e.Name, res.Name, strings.Join(a.attrs, ", "))
				}
			case has:
				key := fmt.Sprintf("%s(%d)", kind, n)
				if other, dup := usedSlots[key]; dup && !sameBinding(c, other, res.Name) {
					r.fail("msl.resource.auto-unique", "entry point %q: automatic slots gave %q and %q the same %s", e.Name, other, res.Name, key)
				}
				usedSlots[key] = res.Name
			default:
				r.fail("msl.resource.slot", "entry point %q, resource %q carries no %s(n) attribute: [[%s]]", e.Name, res.Name, kind, strings.Join(a.attrs, ", "))
			}
		}
		if sizes {
			a := argByName["_buffer_sizes"]
			switch {
			case a == nil:
				r.fail("msl.sizes-buffer", "entry point %q uses a runtime-sized array but has no _buffer_sizes argument", e.Name)
			case ep != nil && ep.SizesBuffer >= 0:
				if n, ok := attrArg(a.attrs, "buffer"); !ok || n != ep.SizesBuffer {
					r.fail("msl.sizes-buffer", "entry point %q: SizesBuffer is %d, the text says [[%s]]", e.Name, ep.SizesBuffer, strings.Join(a.attrs, ", "))
				}
			}
			if a != nil {
				resourceArg[a.name] = true
			}
			if sizes != info.RequiresSizesBuffer && !info.RequiresSizesBuffer {
				r.fail("msl.reflection.requires-sizes-buffer", "entry point %q takes _buffer_sizes but TranslationInfo.RequiresSizesBuffer is false", e.Name)
			}
		}
		// IO attributes
		var gotIn, gotOut []string
		ioAttr := func(attrs []string) string {
			var keep []string
			for _, a := range attrs {
				keep = append(keep, a)
			}
			// canonical order: location/builtin first, then qualifiers
			sort.SliceStable(keep, func(i, j int) bool { return rank(keep[i]) < rank(keep[j]) })
			return strings.Join(keep, " ")
		}
		for _, a := range f.args {
			if resourceArg[a.name] {
				continue
			}
			if hasAttr(a.attrs, "stage_in") {
				for _, fl := range sc.structs[strings.TrimSpace(a.typ)] {
					gotIn = append(gotIn, ioAttr(fl.attrs))
				}
				continue
			}
			if len(a.attrs) > 0 {
				gotIn = append(gotIn, ioAttr(a.attrs))
			}
		}
		if fields, ok := sc.structs[f.ret]; ok {
			for _, fl := range fields {
				gotOut = append(gotOut, ioAttr(fl.attrs))
			}
		}
		wantIn, wantOut := mslExpectedIO(e)
		missing, extra := diffMultiset(wantIn, gotIn)
		var extra2 []string
		for _, x := range extra {
			if e.Stage == "compute" && x == "thread_position_in_threadgroup" {
				r.class("msl:polyfill-input:thread_position_in_threadgroup")
				continue
			}
			extra2 = append(extra2, x)
		}
		if len(missing) > 0 || len(extra2) > 0 {
			r.fail("msl.io.in", "entry point %q (%s) inputs: missing %v, unexplained %v", e.Name, e.Stage, missing, extra2)
		}
		if missing, extra := diffMultiset(wantOut, gotOut); len(missing) > 0 || len(extra) > 0 {
			r.fail("msl.io.out", "entry point %q (%s) outputs: missing %v, unexplained %v", e.Name, e.Stage, missing, extra)
		}
	}
}

func rank(attr string) int {
	switch {
	case strings.HasPrefix(attr, "user("), strings.HasPrefix(attr, "attribute("), strings.HasPrefix(attr, "color("), attr == "position":
		return 0
	case attr == "invariant":
		return 2
	}
	return 1
}
