package c17

import (
	"fmt"
	"regexp"
	"sort"
	"strings"

	"github.com/gogpu/naga/glsl"

	"verif/internal/wgen"
)

func compileGLSL(c *c17case, entry string) (text string, info glsl.TranslationInfo, err error) {
	mod, err := lower(c.WGSL)
	if err != nil {
		return "", info, err
	}
	o := glsl.Options{LangVersion: glslVersions[c.Opt.GlslVersion], EntryPoint: entry, ForceHighPrecision: true}
	if c.Opt.GlslUseMap {
		o.BindingMap = map[glsl.BindingMapKey]uint8{}
		for _, e := range c.Opt.GlslMap {
			o.BindingMap[glsl.BindingMapKey{Group: uint32(e.Group), Binding: uint32(e.Binding)}] = uint8(e.Slot)
		}
	}
	err = guarded(func() error {
		var e error
		text, info, e = glsl.Compile(mod, o)
		return e
	})
	return
}

var (
	reGName = regexp.MustCompile(`_group_(\d+)_binding_(\d+)_`)
	reGLoc  = regexp.MustCompile(`_location(\d+)$`)
)

func nameBinding(name string) (rb, bool) {
	m := reGName.FindStringSubmatch(name)
	if m == nil {
		return rb{}, false
	}
	return rb{atoi(m[1]), atoi(m[2])}, true
}

func glslQuals(io wgen.FullIO, es bool) string {
	var q []string
	switch io.Interp {
	case "flat":
		q = append(q, "flat")
	case "linear":
		q = append(q, "noperspective")
	}
	switch io.Sampling {
	case "centroid":
		q = append(q, "centroid")
	case "sample":
		q = append(q, "sample")
	}
	sort.Strings(q)
	return strings.Join(q, " ")
}

func checkGLSL(c *c17case, r *report) {
	if _, err := lower(c.WGSL); err != nil {
		return
	}
	slot := map[rb]int{}
	for _, e := range c.Opt.GlslMap {
		slot[e.rb] = e.Slot
	}
	es := strings.HasSuffix(c.Opt.GlslVersion, "es")
	explicit := glslExplicitBinding(c.Opt.GlslVersion)
	for _, e := range c.Entries {
		text, info, err := compileGLSL(c, e.Name)
		if err != nil {
			r.class("rejected:glsl")
			continue
		}
		r.class("checked:glsl")
		sc := scanGLSL(text)
		if len(sc.unparsed) > 0 {
			r.class("glsl:unparsed-declaration-lines")
		}
		if sc.version != c.Opt.GlslVersion {
			r.fail("glsl.version", "entry point %q: #version %s, requested %s", e.Name, sc.version, c.Opt.GlslVersion)
		}
		if got := info.EntryPointNames[e.Name]; got != "main" || !strings.Contains(text, "void main()") {
			r.fail("glsl.reflection.entrypointnames", "EntryPointNames[%q] = %q for the compiled entry point (the text defines main: %v)", e.Name, got, strings.Contains(text, "void main()"))
		}
		if e.Stage == "compute" {
			if !sc.hasLocal || sc.localSize != e.WorkgroupSize {
				r.fail("glsl.entry.local_size", "entry point %q: local_size %v (present=%v), @workgroup_size is %v", e.Name, sc.localSize, sc.hasLocal, e.WorkgroupSize)
			}
		} else if sc.hasLocal {
			r.fail("glsl.entry.local_size", "%s entry point %q declares local_size", e.Stage, e.Name)
		}
		// --- resources used by this entry point
		kindAt := map[rb][]string{} // kinds of the used resources per binding
		for _, res := range c.Resources {
			used := false
			for _, u := range res.UsedBy {
				used = used || u == e.Name
			}
			if !used {
				continue
			}
			k := rb{res.Group, res.Binding}
			kindAt[k] = append(kindAt[k], res.Kind)
			wantBinding := func(got int, what string) {
				s, inMap := slot[k]
				switch {
				case !explicit && got >= 0:
					r.fail("glsl.binding.unsupported-version", "entry point %q: %s carries layout(binding = %d) but GLSL %s has no binding qualifier", e.Name, what, got, c.Opt.GlslVersion)
				case explicit && c.Opt.GlslUseMap && inMap && got != s && strings.Count(what, "_group_") >= 2:
					// a texture sampled through a second sampler gets another combined uniform "<tex>_<samp>"
					r.fail("glsl.binding.map.second-sampler", "entry point %q: BindingMap maps @group(%d) @binding(%d) to %d, %s says binding = %d", e.Name, res.Group, res.Binding, s, what, got)
				case explicit && c.Opt.GlslUseMap && inMap && got != s:
					r.fail("glsl.binding.map", "entry point %q: BindingMap maps @group(%d) @binding(%d) to %d, %s says binding = %d", e.Name, res.Group, res.Binding, s, what, got)
				case explicit && c.Opt.GlslUseMap && !inMap:
					r.class("glsl:absent-map-entry")
				}
			}
			switch res.Kind {
			case "uniform", "storage_ro", "storage_rw":
				n := 0
				for _, b := range sc.blocks {
					if nb, ok := nameBinding(b.instance); ok && nb == k && b.storage == (res.Kind != "uniform") {
						n++
						wantBinding(b.binding, "block "+b.name)
					}
				}
				if n != 1 {
					r.fail("glsl.resource.block", "entry point %q uses %q (@group(%d) @binding(%d), %s): %d matching interface blocks in the text", e.Name, res.Name, res.Group, res.Binding, res.Kind, n)
				}
			case "sampler", "sampler_comparison":
				// GLSL has no separate samplers
			default:
				n := 0
				for _, s := range sc.samplers {
					if nb, ok := nameBinding(s.name); ok && nb == k {
						n++
						wantBinding(s.binding, "uniform "+s.name)
					}
				}
				if n == 0 {
					r.fail("glsl.resource.texture", "entry point %q uses %q (@group(%d) @binding(%d), %s): no sampler / image uniform for it in the text", e.Name, res.Name, res.Group, res.Binding, res.Kind)
				}
			}
		}
		// --- reflection: Uniforms <-> blocks
		seen := map[string]int{}
		for _, u := range info.Uniforms {
			seen[u.BlockName]++
			var blk *glslBlock
			for i := range sc.blocks {
				if sc.blocks[i].name == u.BlockName {
					blk = &sc.blocks[i]
				}
			}
			if blk == nil {
				r.fail("glsl.reflection.uniforms", "entry point %q: Uniforms lists block %q, which the text does not declare", e.Name, u.BlockName)
				continue
			}
			if nb, ok := nameBinding(blk.instance); ok && (int(u.Binding.Group) != nb.Group || int(u.Binding.Binding) != nb.Binding) {
				r.fail("glsl.reflection.uniforms", "entry point %q: Uniforms says block %q is @group(%d) @binding(%d), its instance is %s", e.Name, u.BlockName, u.Binding.Group, u.Binding.Binding, blk.instance)
			}
			if u.IsStorage != blk.storage {
				r.fail("glsl.reflection.uniforms", "entry point %q: Uniforms says IsStorage=%v for block %q, the text declares it as %s", e.Name, u.IsStorage, u.BlockName, map[bool]string{true: "buffer", false: "uniform"}[blk.storage])
			}
			if len(kindAt[rb{int(u.Binding.Group), int(u.Binding.Binding)}]) == 0 {
				r.fail("glsl.reflection.uniforms", "entry point %q: Uniforms names @group(%d) @binding(%d), which the entry point does not use", e.Name, u.Binding.Group, u.Binding.Binding)
			}
		}
		for _, b := range sc.blocks {
			if seen[b.name] != 1 {
				r.fail("glsl.reflection.uniforms", "entry point %q: block %q of the text appears %d times in Uniforms", e.Name, b.name, seen[b.name])
			}
		}
		// --- reflection: TextureMappings <-> sampler / image uniforms
		isTex := func(k rb) bool {
			for _, kd := range kindAt[k] {
				if strings.HasPrefix(kd, "texture") || kd == "storage_texture" {
					return true
				}
			}
			return false
		}
		isSamp := func(k rb) bool {
			for _, kd := range kindAt[k] {
				if strings.HasPrefix(kd, "sampler") {
					return true
				}
			}
			return false
		}
		textNames := map[string]bool{}
		for _, s := range sc.samplers {
			textNames[s.name] = true
			tm, ok := info.TextureMappings[s.name]
			if !ok {
				r.fail("glsl.reflection.texturemappings.missing", "entry point %q: uniform %s %s has no TextureMappings entry", e.Name, s.typ, s.name)
				continue
			}
			tb := rb{int(tm.TextureBinding.Group), int(tm.TextureBinding.Binding)}
			if nb, ok := nameBinding(s.name); ok && nb != tb {
				r.fail("glsl.reflection.texturemappings", "entry point %q: TextureMappings[%s].TextureBinding is @group(%d) @binding(%d)", e.Name, s.name, tb.Group, tb.Binding)
			}
			if !isTex(tb) {
				r.fail("glsl.reflection.texturemappings", "entry point %q: TextureMappings[%s].TextureBinding @group(%d) @binding(%d) is not a texture the entry point uses", e.Name, s.name, tb.Group, tb.Binding)
			}
			if tm.SamplerBinding != nil {
				sb := rb{int(tm.SamplerBinding.Group), int(tm.SamplerBinding.Binding)}
				if !isSamp(sb) {
					r.fail("glsl.reflection.texturemappings", "entry point %q: TextureMappings[%s].SamplerBinding @group(%d) @binding(%d) is not a sampler the entry point uses", e.Name, s.name, sb.Group, sb.Binding)
				}
				if strings.Contains(s.typ, "image") {
					r.fail("glsl.reflection.texturemappings", "entry point %q: image uniform %s has a SamplerBinding", e.Name, s.name)
				}
			}
		}
		for name := range info.TextureMappings {
			if !textNames[name] {
				r.fail("glsl.reflection.texturemappings", "entry point %q: TextureMappings names %q, which the text does not declare", e.Name, name)
			}
		}
		pairSeen := map[string]bool{}
		for _, p := range info.TextureSamplerPairs {
			if pairSeen[p] {
				r.fail("glsl.reflection.texturesamplerpairs", "entry point %q: TextureSamplerPairs lists %q twice", e.Name, p)
			}
			pairSeen[p] = true
			if !textNames[p] {
				r.fail("glsl.reflection.texturesamplerpairs", "entry point %q: TextureSamplerPairs lists %q, which the text does not declare", e.Name, p)
			}
		}
		for _, s := range sc.samplers {
			if tm, ok := info.TextureMappings[s.name]; ok && tm.SamplerBinding != nil && !pairSeen[s.name] {
				r.fail("glsl.reflection.texturesamplerpairs", "entry point %q: combined sampler %s (texture + sampler per TextureMappings) is missing from TextureSamplerPairs %v", e.Name, s.name, info.TextureSamplerPairs)
			}
		}
		// --- IO
		var want, got []string
		key := func(dir string, loc int, quals string) string {
			return fmt.Sprintf("%s location(%d) %s", dir, loc, quals)
		}
		for _, io := range e.Inputs {
			if io.Builtin == "" {
				q := ""
				if e.Stage == "fragment" {
					q = glslQuals(io, es)
				}
				want = append(want, key("in", io.Location, q))
			}
		}
		wantInv := false
		for _, io := range e.Outputs {
			if io.Builtin == "" {
				q := ""
				if e.Stage == "vertex" {
					q = glslQuals(io, es)
				}
				want = append(want, key("out", io.Location, q))
			}
			wantInv = wantInv || (io.Builtin == "position" && io.Invariant)
		}
		for _, v := range sc.varyings {
			loc := v.location
			nm := reGLoc.FindStringSubmatch(v.name)
			if nm != nil {
				if loc >= 0 && loc != atoi(nm[1]) {
					r.class("glsl:varying-name-location-differs")
				}
				if loc < 0 {
					loc = atoi(nm[1])
				}
			}
			if loc < 0 {
				r.class("glsl:varying-without-location")
				continue
			}
			var q []string
			inter := (e.Stage == "fragment" && v.dir == "in") || (e.Stage == "vertex" && v.dir == "out")
			for _, x := range strings.Fields(v.quals) {
				if x != "smooth" && inter {
					q = append(q, x)
				}
			}
			if es && strings.Contains(v.quals, "noperspective") {
				r.class("glsl:es-noperspective-qualifier") // not a GLSL ES qualifier; validity is not C17's business
			}
			sort.Strings(q)
			got = append(got, key(v.dir, loc, strings.Join(q, " ")))
		}
		if missing, extra := diffMultiset(want, got); len(missing) > 0 || len(extra) > 0 {
			r.fail("glsl.io.location", "entry point %q (%s, GLSL %s): in/out declarations differ from the WGSL interface: missing %v, unexplained %v", e.Name, e.Stage, c.Opt.GlslVersion, missing, extra)
		}
		if e.Stage == "vertex" && wantInv != sc.invariant {
			r.fail("glsl.io.invariant", "entry point %q: @invariant position=%v, `invariant gl_Position;` present=%v", e.Name, wantInv, sc.invariant)
		}
	}
}
