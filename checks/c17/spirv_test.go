package c17

import (
	"fmt"
	"sort"
	"strings"

	"github.com/gogpu/naga"
	"github.com/gogpu/naga/spirv"

	"verif/internal/spv"
	"verif/internal/wgen"
)

var spvBuiltin = map[string]uint32{
	"vertex_index": spv.BIVertexIndex, "instance_index": spv.BIInstanceIndex, "front_facing": spv.BIFrontFacing,
	"frag_depth": spv.BIFragDepth, "sample_index": spv.BISampleId, "sample_mask": spv.BISampleMask,
	"local_invocation_id": spv.BILocalInvocationId, "local_invocation_index": spv.BILocalInvocationIndex,
	"global_invocation_id": spv.BIGlobalInvocationId, "workgroup_id": spv.BIWorkgroupId, "num_workgroups": spv.BINumWorkgroups,
}

// ioKey renders one expected / observed interface variable canonically.
type ioVar struct {
	class   uint32 // SCInput / SCOutput
	loc     int    // -1 for builtins
	builtin int    // -1 for locations
	decos   string // sorted subset of Flat NoPerspective Centroid Sample Invariant
	typ     string // "f32x4", "u32x1", "bool", "u32[1]"
}

func (v ioVar) String() string {
	dir := "in"
	if v.class == spv.SCOutput {
		dir = "out"
	}
	where := fmt.Sprintf("location(%d)", v.loc)
	if v.builtin >= 0 {
		where = "builtin(" + spv.EnumName("BuiltIn", uint32(v.builtin)) + ")"
	}
	return strings.TrimSpace(fmt.Sprintf("%s %s %s %s", dir, where, v.typ, v.decos))
}

func wgslTypeKey(ty string) string {
	n := 1
	s := ty
	if strings.HasPrefix(ty, "vec") {
		n = int(ty[3] - '0')
		s = ty[5 : len(ty)-1]
	}
	if s == "bool" {
		return "bool"
	}
	return fmt.Sprintf("%sx%d", s, n)
}

func spvTypeKey(m *spv.Module, id uint32) string {
	t := m.Type(id)
	if t == nil {
		return "?"
	}
	scalar := func(t *spv.Type) string {
		switch t.Kind {
		case spv.TBool:
			return "bool"
		case spv.TFloat:
			return fmt.Sprintf("f%d", t.Width)
		case spv.TInt:
			if t.Signed {
				return fmt.Sprintf("i%d", t.Width)
			}
			return fmt.Sprintf("u%d", t.Width)
		}
		return "?"
	}
	switch t.Kind {
	case spv.TBool:
		return "bool"
	case spv.TInt, spv.TFloat:
		return scalar(t) + "x1"
	case spv.TVector:
		return fmt.Sprintf("%sx%d", scalar(m.Type(t.Elem)), t.Count)
	case spv.TArray:
		return fmt.Sprintf("%s[%d]", strings.TrimSuffix(spvTypeKey(m, t.Elem), "x1"), t.Count)
	}
	return t.Kind.String()
}

// expectedIO computes the SPIR-V interface variables of one entry point from
// the generator's record.
func expectedIO(e wgen.FullEntry) (vars []ioVar, fragDepth bool) {
	add := func(io wgen.FullIO, class uint32) {
		v := ioVar{class: class, loc: io.Location, builtin: -1, typ: wgslTypeKey(io.Type)}
		if io.Builtin != "" {
			v.loc = -1
			switch {
			case io.Builtin == "position" && class == spv.SCOutput:
				v.builtin = spv.BIPosition
			case io.Builtin == "position":
				v.builtin = spv.BIFragCoord
			default:
				v.builtin = int(spvBuiltin[io.Builtin])
			}
			if io.Builtin == "sample_mask" {
				v.typ = "u32[1]" // SampleMask is an array of 32-bit integers in SPIR-V
			}
			if io.Builtin == "frag_depth" {
				fragDepth = true
			}
			if io.Invariant && class == spv.SCOutput {
				v.decos = "Invariant"
			}
			vars = append(vars, v)
			return
		}
		// user-defined IO: interpolation decorations exist between vertex output and fragment input only
		interStage := (e.Stage == "vertex" && class == spv.SCOutput) || (e.Stage == "fragment" && class == spv.SCInput)
		if interStage {
			var d []string
			switch io.Interp {
			case "flat":
				d = append(d, "Flat")
			case "linear":
				d = append(d, "NoPerspective")
			}
			switch io.Sampling {
			case "centroid":
				d = append(d, "Centroid")
			case "sample":
				d = append(d, "Sample")
			}
			sort.Strings(d)
			v.decos = strings.Join(d, " ")
		}
		vars = append(vars, v)
	}
	for _, io := range e.Inputs {
		add(io, spv.SCInput)
	}
	for _, io := range e.Outputs {
		add(io, spv.SCOutput)
	}
	return
}

// resKey: (set, binding, storage class, type class) of a resource variable.
func expectedResKey(r wgen.FullResource, m *spv.Module) string {
	class, tk := "UniformConstant", ""
	switch r.Kind {
	case "uniform":
		class, tk = "Uniform", "block"
	case "storage_ro", "storage_rw":
		// StorageBuffer class + Block (1.3, or earlier with SPV_KHR_storage_buffer_storage_class) or Uniform + BufferBlock
		class, tk = "storage", "block"
	case "sampler", "sampler_comparison":
		tk = "sampler"
	default:
		tk = "image"
	}
	return fmt.Sprintf("set=%d binding=%d %s %s", r.Group, r.Binding, class, tk)
}

func actualResKey(m *spv.Module, rv spv.ResourceVar) string {
	class := spv.EnumName("StorageClass", rv.Storage)
	tk := "?"
	if t := m.Type(rv.Pointee); t != nil {
		switch t.Kind {
		case spv.TSampler:
			tk = "sampler"
		case spv.TImage:
			tk = "image"
		case spv.TSampledImage:
			tk = "sampledimage"
		case spv.TStruct:
			tk = "struct"
			if _, ok := m.Deco(t.ID, spv.DecBlock); ok {
				tk = "block"
			}
			if _, ok := m.Deco(t.ID, spv.DecBufferBlock); ok {
				tk = "bufferblock"
			}
		default:
			tk = t.Kind.String()
		}
	}
	if (class == "StorageBuffer" && tk == "block") || (class == "Uniform" && tk == "bufferblock") {
		class, tk = "storage", "block"
	}
	set, bind := "none", "none"
	if rv.HasSet {
		set = fmt.Sprint(rv.Set)
	}
	if rv.HasBind {
		bind = fmt.Sprint(rv.Binding)
	}
	return fmt.Sprintf("set=%s binding=%s %s %s", set, bind, class, tk)
}

func diffMultiset(want, got []string) (missing, extra []string) {
	n := map[string]int{}
	for _, w := range want {
		n[w]++
	}
	for _, g := range got {
		n[g]--
	}
	for k, v := range n {
		for ; v > 0; v-- {
			missing = append(missing, k)
		}
		for ; v < 0; v++ {
			extra = append(extra, k)
		}
	}
	sort.Strings(missing)
	sort.Strings(extra)
	return
}

func checkSPIRV(c *c17case, r *report) {
	mod, err := lower(c.WGSL)
	if err != nil {
		return
	}
	var bin []byte
	err = guarded(func() error {
		var e error
		bin, e = naga.GenerateSPIRV(mod, spirv.Options{Version: spvVersions[c.Opt.SpvVersion], Debug: c.Opt.SpvDebug})
		return e
	})
	if err != nil {
		r.class("rejected:spirv")
		return
	}
	m, err := spv.Parse(bin)
	if err != nil {
		r.class("spirv:unparsable")
		return
	}
	r.class("checked:spirv")

	// --- resource variables: DescriptorSet / Binding / storage class (all declared resources are emitted or
	// none of the unused ones: accept any subset that covers every used resource)
	var want, wantUsed, got []string
	for _, res := range c.Resources {
		k := expectedResKey(res, m)
		want = append(want, k)
		if len(res.UsedBy) > 0 {
			wantUsed = append(wantUsed, k)
		}
	}
	byID := map[uint32]string{}
	for _, rv := range m.ResourceVars() {
		k := actualResKey(m, rv)
		got = append(got, k)
		byID[rv.ID] = k
	}
	if _, extra := diffMultiset(want, got); len(extra) > 0 {
		r.fail("spv.resource.binding", "SPIR-V declares resource variables that no WGSL resource explains: %v (declared in WGSL: %v)", extra, want)
	}
	if missing, _ := diffMultiset(wantUsed, got); len(missing) > 0 {
		// got may hold more than wantUsed; only report keys that are short in got
		n := map[string]int{}
		for _, g := range got {
			n[g]++
		}
		var short []string
		for _, k := range missing {
			if n[k] == 0 {
				short = append(short, k)
			}
		}
		if len(short) > 0 {
			r.fail("spv.resource.binding", "SPIR-V lacks the resource variables %v (present: %v)", short, got)
		}
	}

	// --- entry points
	eps := m.EntryPoints()
	model := map[string]uint32{"vertex": spv.EMVertex, "fragment": spv.EMFragment, "compute": spv.EMGLCompute}
	seen := map[string]int{}
	for _, ep := range eps {
		seen[ep.Name]++
	}
	for _, e := range c.Entries {
		if seen[e.Name] != 1 {
			r.fail("spv.entry.name", "entry point %q appears %d times in OpEntryPoint (entry points: %v)", e.Name, seen[e.Name], seen)
			continue
		}
		var ep spv.EntryPointInfo
		for _, x := range eps {
			if x.Name == e.Name {
				ep = x
			}
		}
		if ep.Model != model[e.Stage] {
			r.fail("spv.entry.model", "entry point %q (%s) has execution model %s", e.Name, e.Stage, spv.EnumName("ExecutionModel", ep.Model))
		}
		// execution modes
		modes := map[uint32]bool{}
		for _, xm := range ep.Modes {
			modes[xm.Mode] = true
		}
		wantIO, fragDepth := expectedIO(e)
		switch e.Stage {
		case "compute":
			w := [3]uint32{uint32(e.WorkgroupSize[0]), uint32(e.WorkgroupSize[1]), uint32(e.WorkgroupSize[2])}
			if ep.LocalSize != w {
				r.fail("spv.entry.localsize", "entry point %q: LocalSize %v, @workgroup_size is %v", e.Name, ep.LocalSize, w)
			}
		case "fragment":
			if !modes[spv.XMOriginUpperLeft] {
				r.fail("spv.entry.origin", "fragment entry point %q lacks OriginUpperLeft", e.Name)
			}
			if fragDepth != modes[12] {
				r.fail("spv.entry.depthreplacing", "fragment entry point %q: DepthReplacing=%v but frag_depth output=%v", e.Name, modes[12], fragDepth)
			}
		}
		// interface
		dup := map[uint32]bool{}
		var gotIO, gotRes []string
		for _, id := range ep.Interface {
			if dup[id] {
				r.fail("spv.interface.duplicate", "entry point %q lists interface id %%%d twice", e.Name, id)
				continue
			}
			dup[id] = true
			def := m.Def(id)
			if def == nil {
				continue
			}
			sc := def.Arg(0)
			if sc != spv.SCInput && sc != spv.SCOutput {
				if !m.AtLeast(1, 4) {
					r.fail("spv.interface.class", "entry point %q lists a %s variable before SPIR-V 1.4", e.Name, spv.EnumName("StorageClass", sc))
				}
				if k, ok := byID[id]; ok {
					gotRes = append(gotRes, k)
				}
				continue
			}
			v := ioVar{class: sc, loc: -1, builtin: -1}
			if pt := m.Type(def.Type); pt != nil {
				v.typ = spvTypeKey(m, pt.Elem)
			}
			var d []string
			for _, dec := range m.Decorations(id) {
				if dec.Member >= 0 {
					continue
				}
				switch dec.Dec {
				case spv.DecLocation:
					v.loc = int(dec.Params[0])
				case spv.DecBuiltIn:
					v.builtin = int(dec.Params[0])
				case spv.DecFlat:
					d = append(d, "Flat")
				case spv.DecNoPerspective:
					d = append(d, "NoPerspective")
				case spv.DecCentroid:
					d = append(d, "Centroid")
				case spv.DecSample:
					d = append(d, "Sample")
				case spv.DecInvariant:
					d = append(d, "Invariant")
				}
			}
			if e.Stage == "fragment" && sc == spv.SCInput && v.builtin >= 0 && !strings.HasPrefix(v.typ, "f32") {
				// Vulkan wants Flat on every integer fragment input, builtins included; WGSL has no say: not compared
				var d2 []string
				for _, x := range d {
					if x != "Flat" {
						d2 = append(d2, x)
					}
				}
				d = d2
			}
			sort.Strings(d)
			v.decos = strings.Join(d, " ")
			gotIO = append(gotIO, v.String())
		}
		var wantS []string
		for _, v := range wantIO {
			wantS = append(wantS, v.String())
		}
		missing, extra := diffMultiset(wantS, gotIO)
		// compiler-introduced inputs: the workgroup zero-initialisation polyfill reads LocalInvocationId
		var extra2 []string
		for _, x := range extra {
			if e.Stage == "compute" && x == "in builtin(LocalInvocationId) u32x3" {
				r.class("spirv:polyfill-input:LocalInvocationId")
				continue
			}
			extra2 = append(extra2, x)
		}
		if len(missing) > 0 || len(extra2) > 0 {
			r.fail(ioRule(missing, extra2), "entry point %q (%s): interface variables differ from the WGSL declaration: missing %v, unexplained %v", e.Name, e.Stage, missing, extra2)
		}
		if m.AtLeast(1, 4) {
			var wantRes []string
			for _, res := range c.Resources {
				for _, u := range res.UsedBy {
					if u == e.Name {
						wantRes = append(wantRes, expectedResKey(res, m))
					}
				}
			}
			missing, extra := diffMultiset(wantRes, gotRes)
			if len(missing) > 0 {
				r.fail("spv.interface.resources.missing", "entry point %q (SPIR-V %s): interface lacks the used resource variables %v", e.Name, c.Opt.SpvVersion, missing)
			}
			if len(extra) > 0 {
				r.fail("spv.interface.resources.unused", "entry point %q (SPIR-V %s): interface lists resource variables the entry point does not use: %v", e.Name, c.Opt.SpvVersion, extra)
			}
		}
	}
	if len(eps) != len(c.Entries) {
		r.fail("spv.entry.count", "%d OpEntryPoint for %d WGSL entry points", len(eps), len(c.Entries))
	}
}

// ioRule refines the rule name of an interface mismatch so that known
// findings can be excluded narrowly.
func ioRule(missing, extra []string) string {
	all := strings.Join(append(append([]string{}, missing...), extra...), " | ")
	strip := func(s string) string {
		for _, d := range []string{" Flat", " NoPerspective", " Centroid", " Sample", " Invariant"} {
			s = strings.ReplaceAll(s, d, "")
		}
		return s
	}
	// same variables up to decorations?
	var ms, es []string
	for _, x := range missing {
		ms = append(ms, strip(x))
	}
	for _, x := range extra {
		es = append(es, strip(x))
	}
	if mm, ee := diffMultiset(ms, es); len(mm) == 0 && len(ee) == 0 {
		switch {
		case strings.Contains(all, "Invariant"):
			return "spv.io.invariant"
		default:
			return "spv.io.interpolation"
		}
	}
	return "spv.io.interface"
}
