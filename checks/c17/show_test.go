package c17

import (
	"fmt"
	"strings"

	"github.com/gogpu/naga"
	"github.com/gogpu/naga/spirv"

	"verif/internal/spv"
)

// showBackend recompiles the case for one backend and returns the text (development aid).
func showBackend(c *c17case, which string) string {
	switch {
	case which == "hlsl":
		t, _, err := compileHLSL(c)
		return fmt.Sprintf("%v\n%s", err, t)
	case which == "msl":
		t, _, err := compileMSL(c)
		return fmt.Sprintf("%v\n%s", err, t)
	case strings.HasPrefix(which, "glsl:"):
		t, info, err := compileGLSL(c, which[5:])
		return fmt.Sprintf("%v\n%s\n%+v", err, t, info)
	case which == "spirv":
		mod, err := lower(c.WGSL)
		if err != nil {
			return err.Error()
		}
		bin, err := naga.GenerateSPIRV(mod, spirv.Options{Version: spvVersions[c.Opt.SpvVersion], Debug: c.Opt.SpvDebug})
		if err != nil {
			return err.Error()
		}
		m, _ := spv.Parse(bin)
		return m.Disassemble()
	}
	return c.WGSL
}
