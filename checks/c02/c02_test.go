// Package c02 checks property C02: every emitted SPIR-V module is
// structurally valid.
package c02

import (
	"encoding/json"
	"fmt"
	"os"
	"path/filepath"
	"regexp"
	"sort"
	"strings"
	"sync"
	"testing"

	"github.com/gogpu/naga"
	"github.com/gogpu/naga/ir"
	"github.com/gogpu/naga/spirv"
	"pgregory.net/rapid"

	"verif/internal/ev"
	"verif/internal/spv"
	"verif/internal/wgen"
	"verif/internal/wref"
)

func TestMain(m *testing.M) { ev.Main(m, "C02") }

var judges = map[string]ev.Judge{"spirv-valid": judgeValid}

func TestKnown(t *testing.T)  { ev.RunKnown(t, "C02", judges) }
func TestReplay(t *testing.T) { ev.RunReplay(t, judges) }

// Case is the serialisable case.
type Case struct {
	WGSL string            `json:"wgsl"`
	Opts map[string]string `json:"opts"`
	Name string            `json:"name,omitempty"`
}

func options(o map[string]string) spirv.Options {
	var maj, mnr int
	fmt.Sscanf(o["version"], "%d.%d", &maj, &mnr)
	if maj == 0 {
		maj, mnr = 1, 3
	}
	pol := func(k string) spirv.BoundsCheckPolicy {
		switch o[k] {
		case "1":
			return spirv.BoundsCheckRestrict
		case "2":
			return spirv.BoundsCheckReadZeroSkipWrite
		}
		return spirv.BoundsCheckUnchecked
	}
	return spirv.Options{
		Version:                 spirv.Version{Major: uint8(maj), Minor: uint8(mnr)},
		Debug:                   o["debug"] == "1",
		ForcePointSize:          o["pointsize"] == "1",
		AdjustCoordinateSpace:   o["adjust"] == "1",
		ForceLoopBounding:       o["loopbound"] == "1",
		UseStorageInputOutput16: o["io16"] == "1",
		BoundsCheckPolicies:     spirv.BoundsCheckPolicies{ImageLoad: pol("imgload"), ImageStore: pol("imgstore"), Index: pol("index")},
	}
}

type verdict struct {
	rejected string
	issues   []spv.Issue
	parseErr string
	mod      *spv.Module
	size     int
}

func compile(c *Case) (v verdict) {
	defer func() {
		if r := recover(); r != nil {
			v.rejected = fmt.Sprintf("panic: %v", r)
		}
	}()
	ast, err := naga.Parse(c.WGSL)
	if err != nil {
		return verdict{rejected: "parse: " + err.Error()}
	}
	m, err := naga.LowerWithSource(ast, c.WGSL)
	if err != nil {
		return verdict{rejected: "lower: " + err.Error()}
	}
	if c.Opts["overrides"] == "1" {
		// pipeline-overridable constants must be resolved before code generation (all take their defaults)
		if err := ir.ProcessOverrides(m, nil); err != nil {
			return verdict{rejected: "overrides: " + err.Error()}
		}
	}
	bin, err := naga.GenerateSPIRV(m, options(c.Opts))
	if err != nil {
		return verdict{rejected: "spirv: " + err.Error()}
	}
	mod, err := spv.Parse(bin)
	if err != nil {
		return verdict{parseErr: err.Error(), size: len(bin)}
	}
	return verdict{issues: spv.Validate(mod), mod: mod, size: len(bin)}
}

// suppressed reports whether an issue belongs to an open known finding.
func suppressed(i spv.Issue, c *Case, m *spv.Module) bool {
	for _, k := range knownIssueTags {
		if ev.ExcludedQuiet(k.tag) && k.match(i, c, m) {
			ev.Class("known:" + k.tag)
			return true
		}
	}
	return false
}

type issueTag struct {
	tag   string
	match func(i spv.Issue, c *Case, m *spv.Module) bool
}

// opNear reports whether one of the n instructions before inst has one of the opcodes.
func opNear(m *spv.Module, inst, n int, ops ...uint16) bool {
	for k := inst - 1; k >= 0 && k >= inst-n && k < len(m.Insts); k-- {
		for _, op := range ops {
			if m.Insts[k].Op == op {
				return true
			}
		}
	}
	return false
}

func instOp(m *spv.Module, inst int) uint16 {
	if inst < 0 || inst >= len(m.Insts) {
		return 0xffff
	}
	return m.Insts[inst].Op
}

// knownIssueTags: result-side suppression of validator issues that belong to an open finding.
// Every matcher is as narrow as the defect allows: rule id + message shape + the option / opcode
// context that triggers the defect.
var knownIssueTags = []issueTag{
	// C02-1: ReadZeroSkipWrite image loads branch on the bounds test without OpSelectionMerge
	{"c02.rzsw-image-load.no-merge", func(i spv.Issue, c *Case, m *spv.Module) bool {
		return i.Rule == "cfg.merge-missing" && c.Opts["imgload"] == "2" && strings.HasPrefix(i.Msg, "OpBranchConditional with 2 non-merge successors") &&
			opNear(m, i.Inst, 4, spv.OpImageQuerySize, spv.OpImageQuerySizeLod, spv.OpImageQuerySamples, spv.OpImageQueryLevels)
	}},
	// C02-2: Restrict image loads with unsigned coordinates build vecN<u32> constants from the i32 constant 1
	{"c02.restrict-image-load.const-type", func(i spv.Issue, c *Case, m *spv.Module) bool {
		return i.Rule == "const.type" && c.Opts["imgload"] == "1" && strings.Contains(i.Msg, "has type i32, want u32") && instOp(m, i.Inst) == spv.OpConstantComposite
	}},
	// C02-5: the result of textureLoad on a texture_*<i32> is typed vec4<f32> by the lowerer: arithmetic on it is
	// emitted with float opcodes / float result types on the vec4<i32> the OpImageFetch produces
	{"c02.texture-i32.load-typed-f32", func(i spv.Issue, c *Case, m *spv.Module) bool {
		if i.Inst < 0 || i.Inst >= len(m.Insts) || !(strings.HasPrefix(i.Rule, "type.") || i.Rule == "composite.shape" || i.Rule == "extinst.types" ||
			i.Rule == "mem.store-type" || i.Rule == "call.signature" || i.Rule == "return.type" || i.Rule == "phi.type") {
			return false
		}
		// the offending instruction computes (within a few steps) on the result of an image instruction
		// whose result type is a signed integer vector
		var fromSintImage func(id uint32, depth int) bool
		fromSintImage = func(id uint32, depth int) bool {
			d := m.Def(id)
			if d == nil || depth > 6 {
				return false
			}
			if d.Op >= 87 && d.Op <= 98 { // OpImageSample* … OpImageRead
				if t := m.Type(d.Type); t != nil {
					if t.Kind == spv.TVector {
						t = m.Type(t.Elem)
					}
					return t != nil && t.Kind == spv.TInt && t.Signed
				}
				return false
			}
			if d.Op == spv.OpLoad || d.Op == spv.OpVariable || d.Op == spv.OpFunctionParameter || d.Op == spv.OpFunctionCall {
				return false
			}
			for _, a := range d.IDs() {
				if a != d.Type && fromSintImage(a, depth+1) {
					return true
				}
			}
			return false
		}
		in := m.Insts[i.Inst]
		for _, a := range in.IDs() {
			if a != in.Type && fromSintImage(a, 0) {
				return true
			}
		}
		return false
	}},
	// C02-7: a pointer argument that is not a whole variable (&wmem[i], &pv.m) is copied into a Function-class
	// temporary although the parameter is ptr<workgroup / private, T>
	{"c02.call.spilled-pointer-arg-class", func(i spv.Issue, c *Case, m *spv.Module) bool {
		return i.Rule == "call.signature" && spilledArgRe.MatchString(i.Msg)
	}},
	// C02-6: ir.ProcessOverrides leaves the gradient operands of textureSampleGrad pointing at the wrong expressions
	{"c02.override.gradient-remap", func(i spv.Issue, c *Case, m *spv.Module) bool {
		if c.Opts["overrides"] != "1" || instOp(m, i.Inst) != 88 /* OpImageSampleExplicitLod */ || m.Insts[i.Inst].Arg(2)&0x4 == 0 {
			return false
		}
		switch i.Rule {
		case "image.operands", "ssa.dominance", "id.forward", "id.undefined", "type.operand-value", "ssa.cross-function":
			return true
		}
		return false
	}},
	// C02-3: ir.ProcessOverrides folds a comparison between an override and a constant to a literal of the
	// operand type instead of bool
	{"c02.override.compare-fold", func(i spv.Issue, c *Case, m *spv.Module) bool {
		if c.Opts["overrides"] != "1" {
			return false
		}
		// every symptom is a numeric constant where a bool (scalar or vector) is required
		switch i.Rule {
		case "branch.condition", "type.select", "composite.shape", "mem.store-type", "return.type", "type.operand-relation", "type.result",
			"call.signature", "phi.type", "var.initializer", "const.type":
			return strings.Contains(i.Msg, "bool")
		}
		return false
	}},
}

var spilledArgRe = regexp.MustCompile(`^OpFunctionCall argument \d+ has type ptr<Function,(.*)>, parameter type is ptr<(Workgroup|Private),(.*)>$`)

func judgeValid(raw json.RawMessage) (bool, string) {
	var c Case
	if err := json.Unmarshal(raw, &c); err != nil {
		return false, "bad case: " + err.Error()
	}
	v := compile(&c)
	if v.rejected != "" {
		return true, "rejected: " + v.rejected
	}
	if v.parseErr != "" {
		return false, "emitted binary does not parse: " + v.parseErr
	}
	if len(v.issues) > 0 {
		return false, issuesText(v.issues)
	}
	return true, ""
}

func issuesText(is []spv.Issue) string {
	var b strings.Builder
	for i, x := range is {
		if i == 6 {
			fmt.Fprintf(&b, "… (+%d more)", len(is)-6)
			break
		}
		fmt.Fprintf(&b, "[%s] %s; ", x.Rule, x.Msg)
	}
	return b.String()
}

func nonTrivial(m *spv.Module) bool {
	if m == nil {
		return false
	}
	d := m.Disassemble()
	return strings.Contains(d, "OpSelectionMerge") || strings.Contains(d, "OpLoopMerge") ||
		strings.Contains(d, "OpTypeStruct") || strings.Contains(d, "OpTypeArray") || strings.Contains(d, "OpTypeMatrix")
}

var versions = []string{"1.0", "1.1", "1.2", "1.3", "1.4", "1.5", "1.6"}

func drawOpts(t *rapid.T) map[string]string {
	b := func(l string) string { return fmt.Sprint(rapid.IntRange(0, 1).Draw(t, l)) }
	p := func(l string) string { return fmt.Sprint(rapid.IntRange(0, 2).Draw(t, l)) }
	return map[string]string{"version": versions[rapid.IntRange(0, 6).Draw(t, "version")], "debug": b("debug"),
		"pointsize": b("pointsize"), "adjust": b("adjust"), "loopbound": b("loopbound"), "io16": b("io16"),
		"imgload": p("imgload"), "imgstore": p("imgstore"), "index": p("index")}
}

func check(t *rapid.T, c *Case, classes []string) {
	v := compile(c)
	raw, _ := json.Marshal(c.Opts)
	if v.rejected != "" {
		ev.Class("rejected-by-naga")
		ev.Eval(ev.HashS(c.WGSL, string(raw)), false)
		return
	}
	nt := nonTrivial(v.mod)
	ev.Eval(ev.HashS(c.WGSL, string(raw)), nt)
	ev.Class("opt:version=" + c.Opts["version"])
	for _, k := range classes {
		ev.Class("gen:" + k)
	}
	if v.mod != nil {
		for k, n := range v.mod.Unchecked() {
			ev.ClassN("unchecked-opcode:"+k, int64(n))
		}
	}
	if nt && ev.WantSample("module") {
		ev.Sample("module", map[string]any{"wgsl": c.WGSL, "opts": c.Opts, "bytes": v.size})
	}
	if v.parseErr != "" {
		msg := "emitted binary does not parse: " + v.parseErr
		ev.Fail("spirv-valid", c, msg)
		t.Fatalf("%s\n%s", msg, c.WGSL)
	}
	var left []spv.Issue
	for _, i := range v.issues {
		if !suppressed(i, c, v.mod) {
			left = append(left, i)
		}
	}
	if len(left) > 0 {
		msg := issuesText(left)
		ev.Fail("spirv-valid", c, msg)
		t.Fatalf("%s\n%s", msg, c.WGSL)
	}
}

func TestPropGenerated(t *testing.T) {
	ev.Rule("generated exec-profile programs, generated full-profile modules (vertex/fragment/compute entry points, IO structs, textures, samplers, shared bindings, atomics) and the 172-file corpus x SPIR-V versions 1.0-1.6 x {debug, ForcePointSize, AdjustCoordinateSpace, ForceLoopBounding, UseStorageInputOutput16, image-load / image-store / index bounds-check policies}; oracle: independent SPIR-V reader + validator of the universal rules (header/bound, section order, ids defined once and dominating uses, unique non-aggregate types, per-opcode operand kinds and type relations, block termination, structured control flow, entry-point interfaces, Vulkan layout/interface decorations, capabilities/extensions); non-trivial = module has a selection/loop construct or a struct/array/matrix type; distinct = hash(WGSL, options)")
	ev.Assume("verif/internal/spv.Validate encodes only rules its author is certain are universal; opcodes outside its operand table are counted as unchecked")
	rapid.Check(t, func(t *rapid.T) {
		f := wgen.DefaultFeatures()
		f.ConstOK = wref.ConstOK
		f.Off = func(tag string) bool { return ev.Excluded(tag) || ev.Excluded("spv."+tag) }
		gc := wgen.GenExec(t, f)
		check(t, &Case{WGSL: gc.Src, Opts: drawOpts(t)}, gc.Classes)
	})
}

func TestPropFull(t *testing.T) {
	rapid.Check(t, func(t *rapid.T) {
		off := func(tag string) bool { return ev.Excluded(tag) || ev.Excluded("spv."+tag) }
		fc := wgen.GenFull(t, wgen.FullFeatures{Off: off})
		c := &Case{WGSL: fc.Src, Opts: drawOpts(t)}
		for _, cl := range fc.Classes {
			if cl == "override" {
				c.Opts["overrides"] = "1"
			}
		}
		check(t, c, append([]string{"full"}, fc.Classes...))
	})
}

var (
	corpusOnce sync.Once
	corpus     []string
	corpusName []string
)

func loadCorpus() {
	corpusOnce.Do(func() {
		files, _ := filepath.Glob("/repo/snapshot/testdata/in/*.wgsl")
		sort.Strings(files)
		for _, f := range files {
			if b, err := os.ReadFile(f); err == nil {
				corpus = append(corpus, string(b))
				corpusName = append(corpusName, filepath.Base(f))
			}
		}
	})
}

func TestPropCorpus(t *testing.T) {
	loadCorpus()
	rapid.Check(t, func(t *rapid.T) {
		i := rapid.IntRange(0, len(corpus)-1).Draw(t, "file")
		c := &Case{WGSL: corpus[i], Opts: drawOpts(t), Name: corpusName[i]}
		if strings.Contains(corpus[i], "override ") {
			c.Opts["overrides"] = "1"
		}
		if ev.ExcludedQuiet("c02.corpus." + corpusName[i]) {
			ev.Class("excluded:corpus-file")
			return
		}
		check(t, c, []string{"corpus"})
	})
}
