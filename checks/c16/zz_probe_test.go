package c16

import (
	"fmt"
	"os"
	"runtime/debug"
	"testing"

	"github.com/gogpu/naga"
)

func TestProbeLower(t *testing.T) {
	p := os.Getenv("C16_WGSL")
	if p == "" {
		t.Skip()
	}
	b, _ := os.ReadFile(p)
	defer func() {
		if r := recover(); r != nil {
			fmt.Printf("panic: %v\n%s\n", r, debug.Stack())
		}
	}()
	ast, err := naga.Parse(string(b))
	fmt.Println("parse:", err)
	if err == nil {
		_, err = naga.LowerWithSource(ast, string(b))
		fmt.Println("lower:", err)
	}
}
