package c16

import (
	"encoding/json"
	"fmt"
	"os"
	"strings"
	"testing"

	"verif/internal/ev"
	"verif/internal/meta"
)

// TestMakeKnown builds a replay file from a hand-written program:
// C16_MK="<out.json>|<backend>|old=new,old2=new2|<file.wgsl>".
func TestMakeKnown(t *testing.T) {
	spec := os.Getenv("C16_MK")
	if spec == "" {
		t.Skip()
	}
	p := strings.Split(spec, "|")
	src, err := os.ReadFile(p[3])
	if err != nil {
		t.Fatal(err)
	}
	f, err := meta.Analyze(string(src))
	if err != nil || !f.Structured {
		t.Fatalf("not analysable: %v", err)
	}
	mapping := map[string]string{}
	var rs []meta.Renaming
	for _, kv := range strings.Split(p[2], ",") {
		x := strings.SplitN(kv, "=", 2)
		mapping[x[0]] = x[1]
		cls := "hand"
		for _, w := range meta.AdvPool() {
			if w.Text == x[1] {
				cls = w.Class
			}
		}
		rs = append(rs, meta.Renaming{Old: x[0], New: x[1], Class: cls, Roles: f.RoleNames(x[0])})
	}
	out, ok := f.RenameWith(mapping)
	if !ok {
		t.Fatalf("renaming failed")
	}
	c := &Case{Origin: "hand", Backend: p[1], Source: string(src), Renamed: out, Map: rs}
	v, msg, _ := judge(c)
	fmt.Printf("verdict=%s\n%s\n", v, msg)
	raw, _ := json.Marshal(c)
	fl := ev.Failure{Property: "C16", Check: "names", Message: msg, Case: raw}
	b, _ := json.MarshalIndent(&fl, "", " ")
	if err := os.WriteFile(p[0], b, 0o644); err != nil {
		t.Fatal(err)
	}
}
