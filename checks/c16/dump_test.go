package c16

import (
	"encoding/json"
	"fmt"
	"os"
	"runtime/debug"
	"testing"

	"github.com/gogpu/naga/hlsl"

	"verif/internal/ev"
	"verif/internal/xrun"
)

// TestDump (C16_DUMP=replay.json) writes the baseline / renamed programs and
// outputs of a replay file to /tmp/c16-dump-*, and prints naga panics with a stack.
func TestDump(t *testing.T) {
	p := os.Getenv("C16_DUMP")
	if p == "" {
		t.Skip()
	}
	r, err := ev.LoadReplay(p)
	if err != nil {
		t.Fatal(err)
	}
	var c Case
	json.Unmarshal(r.Case, &c)
	fmt.Println("backend:", c.Backend, "map:", mapString(c.Map))
	for i, src := range []string{c.Source, c.Renamed} {
		os.WriteFile(fmt.Sprintf("/tmp/c16-dump-%d.wgsl", i), []byte(src), 0o644)
		func() {
			defer func() {
				if r := recover(); r != nil {
					fmt.Printf("panic: %v\n%s\n", r, debug.Stack())
				}
			}()
			if c.Backend == "hlsl" {
				m, _, err := xrun.Lower(src)
				if err == nil {
					hlsl.Compile(m, hlsl.DefaultOptions())
				}
			}
		}()
		cc := compile(c.Backend, src)
		fmt.Printf("== %d rejected=%q texts=%d\n", i, cc.Rejected, len(cc.Texts))
		for k, to := range cc.Texts {
			os.WriteFile(fmt.Sprintf("/tmp/c16-dump-%d-%d.txt", i, k), []byte(to.Text), 0o644)
			fmt.Printf("   unit %s epnames %v\n", to.Unit, to.EPNames)
		}
	}
}
