#!/usr/bin/env python3
"""Seeded defects for C16: apply one to the scratch copy /tmp/meta-mut and run ./check C16 quick against it.
usage: mutants.py <name-prefix>|all      (scratch copy: cp -r /repo /tmp/meta-mut; modfile /tmp/meta-mut.mod)"""
import subprocess, sys, shutil, os, time

KW = 'internal/backend/hlsl_keywords.go'
M = {
 'hlsl-keyword-cbuffer-deleted': (KW, '	"cbuffer":                 {},\n', ''),
 'hlsl-keyword-texture-deleted': (KW, '	"texture":                 {},\n', ''),
 'msl-keyword-half-deleted': ('msl/internal/codegen/keywords.go', '	"half":      {},\n', ''),
 'glsl-keyword-sample-deleted': ('glsl/internal/codegen/keywords.go', '	"patch": {}, "sample": {},\n', '	"patch": {},\n'),
 'hlsl-digit-underscore-rule-dropped': ('hlsl/internal/codegen/namer.go',
     '	if backend.EndsWithDigit(base) || n.isKeyword(base) {', '	if n.isKeyword(base) {'),
 'hlsl-naga_mod-not-reserved': ('hlsl/internal/codegen/namer.go', '		NagaModFunction,\n', ''),
 'hlsl-entry-name-map-reports-wgsl-name': ('hlsl/internal/codegen/writer.go',
     '		w.entryPointNames[ep.Name] = name\n', '		w.entryPointNames[ep.Name] = ep.Name\n'),
 'msl-member-namespace-shared (must not fire)': ('msl/internal/codegen/writer.go',
     '			memberNamer := newNamer()\n', '			memberNamer := w.namer\n'),
}

def run(name):
    path, old, new = M[name]
    src, dst = os.path.join('/repo', path), os.path.join('/tmp/meta-mut', path)
    text = open(src).read()
    if text.count(old) != 1:
        print(f'{name}: pattern occurs {text.count(old)} times -- not applied'); return
    open(dst, 'w').write(text.replace(old, new))
    env = dict(os.environ, VERIF_MODFILE='/tmp/meta-mut.mod', VERIF_SEED=os.environ.get('VERIF_SEED', '1'))
    t0 = time.time()
    p = subprocess.run(['./check', 'C16', 'quick'], cwd='/verif', env=env, capture_output=True, text=True)
    out = p.stdout + p.stderr
    shutil.copyfile(src, dst)
    viol = [l for l in out.splitlines() if l.startswith('VIOLATION') or l.startswith('  check=')]
    print(f'== {name}: exit={p.returncode} wall={time.time()-t0:.0f}s')
    for l in viol[:4]: print('   ', l[:330])
    if p.returncode == 2: print(out[-1500:])
    print('   ', out.strip().splitlines()[-1][:200])

if __name__ == '__main__':
    which = sys.argv[1]
    for n in M:
        if which == 'all' or n.startswith(which):
            run(n)
