// Package c16 checks property C16: whatever names the WGSL author chooses,
// every text backend emits legal, non-clashing identifiers that still refer
// to the entities the author meant, and the reported entry-point names exist.
package c16

import (
	"encoding/json"
	"fmt"
	"os"
	"path/filepath"
	"regexp"
	"sort"
	"strings"
	"sync"
	"testing"
	"unicode"
	"unicode/utf8"

	"github.com/gogpu/naga/glsl"
	"github.com/gogpu/naga/hlsl"
	"github.com/gogpu/naga/ir"
	"github.com/gogpu/naga/msl"
	"pgregory.net/rapid"

	"verif/internal/ctext"
	"verif/internal/ev"
	"verif/internal/meta"
	"verif/internal/meta/mgen"
	"verif/internal/wgen"
	"verif/internal/wref"
	"verif/internal/xrun"
)

func TestMain(m *testing.M) { ev.Main(m, "C16") }

var judges = map[string]ev.Judge{"names": judgeNames}

func TestKnown(t *testing.T)  { ev.RunKnown(t, "C16", judges) }
func TestReplay(t *testing.T) { ev.RunReplay(t, judges) }

var backends = []string{"hlsl", "msl", "glsl"}

var dialect = map[string]ctext.Dialect{"hlsl": ctext.HLSL, "msl": ctext.MSL, "glsl": ctext.GLSL}

// Case is the serialised form of one judged case.
type Case struct {
	Origin  string          `json:"origin"`
	Backend string          `json:"backend"`
	Source  string          `json:"source"`
	Renamed string          `json:"renamed"`
	Map     []meta.Renaming `json:"map"`
	Exec    *xrun.Case      `json:"exec,omitempty"` // baseline execution case (WGSL == Source) of exec programs
}

// ---------------------------------------------------------------------------
// exclusion of known findings: per word, optionally per role

func wordTags(backend, word string, roles []string) []string {
	tags := []string{"c16." + backend + "." + word, "c16." + word}
	for _, r := range roles {
		tags = append(tags, "c16."+backend+"."+word+".as-"+r, "c16."+backend+".any.as-"+r)
	}
	return tags
}

func vetoFor(backend, src string) func(w meta.AdvWord, roles []string) bool {
	wgAtomic := strings.Contains(src, "var<workgroup>") && strings.Contains(src, "atomic<")
	return func(w meta.AdvWord, roles []string) bool {
		if backend == "msl" && strings.HasPrefix(w.Text, "double") {
			// harness limit: ctext's MSL dialect takes the emitted "double4_" for a double type
			ev.Class("harness-limit:ctext-msl-double-names")
			return true
		}
		// C16-4: any member whose MSL spelling differs from its WGSL spelling breaks the
		// zero-initialisation of workgroup structs that hold atomics
		if backend == "msl" && wgAtomic && ev.ExcludedQuiet("c16.msl.zeroinit.member-keyword") {
			for _, r := range roles {
				if r == "member" {
					ev.Class("excluded:c16.msl.zeroinit.member-keyword")
					return true
				}
			}
		}
		tags := append(wordTags(backend, w.Text, roles), "c16."+backend+".class."+w.Class)
		for _, r := range roles {
			tags = append(tags, "c16."+backend+".class."+w.Class+".as-"+r)
		}
		for i := 3; i <= len(w.Text); i++ {
			tags = append(tags, "c16.prefix."+w.Text[:i], "c16."+backend+".prefix."+w.Text[:i])
		}
		for _, tag := range tags {
			if ev.ExcludedQuiet(tag) {
				ev.Class("excluded:" + tag)
				return true
			}
		}
		return false
	}
}

// ---------------------------------------------------------------------------
// program sources

var (
	corpusOnce  sync.Once
	corpusNames []string
	corpusTexts []string
)

func corpus() ([]string, []string) {
	corpusOnce.Do(func() {
		files, _ := filepath.Glob("/repo/snapshot/testdata/in/*.wgsl")
		sort.Strings(files)
		for _, p := range files {
			b, err := os.ReadFile(p)
			if err != nil || len(b) > 12000 {
				continue
			}
			f, err := meta.Analyze(string(b))
			if err != nil || !f.Structured || len(f.RenameableAdv()) < 3 {
				continue
			}
			if _, _, err := xrun.Lower(string(b)); err != nil {
				continue
			}
			corpusNames = append(corpusNames, filepath.Base(p))
			corpusTexts = append(corpusTexts, string(b))
		}
	})
	return corpusNames, corpusTexts
}

func featureOff(tag string) bool { return ev.Excluded(tag) }

// programs is the pluggable source of valid programs: origin, text and, for
// executable compute programs, the execution case with the reference result.
var programs = func(t *rapid.T, backend string) (string, string, *xrun.Case) {
	switch k := rapid.IntRange(0, 9).Draw(t, "source"); {
	case k < 4:
		f := wgen.DefaultFeatures()
		f.ConstOK = wref.ConstOK
		f.Off = func(tag string) bool { return ev.Excluded(tag) || ev.Excluded(backend+"."+tag) }
		gc := wgen.GenExec(t, f)
		xc, _, discard, err := xrun.Build(gc, nil)
		if err != nil || discard != "" {
			ev.Class("exec-not-runnable")
			return "wgen-exec(static)", gc.Src, nil
		}
		return "wgen-exec", gc.Src, xc
	case k < 6:
		c := wgen.GenFull(t, wgen.FullFeatures{Off: featureOff})
		return "wgen-full", c.Src, nil
	case k < 8:
		return "mgen", mgen.Program(t), nil
	default:
		names, texts := corpus()
		if len(texts) == 0 {
			return "mgen", mgen.Program(t), nil
		}
		i := rapid.IntRange(0, len(texts)-1).Draw(t, "corpusIndex")
		return "corpus:" + names[i], texts[i], nil
	}
}

// ---------------------------------------------------------------------------
// compiling

type textOut struct {
	Unit    string // "module" or the entry point the text was compiled for
	Text    string
	EPNames map[string]string // reported entry-point name mapping
}

type compiled struct {
	Rejected string
	Entries  []ir.EntryPoint
	Texts    []textOut
}

func compile(backend, src string) (c compiled) {
	defer func() {
		if r := recover(); r != nil {
			c = compiled{Rejected: fmt.Sprintf("panic: %v", r)}
		}
	}()
	fresh := func() *ir.Module {
		m, stage, err := xrun.Lower(src)
		if err != nil {
			panic(stage + ": " + err.Error())
		}
		return m
	}
	m, stage, err := xrun.Lower(src)
	if err != nil {
		return compiled{Rejected: stage + ": " + err.Error()}
	}
	c.Entries = m.EntryPoints
	switch backend {
	case "hlsl":
		s, info, err := hlsl.Compile(m, hlsl.DefaultOptions())
		if err != nil {
			return compiled{Rejected: "hlsl: " + err.Error()}
		}
		t := textOut{Unit: "module", Text: s}
		if info != nil {
			t.EPNames = info.EntryPointNames
		}
		c.Texts = append(c.Texts, t)
	case "msl":
		s, info, err := msl.Compile(m, msl.DefaultOptions())
		if err != nil {
			return compiled{Rejected: "msl: " + err.Error()}
		}
		c.Texts = append(c.Texts, textOut{Unit: "module", Text: s, EPNames: info.EntryPointNames})
	case "glsl":
		for _, ep := range m.EntryPoints {
			o := glsl.DefaultOptions()
			o.LangVersion = glsl.Version450
			o.EntryPoint = ep.Name
			s, info, err := glsl.Compile(fresh(), o)
			if err != nil {
				return compiled{Rejected: "glsl(" + ep.Name + "): " + err.Error()}
			}
			c.Texts = append(c.Texts, textOut{Unit: ep.Name, Text: s, EPNames: info.EntryPointNames})
		}
	}
	return c
}

// ---------------------------------------------------------------------------
// token-level view of a C-family text

type ctok struct {
	text  string
	ident bool
	depth int // brace depth before the token
	paren int
}

func isIdentStart(r rune) bool { return r == '_' || unicode.IsLetter(r) }
func isIdentCont(r rune) bool {
	return r == '_' || unicode.IsLetter(r) || unicode.IsDigit(r) || unicode.Is(unicode.Mn, r) || unicode.Is(unicode.Mc, r)
}

// ctokens splits a text into identifiers, numbers, and single punctuation
// characters (comments and preprocessor lines dropped).
func ctokens(s string) []ctok {
	var out []ctok
	depth, paren := 0, 0
	for i := 0; i < len(s); {
		r, sz := utf8.DecodeRuneInString(s[i:])
		switch {
		case r == '/' && strings.HasPrefix(s[i:], "//"):
			for i < len(s) && s[i] != '\n' {
				i++
			}
		case r == '/' && strings.HasPrefix(s[i:], "/*"):
			j := strings.Index(s[i+2:], "*/")
			if j < 0 {
				i = len(s)
			} else {
				i += j + 4
			}
		case r == '#':
			for i < len(s) && s[i] != '\n' {
				i++
			}
		case isIdentStart(r):
			j := i + sz
			for j < len(s) {
				r2, sz2 := utf8.DecodeRuneInString(s[j:])
				if !isIdentCont(r2) {
					break
				}
				j += sz2
			}
			out = append(out, ctok{s[i:j], true, depth, paren})
			i = j
		case r >= '0' && r <= '9':
			j := i
			for j < len(s) && (s[j] == '.' || s[j] == '_' || s[j] >= '0' && s[j] <= '9' || s[j] >= 'a' && s[j] <= 'z' || s[j] >= 'A' && s[j] <= 'Z' ||
				(s[j] == '+' || s[j] == '-') && (s[j-1] == 'e' || s[j-1] == 'E' || s[j-1] == 'p' || s[j-1] == 'P')) {
				j++
			}
			out = append(out, ctok{s[i:j], false, depth, paren})
			i = j
		case r == ' ' || r == '\t' || r == '\n' || r == '\r':
			i += sz
		default:
			switch r {
			case '}':
				if depth > 0 {
					depth--
				}
			case ')':
				if paren > 0 {
					paren--
				}
			}
			out = append(out, ctok{s[i : i+sz], false, depth, paren})
			switch r {
			case '{':
				depth++
			case '(':
				paren++
			}
			i += sz
		}
	}
	return out
}

var reSuffix = regexp.MustCompile(`_\d+$`)

// alphaEqual compares two backend texts up to a renaming of identifiers.
// Everything that is not an identifier must be identical.  Identifier
// occurrences either keep or change their spelling; a spelling that is
// declared or used at file scope must change consistently everywhere, any
// other spelling (a parameter or local) consistently inside one top-level
// declaration: the same WGSL spelling may denote locals of two functions,
// which the backends number independently.
func alphaEqual(x, y string) (bool, string) {
	tx, ty := ctokens(x), ctokens(y)
	if len(tx) != len(ty) {
		return false, fmt.Sprintf("token count differs: %d / %d", len(tx), len(ty))
	}
	global := map[string]bool{}
	for _, t := range tx {
		if t.ident && t.depth == 0 && t.paren == 0 {
			global[t.text] = true
		}
	}
	globalY := map[string]bool{}
	for _, t := range ty {
		if t.ident && t.depth == 0 && t.paren == 0 {
			globalY[t.text] = true
		}
	}
	gf, gr := map[string]string{}, map[string]string{}
	lf, lr := map[string]string{}, map[string]string{}
	mf, mr := map[string]string{}, map[string]string{} // struct members live in their own name space
	mcand := map[string]map[string]bool{}
	inStruct := false
	for k := range tx {
		a, b := tx[k], ty[k]
		if a.depth == 0 && a.text == "{" {
			inStruct = false
			for j := k - 1; j >= 0 && j >= k-4; j-- {
				if tx[j].text == "struct" {
					inStruct = true
				}
			}
		}
		if a.depth == 0 && a.paren == 0 && !a.ident && (a.text == "}" || a.text == ";") {
			lf, lr = map[string]string{}, map[string]string{} // next top-level declaration
		}
		if a.ident != b.ident || a.depth != b.depth {
			return false, fmt.Sprintf("token %d differs in kind: %q / %q", k, a.text, b.text)
		}
		if !a.ident {
			if a.text != b.text {
				return false, fmt.Sprintf("token %d differs: %q / %q (context: %s)", k, a.text, b.text, around(tx, k))
			}
			continue
		}
		if a.text == b.text {
			continue
		}
		f, r := lf, lr
		isMember := k > 0 && tx[k-1].text == "." ||
			inStruct && a.depth == 1 && k+1 < len(tx) && (tx[k+1].text == ";" || tx[k+1].text == "[" || tx[k+1].text == ":")
		switch {
		case isMember:
			f, r = mf, mr
		case global[a.text] || globalY[b.text]:
			f, r = gf, gr
		}
		if isMember {
			// members of different structs are numbered independently ("x_" here, "x_1" there):
			// only the base of the new spelling has to be the same everywhere
			cands := map[string]bool{b.text: true, strings.TrimRight(b.text, "_"): true, reSuffix.ReplaceAllString(b.text, ""): true}
			if prev, ok := mcand[a.text]; ok {
				common := map[string]bool{}
				for c := range cands {
					if prev[c] {
						common[c] = true
					}
				}
				if len(common) == 0 {
					return false, fmt.Sprintf("member %q gets unrelated spellings, one of them %q (token %d, context: %s)", a.text, b.text, k, around(ty, k))
				}
				cands = common
			}
			mcand[a.text] = cands
			_ = mf
			_ = mr
			continue
		}
		if prev, ok := f[a.text]; ok && prev != b.text {
			return false, fmt.Sprintf("identifier %q becomes both %q and %q (token %d, context: %s)", a.text, prev, b.text, k, around(ty, k))
		}
		if prev, ok := r[b.text]; ok && prev != a.text {
			return false, fmt.Sprintf("identifiers %q and %q both become %q (token %d, context: %s)", prev, a.text, b.text, k, around(ty, k))
		}
		f[a.text], r[b.text] = b.text, a.text
	}
	return true, ""
}

func around(t []ctok, k int) string {
	lo, hi := max(0, k-8), min(len(t), k+6)
	var p []string
	for _, x := range t[lo:hi] {
		p = append(p, x.text)
	}
	return strings.Join(p, " ")
}

// funcInfo is a function definition found by the token scan.
type funcInfo struct {
	name       string
	nameTok    int
	open, clos int // body braces (token indices)
	head       int // first token of the declaration
}

func functionsOf(t []ctok) []funcInfo {
	var out []funcInfo
	for i := 0; i+1 < len(t); i++ {
		if !t[i].ident || t[i].depth != 0 || t[i].paren != 0 || t[i+1].text != "(" {
			continue
		}
		// find the matching ')' and what follows
		j := i + 2
		for j < len(t) && !(t[j].text == ")" && t[j].paren == 0) {
			j++
		}
		k := j + 1
		// skip trailing attributes / semantics up to '{' or ';'
		for k < len(t) && t[k].text != "{" && t[k].text != ";" && t[k].depth == 0 {
			k++
		}
		if k >= len(t) || t[k].text != "{" {
			continue
		}
		e := k + 1
		for e < len(t) && !(t[e].text == "}" && t[e].depth == 0) {
			e++
		}
		h := i
		for h > 0 && !(t[h-1].depth == 0 && t[h-1].paren == 0 && (t[h-1].text == "}" || t[h-1].text == ";")) {
			h--
		}
		out = append(out, funcInfo{name: t[i].text, nameTok: i, open: k, clos: e, head: h})
		i = e
	}
	return out
}

// ---------------------------------------------------------------------------
// judge

func judgeNames(raw json.RawMessage) (bool, string) {
	var c Case
	if err := json.Unmarshal(raw, &c); err != nil {
		return false, "bad case: " + err.Error()
	}
	v, msg, _ := judge(&c)
	return v != "fail", msg
}

type parsed struct {
	prog    *ctext.Program
	invalid *ctext.InvalidError
	unsupp  string
}

func parseText(backend, text string) (p parsed) {
	defer func() {
		if r := recover(); r != nil {
			p = parsed{unsupp: fmt.Sprintf("front end panic: %v", r)}
		}
	}()
	prog, err := ctext.Parse(dialect[backend], text)
	switch e := err.(type) {
	case nil:
		p.prog = prog
	case *ctext.InvalidError:
		p.invalid = e
	default:
		p.unsupp = err.Error()
	}
	return
}

func declared(p *ctext.Program) map[string]string {
	m := map[string]string{}
	if p == nil {
		return m
	}
	for _, id := range p.Identifiers() {
		if _, ok := m[id.Name]; !ok {
			m[id.Name] = id.Kind
		}
	}
	return m
}

// shadowedCallees lists "function: callee" pairs where a name that is called
// inside the function is also declared there as parameter or local.
func shadowedCallees(text string, p *ctext.Program) map[string]bool {
	out := map[string]bool{}
	if p == nil {
		return out
	}
	t := ctokens(text)
	fns := functionsOf(t)
	// line ranges are not available from the token scan; attribute declarations to
	// functions by order: ctext lists identifiers in source order, functions first.
	var cur string
	locals := map[string]map[string]bool{}
	for _, id := range p.Identifiers() {
		switch id.Kind {
		case "function":
			cur = id.Name
			if locals[cur] == nil {
				locals[cur] = map[string]bool{}
			}
		case "param", "local":
			if cur != "" {
				locals[cur][id.Name] = true
			}
		}
	}
	for _, f := range fns {
		ls := locals[f.name]
		for k := f.open; k < f.clos; k++ {
			if t[k].ident && t[k+1].text == "(" && ls[t[k].text] && (k == 0 || t[k-1].text != "." && t[k-1].text != ":" && t[k-1].text != ">") {
				out[f.name+": "+t[k].text] = true
			}
		}
	}
	return out
}

func globalClashes(p *ctext.Program) map[string]bool {
	out := map[string]bool{}
	if p == nil {
		return out
	}
	kinds := map[string]map[string]bool{}
	for _, id := range p.Identifiers() {
		if id.Depth != 0 {
			continue
		}
		switch id.Kind {
		case "global", "function", "block-instance":
			if kinds[id.Name] == nil {
				kinds[id.Name] = map[string]bool{}
			}
			k := id.Kind
			if k == "block-instance" {
				k = "global"
			}
			kinds[id.Name][k] = true
		}
	}
	for n, k := range kinds {
		if k["global"] && k["function"] {
			out[n] = true
		}
	}
	return out
}

func nonASCII(s string) bool {
	for i := 0; i < len(s); i++ {
		if s[i] >= 0x80 {
			return true
		}
	}
	return false
}

// reflectionProblem checks the reported entry-point names of one text.
func reflectionProblem(backend string, to textOut, entries []ir.EntryPoint) string {
	if to.EPNames == nil {
		return ""
	}
	t := ctokens(to.Text)
	fns := functionsOf(t)
	find := func(name string) *funcInfo {
		for i := range fns {
			if fns[i].name == name {
				return &fns[i]
			}
		}
		return nil
	}
	for _, ep := range entries {
		if to.Unit != "module" && to.Unit != ep.Name {
			continue
		}
		got, ok := to.EPNames[ep.Name]
		if !ok {
			return fmt.Sprintf("the entry-point name mapping has no entry for %q (has %v)", ep.Name, keys(to.EPNames))
		}
		f := find(got)
		if f == nil {
			return fmt.Sprintf("entry point %q is reported as %q, but the text defines no such function", ep.Name, got)
		}
		head := t[f.head:f.nameTok]
		has := func(w string) bool {
			for _, x := range head {
				if x.text == w {
					return true
				}
			}
			return false
		}
		switch backend {
		case "glsl":
			if got != "main" {
				return fmt.Sprintf("GLSL entry point %q is reported as %q, not main", ep.Name, got)
			}
		case "msl":
			want := map[ir.ShaderStage]string{ir.StageVertex: "vertex", ir.StageFragment: "fragment", ir.StageCompute: "kernel"}[ep.Stage]
			if want != "" && !has(want) {
				return fmt.Sprintf("entry point %q is reported as %q, but that function is not declared %s", ep.Name, got, want)
			}
		case "hlsl":
			if ep.Stage == ir.StageCompute && !has("numthreads") {
				return fmt.Sprintf("compute entry point %q is reported as %q, but that function carries no [numthreads]", ep.Name, got)
			}
		}
	}
	return ""
}

func keys(m map[string]string) []string {
	var k []string
	for x := range m {
		k = append(k, x)
	}
	sort.Strings(k)
	return k
}

// judge returns ("ok" | "fail" | "skip", message, classes).
func judge(c *Case) (string, string, []string) {
	var cls []string
	base := compile(c.Backend, c.Source)
	if base.Rejected != "" {
		return "skip", "", append(cls, "baseline-rejected")
	}
	ren := compile(c.Backend, c.Renamed)
	if ren.Rejected != "" {
		return "fail", "the program compiles with its original names but not after renaming (" + mapString(c.Map) + "): " + cut(ren.Rejected), cls
	}
	if len(base.Texts) != len(ren.Texts) {
		return "fail", fmt.Sprintf("number of outputs differs: %d / %d", len(base.Texts), len(ren.Texts)), cls
	}
	newNames := map[string]string{}
	for _, r := range c.Map {
		newNames[r.New] = r.Old
	}
	for i := range base.Texts {
		bt, rt := base.Texts[i], ren.Texts[i]
		pb, pr := parseText(c.Backend, bt.Text), parseText(c.Backend, rt.Text)
		// (1) validity
		switch {
		case pb.invalid != nil:
			cls = append(cls, "baseline-fails:invalid-"+pb.invalid.Code)
		case pr.invalid != nil:
			return "fail", fmt.Sprintf("after renaming (%s) the %s output is not valid %s: %s\n%s", mapString(c.Map), c.Backend, c.Backend, pr.invalid.Error(), excerpt(rt.Text, pr.invalid.Pos.Line)), cls
		case pb.unsupp != "" || pr.unsupp != "":
			cls = append(cls, "unsupported:front-end")
		default:
			cls = append(cls, "validity:checked")
			db, dr := declared(pb.prog), declared(pr.prog)
			var names []string
			for n := range dr {
				names = append(names, n)
			}
			sort.Strings(names)
			for _, n := range names {
				if _, inBase := db[n]; inBase {
					continue
				}
				if meta.CertainKeyword(c.Backend, n) {
					return "fail", fmt.Sprintf("after renaming (%s) the %s output declares the %s %q, a reserved word of the language", mapString(c.Map), c.Backend, dr[n], n), cls
				}
				if nonASCII(n) && c.Backend != "msl" {
					return "fail", fmt.Sprintf("after renaming (%s) the %s output declares the %s %q; identifiers of this language are ASCII", mapString(c.Map), c.Backend, dr[n], n), cls
				}
			}
			// (2) scoping
			sb, sr := shadowedCallees(bt.Text, pb.prog), shadowedCallees(rt.Text, pr.prog)
			for k := range sr {
				if !sb[k] && len(sr) > len(sb) {
					return "fail", fmt.Sprintf("after renaming (%s) a %s function calls a name that one of its own parameters or locals hides: %s", mapString(c.Map), c.Backend, k), cls
				}
			}
			gb, gr := globalClashes(pb.prog), globalClashes(pr.prog)
			for k := range gr {
				if len(gr) > len(gb) {
					return "fail", fmt.Sprintf("after renaming (%s) the %s output declares %q both as a variable and as a function at file scope", mapString(c.Map), c.Backend, k), cls
				}
			}
			cls = append(cls, "scoping:checked")
		}
		// (3) meaning, text level
		if ok, why := alphaEqual(bt.Text, rt.Text); !ok {
			return "fail", fmt.Sprintf("after renaming (%s) the %s output (%s) is not the original output up to a renaming of identifiers: %s", mapString(c.Map), c.Backend, rt.Unit, why), cls
		}
		cls = append(cls, "alpha-equivalence:checked")
		// (4) reflection
		if why := reflectionProblem(c.Backend, rt, ren.Entries); why != "" {
			if reflectionProblem(c.Backend, bt, base.Entries) != "" {
				cls = append(cls, "baseline-fails:reflection")
			} else {
				return "fail", "after renaming (" + mapString(c.Map) + "): " + why, cls
			}
		} else if rt.EPNames != nil {
			cls = append(cls, "reflection:checked")
		} else {
			cls = append(cls, "reflection:no-mapping-reported")
		}
	}
	// (3) meaning, execution
	if c.Exec != nil {
		run := map[string]func(*xrun.Case) xrun.Outcome{"hlsl": xrun.RunHLSL, "msl": xrun.RunMSL, "glsl": xrun.RunGLSL}[c.Backend]
		ob := run(c.Exec)
		baseOK := ob.Rejected == "" && ob.Unsupported == "" && ob.Invalid == "" && ob.Bad == ""
		if baseOK {
			if ok, _ := c.Exec.Compare(ob.Buffers); !ok {
				baseOK = false
			}
		}
		switch {
		case ob.Unsupported != "":
			cls = append(cls, "exec:unsupported")
		case !baseOK:
			cls = append(cls, "baseline-fails:exec")
		default:
			rc := *c.Exec
			rc.WGSL = c.Renamed
			for _, r := range c.Map {
				if r.Old == c.Exec.Entry {
					rc.Entry = r.New
				}
			}
			or := run(&rc)
			switch {
			case or.Unsupported != "":
				cls = append(cls, "exec:unsupported-after-rename")
			case or.Rejected != "":
				return "fail", "after renaming (" + mapString(c.Map) + ") naga rejects the program: " + cut(or.Rejected), cls
			case or.Invalid != "":
				return "fail", "after renaming (" + mapString(c.Map) + "): " + cut(or.Invalid), cls
			case or.Bad != "":
				return "fail", "after renaming (" + mapString(c.Map) + "): " + cut(or.Bad), cls
			default:
				if ok, msg := rc.Compare(or.Buffers); !ok {
					return "fail", "after renaming (" + mapString(c.Map) + ") executing the " + c.Backend + " output gives a different result: " + cut(msg), cls
				}
				cls = append(cls, "exec:checked")
			}
		}
	}
	return "ok", "", cls
}

func mapString(m []meta.Renaming) string {
	var p []string
	for _, r := range m {
		p = append(p, r.Old+"->"+r.New)
	}
	return strings.Join(p, ", ")
}

func excerpt(text string, line int) string {
	lines := strings.Split(text, "\n")
	lo, hi := max(0, line-3), min(len(lines), line+2)
	var b strings.Builder
	for i := lo; i < hi; i++ {
		fmt.Fprintf(&b, "%5d| %s\n", i+1, lines[i])
	}
	return b.String()
}

func cut(s string) string {
	if len(s) > 700 {
		return s[:700] + "…"
	}
	return s
}

// ---------------------------------------------------------------------------
// property

var prefer = map[string][]string{
	"hlsl": {"hlsl-keyword", "hlsl-contextual", "hlsl-intrinsic", "helper", "case", "wgsl-builtin-fn"},
	"msl":  {"msl-keyword", "msl-namespace", "helper", "case", "wgsl-builtin-fn"},
	"glsl": {"glsl-keyword", "glsl-builtin", "helper", "case", "wgsl-builtin-fn"},
}

func nontrivial(c *Case) bool {
	kw := false
	for _, r := range c.Map {
		kw = kw || meta.CertainKeyword(c.Backend, r.New)
	}
	return len(c.Map) >= 3 && kw
}

func genCase(t *rapid.T) *Case {
	backend := rapid.SampledFrom(backends).Draw(t, "backend")
	origin, src, xc := programs(t, backend)
	f, err := meta.Analyze(src)
	if err != nil || !f.Structured {
		ev.Class("discard:not-analysable:" + strings.SplitN(origin, ":", 2)[0])
		t.Skip("not analysable")
	}
	renamed, m := f.AdversarialRenaming(t, prefer[backend], vetoFor(backend, src))
	if renamed == "" {
		ev.Class("discard:nothing-to-rename")
		t.Skip("nothing to rename")
	}
	return &Case{Origin: origin, Backend: backend, Source: src, Renamed: renamed, Map: m, Exec: xc}
}

func propNames(t *rapid.T) {
	c := genCase(t)
	verdict, msg, cls := judge(c)
	ev.Eval(ev.HashS(c.Backend, c.Source, mapString(c.Map)), nontrivial(c) && verdict == "ok")
	ev.Class("origin:" + strings.SplitN(c.Origin, ":", 2)[0])
	ev.Class("backend:" + c.Backend)
	for _, r := range c.Map {
		ev.Class("word-class:" + r.Class)
		for _, role := range r.Roles {
			ev.Class("role:" + role)
		}
	}
	for _, k := range cls {
		ev.Class(k)
	}
	if verdict == "skip" {
		return
	}
	if nontrivial(c) && ev.WantSample(c.Backend) {
		ev.Sample(c.Backend, c)
	}
	if verdict == "fail" {
		ev.Fail("names", c, msg)
		t.Fatalf("%s", msg)
	}
}

func TestPropNames(t *testing.T) {
	ev.Rule("case = (valid program, injective renaming of 1..8 user names into the adversarial pool, one text backend); programs: wgen exec " +
		"programs (with reference result), wgen full-profile modules, mgen programs, corpus files; pool: HLSL / MSL-C++14 / GLSL keywords, " +
		"reserved words and builtin names from the language specifications, naga helper and temporary patterns, case variants, " +
		"digit/underscore families, names colliding after sanitisation, non-ASCII identifiers; entry points are renamed too; " +
		"non-trivial = >= 3 names renamed and >= 1 of them a certain keyword of the backend under test; distinct = hash(backend, text, map)")
	ev.Assume("verif/internal/ctext decides validity of the emitted text (keyword as identifier, redeclaration, undeclared reference)")
	ev.Assume("meta's keyword tables list only words that are certainly illegal as identifiers in the target language")
	ev.Assume("everything is judged relative to the same program with its original names: a defect the original output already shows is counted baseline-fails")
	rapid.Check(t, propNames)
}
