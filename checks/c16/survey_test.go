package c16

import (
	"fmt"
	"os"
	"regexp"
	"sort"
	"testing"

	"pgregory.net/rapid"
)

var reDigits = regexp.MustCompile(`\d+`)

// TestSurvey (C16_SURVEY=1) judges many cases without stopping at the first
// failure and prints the failures grouped by backend and message shape.
func TestSurvey(t *testing.T) {
	if os.Getenv("C16_SURVEY") == "" {
		t.Skip()
	}
	type agg struct {
		n      int
		sample string
	}
	groups := map[string]*agg{}
	total, held := 0, 0
	rapid.Check(t, func(rt *rapid.T) {
		c := genCase(rt)
		v, msg, _ := judge(c)
		total++
		if v != "fail" {
			held++
			return
		}
		// key: backend + message with the renaming and numbers removed
		m := msg
		if i := indexAfterMap(m); i > 0 {
			m = m[:20] + m[i:]
		}
		key := c.Backend + " :: " + reDigits.ReplaceAllString(cut(m), "N")
		if len(key) > 260 {
			key = key[:260]
		}
		g := groups[key]
		if g == nil {
			g = &agg{sample: c.Origin + " :: " + msg}
			groups[key] = g
		}
		g.n++
	})
	var ks []string
	for k := range groups {
		ks = append(ks, k)
	}
	sort.Strings(ks)
	for _, k := range ks {
		fmt.Printf("%5d  %s\n      %s\n", groups[k].n, k, cut(groups[k].sample))
	}
	fmt.Printf("survey: %d judged, %d held\n", total, held)
}

func indexAfterMap(m string) int {
	depth := 0
	for i, r := range m {
		switch r {
		case '(':
			depth++
		case ')':
			depth--
			if depth == 0 {
				return i + 1
			}
		}
	}
	return -1
}
