// Package c04 checks property C04: the MSL naga emits computes what the WGSL
// program means.
package c04

import (
	"strconv"
	"testing"

	"pgregory.net/rapid"

	"verif/internal/ev"
	"verif/internal/execcheck"
	"verif/internal/wref"
	"verif/internal/xrun"
)

func TestMain(m *testing.M) { ev.Main(m, "C04") }

var (
	mslVersions = []string{"1.2", "2.0", "2.1", "2.4", "3.0", "3.1"}
	policies    = []string{"unchecked", "restrict", "rzsw"}
	binds       = []string{"auto", "fake", "map"}
)

var cfg = &execcheck.Config{
	Check:  "msl-exec",
	Prefix: "msl.",
	Run:    xrun.RunMSL,
	Discards: func(e *wref.Events, off func(string) bool) string {
		if e.DotIntOverflow > 0 && off("dot.int.overflow") {
			return "known:dot-int-overflow" // finding C04-4
		}
		return ""
	},
	DrawOpts: func(t *rapid.T) map[string]string {
		pick := func(l string, v []string) string { return v[rapid.IntRange(0, len(v)-1).Draw(t, l)] }
		idxPolicies := policies
		if ev.Excluded("msl.rzsw.value-index") {
			// finding C04-3: ReadZeroSkipWrite reads that are emitted inline (by-value composites under the
			// index policy, buffer reads inside `break if` / loop conditions under the buffer policy) lack parentheses
			idxPolicies = policies[:2]
		}
		return map[string]string{"msl": pick("msl", mslVersions), "bind": pick("bind", binds), "idx": pick("idx", idxPolicies),
			"buf": pick("buf", idxPolicies), "zeroinit": "1", "loopbound": strconv.Itoa(rapid.IntRange(0, 1).Draw(t, "loopbound"))}
	},
}

var judges = map[string]ev.Judge{"msl-exec": cfg.Judge}

func TestKnown(t *testing.T)  { ev.RunKnown(t, "C04", judges) }
func TestReplay(t *testing.T) { ev.RunReplay(t, judges) }

func TestPropExec(t *testing.T) {
	ev.Rule("same program/input generator as C01 x msl options {LangVersion 1.2-3.1, Index/Buffer bounds policies unchecked/restrict/read-zero-skip-write (in-bounds programs: policies must not change meaning), ForceLoopBounding, auto / FakeMissingBindings / explicit PerEntryPointMap binding}; oracle: WGSL reference evaluator vs independent MSL (C++14 subset) front end + interpreter (struct layout by Metal's size/alignment table and explicit padding, metal:: intrinsics, as_type, references, _mslBufferSizes contract; text must be valid MSL); non-trivial and distinct as C01")
	ev.Assume("verif/internal/ctext implements MSL / C++14 semantics from the Metal Shading Language specification; ZeroInitializeWorkgroupMemory stays on")
	cfg.Prop(t)
}
