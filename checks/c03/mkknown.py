#!/usr/bin/env python3
"""mkknown.py [ID ...] — (re)writes the hand-built minimal replay cases of the C03 findings to
known/C03-N.json and makes sure known_findings.json lists them (open).  Expected buffers are
computed BY HAND from the WGSL specification (comments below), never from a run."""
import json, struct, sys

ROOT = '/verif'
OPTS = {"sm": "5.1", "restrict": "0", "loopbound": "0", "zeroinit": "1", "fake": "1"}

def u32(*v): return b''.join(struct.pack('<I', x & 0xffffffff) for x in v).hex()
def f32(*v): return b''.join(struct.pack('<f', x) for x in v).hex()
def mask(kind, nwords): return ('%02x' % kind) * (4 * nwords)   # 1 exact, 2 tolerance, 3 exact float

OUT_U = "@group(0) @binding(0) var<storage, read_write> o: array<u32, 2>;\n"
OUT_F = "@group(0) @binding(0) var<storage, read_write> o: array<f32, 2>;\n"
IN_U = "@group(0) @binding(1) var<storage, read> i: array<u32, 2>;\n"
IN_F = "@group(0) @binding(1) var<storage, read> i: array<f32, 2>;\n"

def case(wgsl, buffers, expected, masks, opts=None, nwg=(1, 1, 1), wg=(1, 1, 1)):
    exp = dict(buffers)
    exp.update(expected)
    return {"wgsl": wgsl, "entry": "main", "num_workgroups": list(nwg), "workgroup_size": list(wg),
            "buffers": buffers, "expected": exp, "masks": masks, "ref_steps": 50, "opts": dict(opts or OPTS)}

FINDINGS = [
    ("C03-1", "HLSL: loading a whole storage value that contains an array whose elements are structures or arrays (o = i; let v = buf.arr;) calls the element's Construct<S> / Constructarray<N>_<T>_ helper, which is never emitted (undeclared identifier)",
     ["hlsl.storage-load.array-of-struct"],
     # o = i copies (5, 7)
     case("struct B { x: i32 }\n@group(0) @binding(0) var<storage, read_write> o: array<B, 2>;\n@group(0) @binding(1) var<storage, read> i: array<B, 2>;\n"
          "@compute @workgroup_size(1) fn main() { o = i; }\n",
          {"0,0": u32(0, 0), "0,1": u32(5, 7)}, {"0,0": u32(5, 7)}, {"0,0": mask(1, 2)})),
    ("C03-2", "HLSL: sign(f32) is emitted as bare sign(x), which returns int in HLSL; asuint(sign(x)) stores the integer -1/0/1 bit pattern instead of the float",
     ["hlsl.builtin.sign"],
     # sign(-2.5) = -1.0, sign(3.0) = 1.0
     case(OUT_F + IN_F + "@compute @workgroup_size(1) fn main() { o[0] = sign(i[0]); o[1] = sign(i[1]); }\n",
          {"0,0": f32(0, 0), "0,1": f32(-2.5, 3.0)}, {"0,0": f32(-1.0, 1.0)}, {"0,0": mask(3, 2)})),
    ("C03-3", "HLSL: countLeadingZeros(x) is emitted as firstbithigh(x) (bit index of the highest set bit) instead of 31 - firstbithigh(x); 0 gives -1 instead of 32",
     ["hlsl.builtin.countLeadingZeros"],
     # clz(0xF0) = 24, clz(1) = 31
     case(OUT_U + IN_U + "@compute @workgroup_size(1) fn main() { o[0] = countLeadingZeros(i[0]); o[1] = countLeadingZeros(i[1]); }\n",
          {"0,0": u32(0, 0), "0,1": u32(0xF0, 1)}, {"0,0": u32(24, 31)}, {"0,0": mask(1, 2)})),
    ("C03-4", "HLSL: countTrailingZeros(0) is emitted as firstbitlow(x), which returns -1 (0xFFFFFFFF) for 0; WGSL requires 32",
     ["hlsl.builtin.countTrailingZeros"],
     # ctz(0) = 32, ctz(8) = 3
     case(OUT_U + IN_U + "@compute @workgroup_size(1) fn main() { o[0] = countTrailingZeros(i[0]); o[1] = countTrailingZeros(i[1]); }\n",
          {"0,0": u32(0, 0), "0,1": u32(0, 8)}, {"0,0": u32(32, 3)}, {"0,0": mask(1, 2)})),
    ("C03-5", "HLSL: unpack4x8snorm / unpack2x16snorm lack the max(v, -1.0) clamp: byte 0x80 gives -128/127 = -1.00787, half-word 0x8000 gives -1.00003",
     ["hlsl.builtin.unpack4x8snorm"],
     # 0x7F80: x = max(-128/127, -1) = -1, y = 127/127 = 1
     case(OUT_F + IN_U + "@compute @workgroup_size(1) fn main() { let v = unpack4x8snorm(i[0]); o[0] = v.x; o[1] = v.y; }\n",
          {"0,0": f32(0, 0), "0,1": u32(0x7F80, 0)}, {"0,0": f32(-1.0, 1.0)}, {"0,0": mask(2, 2)})),
    ("C03-6", "HLSL: asinh / acosh / atanh are emitted as calls of functions with those names; HLSL has no such intrinsics (undeclared identifier)",
     ["hlsl.builtin.asinh"],
     # asinh(0.5) = ln(0.5 + sqrt(1.25)) = 0.4812118, asinh(0) = 0
     case(OUT_F + IN_F + "@compute @workgroup_size(1) fn main() { o[0] = asinh(i[0]); o[1] = asinh(i[1]); }\n",
          {"0,0": f32(9, 9), "0,1": f32(0.5, 0.0)}, {"0,0": f32(0.4812118, 0.0)}, {"0,0": mask(2, 2)})),
    ("C03-7", "HLSL: a private variable of array type is declared `static T[N] name = ...;` (array suffix between type and name): not an HLSL declarator",
     ["hlsl.private.array"],
     # p[0] = 5, p[1] = 0 (zero initialised)
     case(OUT_U + IN_U + "var<private> p: array<u32, 2>;\n@compute @workgroup_size(1) fn main() { p[0] = i[0]; o[0] = p[0] + p[1]; o[1] = p[1]; }\n",
          {"0,0": u32(9, 9), "0,1": u32(5, 0)}, {"0,0": u32(5, 0)}, {"0,0": mask(1, 2)})),
    ("C03-8", "front end: a call of a user function named `vecs` is lowered to a vector constructor of its arguments (HLSL: int4(int3, int3), 6 components: invalid; other backends: wrong value)",
     ["fn-name.vecs"],
     # vecs((1,2,3), (10,20,30)) = (11,22,33): 1100 + 220 + 33 = 1353
     case("@group(0) @binding(0) var<storage, read_write> o: array<i32, 2>;\n@group(0) @binding(1) var<storage, read> i: array<i32, 3>;\n"
          "fn vecs(p: vec3<i32>, q: vec3<i32>) -> vec3<i32> { return p + q; }\n"
          "@compute @workgroup_size(1) fn main() { let r = vecs(vec3(1, 2, 3), vec3<i32>(i[0], i[1], i[2])); o[0] = r.x * 100 + r.y * 10 + r.z; }\n",
          {"0,0": u32(0, 0), "0,1": u32(10, 20, 30)}, {"0,0": u32(1353, 0)}, {"0,0": mask(1, 2)})),
    ("C03-9", "HLSL: u.am[j] with a dynamic j on a uniform array<matCx2<f32>, N> is emitted as __get_col_of_matCx2(u.am, j): the whole array is passed where one __matCx2 struct is expected (no matching function)",
     ["hlsl.uniform.array-matcx2.dynamic-index"],
     # u.am[1][2].y is the float at byte 32 + 16 + 4 = 52 -> word 13 (buffer words hold 0, 1, 2, ...)
     case("struct U { am: array<mat4x2<f32>, 2> }\n" + OUT_F + "@group(0) @binding(1) var<uniform> u: U;\n@group(0) @binding(2) var<storage, read> idx: array<i32, 2>;\n"
          "@compute @workgroup_size(1) fn main() { let j = idx[0]; o[0] = u.am[j][2].y; }\n",
          {"0,0": f32(0, 0), "0,1": f32(*range(16)), "0,2": u32(1, 0)}, {"0,0": f32(13.0, 0.0)}, {"0,0": mask(3, 2)})),
    ("C03-10", "HLSL: without Options.SpecialConstantsBinding, @builtin(num_workgroups) is silently given the semantic SV_GroupID (the workgroup id is read instead of the dispatch size; no error)",
     ["hlsl.num_workgroups.no-constants"],
     # dispatch (3,1,1): every workgroup stores 3 * 10 + 1 = 31
     case("@group(0) @binding(0) var<storage, read_write> o: array<u32, 3>;\n"
          "@compute @workgroup_size(1) fn main(@builtin(num_workgroups) nwg: vec3<u32>, @builtin(workgroup_id) wid: vec3<u32>) { o[wid.x] = nwg.x * 10u + nwg.y; }\n",
          {"0,0": u32(0, 0, 0)}, {"0,0": u32(31, 31, 31)}, {"0,0": mask(1, 3)}, opts=dict(OPTS, nwgconst="0"), nwg=(3, 1, 1))),
    ("C03-11", "HLSL: the helper naga_extractBits / naga_insertBits is emitted once per function that uses it: two functions using extractBits (same overload) redefine it (invalid HLSL)",
     ["hlsl.bits-helper.per-function"],
     # f(0xAB) = bits 4..7 = 0xA; extractBits(0xCD, 0, 4) = 0xD
     case(OUT_U + IN_U + "fn f(x: u32) -> u32 { return extractBits(x, 4u, 4u); }\n@compute @workgroup_size(1) fn main() { o[0] = f(i[0]); o[1] = extractBits(i[1], 0u, 4u); }\n",
          {"0,0": u32(0, 0), "0,1": u32(0xAB, 0xCD)}, {"0,0": u32(0xA, 0xD)}, {"0,0": mask(1, 2)})),
    ("C03-12", "HLSL: storing a value that contains an array of arrays to a storage buffer declares the temporary as `T[M] _valueN[K]` (array suffix after the type): not an HLSL declarator",
     ["hlsl.storage-store.array-of-array"],
     # o = array(array(i[0]), array(i[1])) = ((5), (7))
     case("@group(0) @binding(0) var<storage, read_write> o: array<array<u32, 1>, 2>;\n" + IN_U +
          "@compute @workgroup_size(1) fn main() { var v: array<array<u32, 1>, 2>; v[0][0] = i[0]; v[1][0] = i[1]; o = v; }\n",
          {"0,0": u32(0, 0), "0,1": u32(5, 7)}, {"0,0": u32(5, 7)}, {"0,0": mask(1, 2)})),
    ("C03-13", "HLSL: a matCx2 struct member is read through GetMat<m>On<S>(value), but that helper is not emitted when the struct value comes from a constructor S(...) or is only reached through an array element or a nested struct member (undeclared identifier)",
     ["hlsl.struct.matcx2-member", "hlsl.uniform.matCx2"],
     # t[1].m[1] = (i[0], i[1]) = (5.5, 7.25): o[0] = 7.25
     case("struct S { m: mat3x2<f32> }\n" + OUT_F + IN_F +
          "@compute @workgroup_size(1) fn main() { var s: array<S, 2>; s[1].m[1] = vec2(i[0], i[1]); let t = s; o[0] = t[1].m[1].y; }\n",
          {"0,0": f32(0, 0), "0,1": f32(5.5, 7.25)}, {"0,0": f32(7.25, 0)}, {"0,0": mask(3, 2)})),
    ("C03-14", "HLSL: a struct member array<matCx2<f32>, N> is declared `__matCx2 m[N]` in every struct; storing the whole struct to a storage buffer initialises `floatCx2 _value[N]` from it without a cast (no implicit conversion __matCx2[N] -> floatCx2[N])",
     ["hlsl.struct.array-matcx2-member"],
     # s.a[1][0] = (5.5, 7.25), everything else 0: words 4, 5
     case("struct S { a: array<mat2x2<f32>, 2> }\n@group(0) @binding(0) var<storage, read_write> o: S;\n" + IN_F +
          "@compute @workgroup_size(1) fn main() { var s: S; s.a[1][0] = vec2(i[0], i[1]); o = s; }\n",
          {"0,0": f32(9, 9, 9, 9, 9, 9, 9, 9), "0,1": f32(5.5, 7.25)}, {"0,0": f32(0, 0, 0, 0, 5.5, 7.25, 0, 0)}, {"0,0": mask(3, 8)})),
    ("C03-15", "front end: `x op= f()` is lowered with the call of f before the load of x (WGSL: e1 = e1 op (e2), operands left to right, so the old value of x is read first); a callee that writes x changes the result (all backends)",
     ["compound-assign.rhs-call"],
     # o[0] = 5; o[0] += f(): old value 5 is read, f doubles o[0] and returns 3, 5 + 3 = 8 is stored
     case("@group(0) @binding(0) var<storage, read_write> o: array<i32, 2>;\n@group(0) @binding(1) var<storage, read> i: array<i32, 2>;\n"
          "fn f() -> i32 { o[0] = o[0] * 2; return i[1]; }\n@compute @workgroup_size(1) fn main() { o[0] = i[0]; o[0] += f(); }\n",
          {"0,0": u32(0, 0), "0,1": u32(5, 3)}, {"0,0": u32(8, 0)}, {"0,0": mask(1, 2)})),
]

def main():
    want = set(sys.argv[1:])
    p = ROOT + '/known_findings.json'
    for fid, what, tags, c in FINDINGS:
        if want and fid not in want:
            continue
        json.dump({"property": "C03", "check": "hlsl-exec", "message": what, "case": c}, open('%s/known/%s.json' % (ROOT, fid), 'w'), indent=1)
    d = json.load(open(p))
    have = {f['id']: f for f in d['findings']}
    for fid, what, tags, c in FINDINGS:
        if want and fid not in want:
            continue
        if fid in have:
            if have[fid].get('status', 'open') == 'open':
                have[fid].update({"what": what, "tags": tags, "replay": "known/%s.json" % fid})
            continue
        d['findings'].append({"id": fid, "property": "C03", "status": "open", "what": what, "replay": "known/%s.json" % fid, "tags": tags})
    json.dump(d, open(p, 'w'), indent=1)

main()
