// Package c03 checks property C03: the HLSL naga emits computes what the
// WGSL program means.
package c03

import (
	"strconv"
	"testing"

	"pgregory.net/rapid"

	"verif/internal/ev"
	"verif/internal/execcheck"
	"verif/internal/xrun"
)

func TestMain(m *testing.M) { ev.Main(m, "C03") }

var sms = []string{"5.1", "6.0", "6.2", "6.6"}

var cfg = &execcheck.Config{
	Check:  "hlsl-exec",
	Prefix: "hlsl.",
	Run:    xrun.RunHLSL,
	DrawOpts: func(t *rapid.T) map[string]string {
		b := func(l string) string { return strconv.Itoa(rapid.IntRange(0, 1).Draw(t, l)) }
		return map[string]string{"sm": sms[rapid.IntRange(0, len(sms)-1).Draw(t, "sm")], "restrict": b("restrict"),
			"loopbound": b("loopbound"), "zeroinit": "1", "fake": b("fake")}
	},
}

var judges = map[string]ev.Judge{"hlsl-exec": cfg.Judge}

func TestKnown(t *testing.T)  { ev.RunKnown(t, "C03", judges) }
func TestReplay(t *testing.T) { ev.RunReplay(t, judges) }

func TestPropExec(t *testing.T) {
	ev.Rule("same program/input generator as C01 x hlsl options {SM 5.1/6.0/6.2/6.6, RestrictIndexing, ForceLoopBounding, explicit BindingMap or FakeMissingBindings}; oracle: WGSL reference evaluator vs independent HLSL front end + interpreter (HLSL operator meaning and implicit conversions, row/column matrix conventions, byte-address Load/Store at the literal offsets, cbuffer packing, intrinsic definitions; text must be valid HLSL); non-trivial and distinct as C01")
	ev.Assume("verif/internal/ctext implements HLSL 2018 semantics from the language reference / DXC behaviour; ZeroInitializeWorkgroupMemory stays on (turning it off intentionally changes meaning)")
	cfg.Prop(t)
}
