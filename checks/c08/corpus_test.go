package c08

import (
	"fmt"
	"os"
	"path/filepath"
	"regexp"
	"sort"
	"strings"
	"testing"

	"verif/internal/ev"
)

const corpusDir = "/repo/snapshot/testdata/in"

var reTargets = regexp.MustCompile(`(?m)^targets\s*=\s*"([^"]*)"`)

// corpusTargets reads the `targets = "SPIRV | METAL | …"` line of the .toml
// next to a corpus file; absent file or line = every target.
func corpusTargets(wgslPath string) map[string]bool {
	all := map[string]bool{"SPIRV": true, "METAL": true, "GLSL": true, "HLSL": true}
	b, err := os.ReadFile(strings.TrimSuffix(wgslPath, ".wgsl") + ".toml")
	if err != nil {
		return all
	}
	m := reTargets.FindSubmatch(b)
	if m == nil {
		return all
	}
	out := map[string]bool{}
	for _, t := range strings.Split(string(m[1]), "|") {
		out[strings.TrimSpace(t)] = true
	}
	return out
}

// corpusPlainCore lists corpus files whose rejection would be a rejection of
// plain core WGSL (triaged by hand: no enable directive, no extension, no
// capability requirement in the .toml); none is rejected on the pinned tree,
// so a rejection of one of them is a violation.
var corpusPlainCore = map[string]bool{
	"operators.wgsl": true, "control-flow.wgsl": true, "functions.wgsl": true, "globals.wgsl": true, "access.wgsl": true,
	"interface.wgsl": true, "shadow.wgsl": true, "quad.wgsl": true, "boids.wgsl": true, "collatz.wgsl": true,
	"constructors.wgsl": true, "struct-layout.wgsl": true, "texture-arg.wgsl": true, "bits.wgsl": true, "math-functions.wgsl": true,
}

// corpusKnown maps a rejection message to the tag of the known finding that
// explains it; while that finding is open the rejection is counted, not flagged.
var corpusKnown = []struct{ substr, tag string }{
	{"duplicate binding @group", "binding.alias-across-entry-points"},
	{"ir.ExprOverride", "override.unprocessed"},
}

func TestPropCorpus(t *testing.T) {
	ev.Rule("corpus: every snapshot/testdata/in/*.wgsl once (deterministic, shard 0 only), backends limited to the targets named in its .toml; outcomes per stage are CLASS COUNTS, not violations (upstream-valid files may need features naga-go does not document) — except a hand-triaged list of plain-core-WGSL files, whose rejection by Parse/Lower/Validate or by a listed backend is a violation; non-trivial/distinct as for generated programs (traits measured on the lowered module)")
	if ev.ShardIndex() != 0 {
		t.Skip("corpus runs in shard 0 only")
	}
	files, _ := filepath.Glob(filepath.Join(corpusDir, "*.wgsl"))
	sort.Strings(files)
	if len(files) == 0 {
		ev.Inconclusive("corpus directory is empty")
		return
	}
	total, rejected := 0, 0
	for _, f := range files {
		b, err := os.ReadFile(f)
		if err != nil {
			continue
		}
		src, base := string(b), filepath.Base(f)
		var o optSet
		o.GlslVersion = "450"
		fails, m := compileAll(src, o)
		tg := corpusTargets(f)
		tr := traits{}
		if m != nil {
			tr.helper = len(m.Functions) > 0
			tr.multiEP = len(m.EntryPoints) >= 2
			tr.texOrAtomic = strings.Contains(src, "texture_") || strings.Contains(src, "atomic")
			tr.structIO = strings.Contains(src, "@location") && strings.Contains(src, "struct")
			tr.nest2 = true // hand-written shaders; not measured
		}
		ev.Eval(ev.HashS(src, "corpus"), tr.count() >= 2)
		total++
		stageOf := func(s string) string {
			if i := strings.IndexByte(s, ':'); i >= 0 {
				s = s[:i]
			}
			return strings.TrimSuffix(s, "-ep")
		}
		want := map[string]bool{"parse": true, "lower": true, "validate": true, "compile": tg["SPIRV"], "spirv": tg["SPIRV"],
			"hlsl": tg["HLSL"], "msl": tg["METAL"], "glsl": tg["GLSL"]}
		bad := map[string]string{}
		for _, fl := range fails {
			st := stageOf(fl.Stage)
			if want[st] && bad[st] == "" {
				bad[st] = fl.Msg
			}
			if strings.HasPrefix(fl.Msg, "panic:") {
				ev.Class("corpus:panic")
			}
		}
		if len(bad) == 0 {
			ev.Class("corpus:accepted")
		} else {
			rejected++
		}
		var stages []string
		for st := range bad {
			stages = append(stages, st)
		}
		sort.Strings(stages)
		for _, st := range stages {
			known := false
			for _, k := range corpusKnown {
				if strings.Contains(bad[st], k.substr) && featureOff(k.tag) {
					ev.Class("corpus:known-finding:" + k.tag)
					known = true
				}
			}
			if known {
				continue
			}
			ev.Class("corpus:rejected:" + st)
			if bucketDir() != "" {
				fmt.Printf("CORPUS %-45s %s: %s\n", base, st, oneLineC(bad[st]))
			}
			if corpusPlainCore[base] {
				c := &ccase{WGSL: src, Stage: st, optSet: o}
				msg := fmt.Sprintf("corpus file %s (plain core WGSL) rejected — %s: %s", base, st, bad[st])
				ev.Fail(checkName, c, msg)
				t.Errorf("%s", msg)
			}
		}
	}
	ev.ClassN("corpus:files", int64(total))
	if bucketDir() != "" {
		fmt.Printf("corpus: %d files, %d with a rejection on a listed target\n", total, rejected)
	}
}

func oneLineC(s string) string {
	s = strings.ReplaceAll(s, "\n", " | ")
	if len(s) > 160 {
		s = s[:160]
	}
	return s
}
