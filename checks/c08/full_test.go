package c08

import (
	"os"
	"strings"
	"testing"

	"pgregory.net/rapid"

	"verif/internal/ev"
	"verif/internal/wgen"
)

var glslAllVersions = []string{"330", "400", "410", "420", "430", "450", "460", "300es", "310es", "320es"}

func fullTraits(c *wgen.FullCase) traits {
	return traits{helper: c.Helpers > 0, nest2: c.MaxNesting >= 2, multiEP: len(c.Entries) >= 2,
		texOrAtomic: c.UsesTexture || c.UsesAtomic, structIO: c.StructIO}
}

func TestPropFull(t *testing.T) {
	ev.Rule("full: wgen.GenFull modules (valid by construction: 1-4 vertex/fragment/compute entry points with IO structs and bare parameters, textures/samplers/texture builtins, shared and aliased bindings, discard, derivatives, shadowing, shuffled declaration order, alias, const_assert, override, atomics, literal spellings) x one drawn option set per backend; backends with an entry-point selector also run per entry point; " + ruleText)
	total, rejected := 0, 0
	rapid.Check(t, func(t *rapid.T) {
		c := wgen.GenFull(t, wgen.FullFeatures{Off: featureOff})
		vers := glslAllVersions
		for _, e := range c.Entries {
			if e.Stage == "compute" {
				vers = glslComputeVersions
			}
		}
		if c.UsesStorage || c.UsesAtomic {
			vers = glslComputeVersions // storage buffers, storage images and atomics need GLSL 4.30 / ES 3.10
		}
		o := drawOpts(t, vers)
		for _, cl := range c.Classes {
			// known finding (tag override.unprocessed): a module using an override needs
			// ir.ProcessOverrides before SPIR-V / HLSL / GLSL, and the one-call API cannot do that
			if cl == "override" && featureOff("override.unprocessed") {
				o.ProcessOverrides, o.SkipOneCall = true, true
			}
		}
		if ev.WantSample("full") {
			ev.Sample("full", &ccase{WGSL: c.Src, optSet: o})
		}
		runCase(t, c.Src, o, fullTraits(c), c.Classes, &total, &rejected)
	})
	dumpBuckets("full", total, rejected)
}

// TestShrinkFull is the TestShrinkRej of the full profile (C08_MATCH=<substring>).
func TestShrinkFull(t *testing.T) {
	match := os.Getenv("C08_MATCH")
	if match == "" {
		t.Skip("triage aid; set C08_MATCH")
	}
	rapid.Check(t, func(t *rapid.T) {
		c := wgen.GenFull(t, wgen.FullFeatures{Off: featureOff})
		var o optSet
		o.GlslVersion = "450"
		fails, _ := compileAll(c.Src, o)
		for _, f := range fails {
			if strings.Contains(f.String(), match) {
				t.Fatalf("%s\n%s", f, c.Src)
			}
		}
	})
}
