// Package c08 checks property C08: a WGSL program that is valid under the
// specification and uses only features naga documents as supported is never
// rejected — Parse, Lower, Validate, the one-call compile API and each of the
// SPIR-V / HLSL / MSL / GLSL backends (per entry point, under every drawn
// option set able to express the program) return output, not an error.
package c08

import (
	"encoding/json"
	"fmt"
	"os"
	"path/filepath"
	"regexp"
	"sort"
	"strings"
	"testing"

	"github.com/gogpu/naga"
	"github.com/gogpu/naga/glsl"
	"github.com/gogpu/naga/hlsl"
	"github.com/gogpu/naga/ir"
	"github.com/gogpu/naga/msl"
	"github.com/gogpu/naga/spirv"
	"pgregory.net/rapid"

	"verif/internal/ev"
	"verif/internal/wgen"
	"verif/internal/wref"
)

func TestMain(m *testing.M) {
	ev.Main(m, "C08")
}

const checkName = "accept"

var judges = map[string]ev.Judge{checkName: judgeRaw}

func TestKnown(t *testing.T)  { ev.RunKnown(t, "C08", judges) }
func TestReplay(t *testing.T) { ev.RunReplay(t, judges) }

// ---------------------------------------------------------------------------
// The serialised case: WGSL text + the stage that failed (informational) +
// the backend option set as plain fields.  Absent option fields mean "the
// backend's documented default".

type optSet struct {
	SpvVersion   string `json:"spv_version,omitempty"` // "1.0" … "1.6"
	SpvDebug     bool   `json:"spv_debug,omitempty"`
	SpvLoopBound bool   `json:"spv_force_loop_bounding,omitempty"`

	HlslSM        string `json:"hlsl_shader_model,omitempty"` // "5_0" … "6_7"
	HlslBindings  string `json:"hlsl_bindings,omitempty"`     // "fake" | "map"
	HlslRestrict  bool   `json:"hlsl_restrict_indexing,omitempty"`
	HlslLoopBound bool   `json:"hlsl_force_loop_bounding,omitempty"`
	HlslZeroInit  bool   `json:"hlsl_zero_init_workgroup,omitempty"`

	MslVersion   string `json:"msl_version,omitempty"`  // "1.2" … "3.1"
	MslBindings  string `json:"msl_bindings,omitempty"` // "fake" | "map" | "auto"
	MslIndex     int    `json:"msl_bounds_index,omitempty"`
	MslBuffer    int    `json:"msl_bounds_buffer,omitempty"`
	MslImage     int    `json:"msl_bounds_image,omitempty"`
	MslZeroInit  bool   `json:"msl_zero_init_workgroup,omitempty"`
	MslLoopBound bool   `json:"msl_force_loop_bounding,omitempty"`

	GlslVersion    string `json:"glsl_version,omitempty"` // "430" "450" "460" "310es" "320es" (compute-capable) …
	GlslFlags      uint32 `json:"glsl_writer_flags,omitempty"`
	GlslBindingMap bool   `json:"glsl_binding_map,omitempty"`
	GlslHighp      bool   `json:"glsl_force_high_precision,omitempty"`
	GlslImageLoad  int    `json:"glsl_bounds_image_load,omitempty"`
	GlslImageStore int    `json:"glsl_bounds_image_store,omitempty"`

	// ProcessOverrides: ir.ProcessOverrides(module, nil) (all overrides take
	// their defaults) runs before each backend, as Rust naga's contract asks.
	ProcessOverrides bool `json:"process_overrides,omitempty"`
	// SkipOneCall leaves the one-call naga.CompileWithOptions stage out (it
	// has no way to process overrides; known finding C08 "override").
	SkipOneCall bool `json:"skip_one_call_api,omitempty"`
}

type ccase struct {
	WGSL  string `json:"wgsl"`
	Stage string `json:"stage,omitempty"`
	optSet
}

var spvVersions = map[string]spirv.Version{"1.0": spirv.Version1_0, "1.1": spirv.Version1_1, "1.2": spirv.Version1_2,
	"1.3": spirv.Version1_3, "1.4": spirv.Version1_4, "1.5": spirv.Version1_5, "1.6": spirv.Version1_6}
var spvVersionNames = []string{"1.0", "1.1", "1.2", "1.3", "1.4", "1.5", "1.6"}

var hlslSMs = map[string]hlsl.ShaderModel{"5_0": hlsl.ShaderModel5_0, "5_1": hlsl.ShaderModel5_1, "6_0": hlsl.ShaderModel6_0,
	"6_1": hlsl.ShaderModel6_1, "6_2": hlsl.ShaderModel6_2, "6_3": hlsl.ShaderModel6_3, "6_4": hlsl.ShaderModel6_4,
	"6_5": hlsl.ShaderModel6_5, "6_6": hlsl.ShaderModel6_6, "6_7": hlsl.ShaderModel6_7}
var hlslSMNames = []string{"5_0", "5_1", "6_0", "6_1", "6_2", "6_3", "6_4", "6_5", "6_6", "6_7"}

var mslVersions = map[string]msl.Version{"1.2": msl.Version1_2, "2.0": msl.Version2_0, "2.1": msl.Version2_1, "2.3": msl.Version2_3,
	"2.4": msl.Version2_4, "3.0": msl.Version3_0, "3.1": msl.Version3_1}
var mslVersionNames = []string{"1.2", "2.0", "2.1", "2.3", "2.4", "3.0", "3.1"}

var glslVersions = map[string]glsl.Version{"330": glsl.Version330, "400": glsl.Version400, "410": glsl.Version410, "420": glsl.Version420,
	"430": glsl.Version430, "450": glsl.Version450, "460": glsl.Version460,
	"300es": glsl.VersionES300, "310es": glsl.VersionES310, "320es": glsl.VersionES320}

// glslComputeVersions can express compute entry points, storage buffers,
// atomics and storage images.
var glslComputeVersions = []string{"430", "450", "460", "310es", "320es"}

// ---------------------------------------------------------------------------
// Judge

type failure struct {
	Stage string
	Msg   string
}

func (f failure) String() string { return f.Stage + ": " + f.Msg }

func guard(stage string, out *[]failure, f func() error) (ok bool) {
	defer func() {
		if r := recover(); r != nil {
			*out = append(*out, failure{stage, fmt.Sprintf("panic: %v", r)})
			ok = false
		}
	}()
	if err := f(); err != nil {
		*out = append(*out, failure{stage, err.Error()})
		return false
	}
	return true
}

// boundGlobals lists the resource bindings of the module in a deterministic order.
type boundGlobal struct {
	rb      ir.ResourceBinding
	kind    int // 0 buffer, 1 texture, 2 sampler
	mutable bool
}

func boundGlobals(m *ir.Module) []boundGlobal {
	var out []boundGlobal
	for _, g := range m.GlobalVariables {
		if g.Binding == nil || int(g.Type) >= len(m.Types) {
			continue
		}
		b := boundGlobal{rb: *g.Binding}
		inner := m.Types[g.Type].Inner
		if ba, ok := inner.(ir.BindingArrayType); ok && int(ba.Base) < len(m.Types) {
			inner = m.Types[ba.Base].Inner
		}
		switch x := inner.(type) {
		case ir.SamplerType:
			b.kind = 2
		case ir.ImageType:
			b.kind = 1
			b.mutable = x.Class == ir.ImageClassStorage
		default:
			b.mutable = g.Space == ir.SpaceStorage && g.Access != ir.StorageRead
		}
		out = append(out, b)
	}
	sort.SliceStable(out, func(i, j int) bool {
		if out[i].rb.Group != out[j].rb.Group {
			return out[i].rb.Group < out[j].rb.Group
		}
		return out[i].rb.Binding < out[j].rb.Binding
	})
	return out
}

func spvOptions(o optSet) spirv.Options {
	so := spirv.DefaultOptions()
	if o.SpvVersion == "" {
		return so
	}
	so.Version = spvVersions[o.SpvVersion]
	so.Debug = o.SpvDebug
	so.ForceLoopBounding = o.SpvLoopBound
	return so
}

func hlslOptions(o optSet, m *ir.Module, ep string) *hlsl.Options {
	ho := hlsl.DefaultOptions()
	if o.HlslSM != "" {
		ho.ShaderModel = hlslSMs[o.HlslSM]
		ho.RestrictIndexing = o.HlslRestrict
		ho.ForceLoopBounding = o.HlslLoopBound
		ho.ZeroInitializeWorkgroupMemory = o.HlslZeroInit
		if o.HlslBindings == "map" {
			ho.FakeMissingBindings = false
			ho.BindingMap = map[hlsl.ResourceBinding]hlsl.BindTarget{}
			ho.SamplerBufferBindingMap = map[uint32]hlsl.BindTarget{}
			for i, b := range boundGlobals(m) {
				ho.BindingMap[hlsl.ResourceBinding{Group: b.rb.Group, Binding: b.rb.Binding}] =
					hlsl.BindTarget{Space: uint8(b.rb.Group + 1), Register: uint32(2*i + 1)}
				ho.SamplerBufferBindingMap[b.rb.Group] = hlsl.BindTarget{Space: 200, Register: b.rb.Group}
			}
		}
	}
	ho.EntryPoint = ep
	return ho
}

func u8(i int) *uint8 { v := uint8(i); return &v }

func mslOptions(o optSet, m *ir.Module) msl.Options {
	mo := msl.DefaultOptions()
	if o.MslVersion == "" {
		mo.FakeMissingBindings = true
		return mo
	}
	mo.LangVersion = mslVersions[o.MslVersion]
	mo.BoundsCheckPolicies = msl.BoundsCheckPolicies{Index: msl.BoundsCheckPolicy(o.MslIndex), Buffer: msl.BoundsCheckPolicy(o.MslBuffer),
		Image: msl.BoundsCheckPolicy(o.MslImage), BindingArray: msl.BoundsCheckPolicy(o.MslIndex)}
	mo.ZeroInitializeWorkgroupMemory = o.MslZeroInit
	mo.ForceLoopBounding = o.MslLoopBound
	switch o.MslBindings {
	case "map":
		mo.PerEntryPointMap = map[string]msl.EntryPointResources{}
		for _, ep := range m.EntryPoints {
			res := msl.EntryPointResources{Resources: map[ir.ResourceBinding]msl.BindTarget{}}
			n := [3]int{}
			for _, b := range boundGlobals(m) {
				bt := msl.BindTarget{Mutable: b.mutable}
				switch b.kind {
				case 0:
					bt.Buffer = u8(n[0])
				case 1:
					bt.Texture = u8(n[1])
				case 2:
					bt.Sampler = &msl.BindSamplerTarget{Slot: uint8(n[2])}
				}
				n[b.kind]++
				res.Resources[b.rb] = bt
			}
			res.SizesBuffer = u8(n[0])
			mo.PerEntryPointMap[ep.Name] = res
		}
	case "auto":
	default:
		mo.FakeMissingBindings = true
	}
	return mo
}

func glslOptions(o optSet, m *ir.Module, ep string) glsl.Options {
	gv := o.GlslVersion
	if gv == "" {
		gv = "450"
	}
	g := glsl.Options{LangVersion: glslVersions[gv], EntryPoint: ep, WriterFlags: glsl.WriterFlags(o.GlslFlags), ForceHighPrecision: o.GlslHighp,
		BoundsCheckPolicies: glsl.BoundsCheckPolicies{ImageLoad: glsl.BoundsCheckPolicy(o.GlslImageLoad), ImageStore: glsl.BoundsCheckPolicy(o.GlslImageStore)}}
	if o.GlslBindingMap {
		g.BindingMap = map[glsl.BindingMapKey]uint8{}
		for i, b := range boundGlobals(m) {
			g.BindingMap[glsl.BindingMapKey{Group: b.rb.Group, Binding: b.rb.Binding}] = uint8(i)
		}
	}
	return g
}

func stageOf(s ir.ShaderStage) string {
	switch s {
	case ir.StageVertex:
		return "vertex"
	case ir.StageFragment:
		return "fragment"
	case ir.StageCompute:
		return "compute"
	}
	return fmt.Sprintf("stage%d", s)
}

// compileAll pushes src through every stage and backend under option set o
// and returns every rejection (front-end rejections end the run).  Each
// backend gets a freshly lowered module, so one backend's in-place edits
// cannot mask or cause another's failure.
func compileAll(src string, o optSet) (fails []failure, m *ir.Module) {
	lower := func() *ir.Module {
		ast, err := naga.Parse(src)
		if err != nil {
			return nil
		}
		mod, err := naga.LowerWithSource(ast, src)
		if err != nil {
			return nil
		}
		if o.ProcessOverrides {
			if err := ir.ProcessOverrides(mod, nil); err != nil {
				panic("ir.ProcessOverrides: " + err.Error())
			}
		}
		return mod
	}
	if !guard("parse", &fails, func() error { _, err := naga.Parse(src); return err }) {
		return fails, nil
	}
	if !guard("lower", &fails, func() error {
		ast, err := naga.Parse(src)
		if err != nil {
			return err
		}
		m, err = naga.LowerWithSource(ast, src)
		if err == nil && m == nil {
			return fmt.Errorf("nil module without error")
		}
		return err
	}) {
		return fails, nil
	}
	if !guard("validate", &fails, func() error {
		errs, err := naga.Validate(m)
		if err != nil {
			return err
		}
		if len(errs) > 0 {
			return fmt.Errorf("%s", errs[0].Error())
		}
		return nil
	}) {
		return fails, m
	}
	if !o.SkipOneCall {
		guard("compile", &fails, func() error {
			out, err := naga.CompileWithOptions(src, naga.DefaultOptions())
			if err == nil && len(out) == 0 {
				return fmt.Errorf("empty output without error")
			}
			return err
		})
	}
	guard("spirv", &fails, func() error {
		out, err := naga.GenerateSPIRV(lower(), spvOptions(o))
		if err == nil && len(out) == 0 {
			return fmt.Errorf("empty output without error")
		}
		return err
	})
	guard("hlsl", &fails, func() error {
		mm := lower()
		s, _, err := hlsl.Compile(mm, hlslOptions(o, mm, ""))
		if err == nil && s == "" {
			return fmt.Errorf("empty output without error")
		}
		return err
	})
	guard("msl", &fails, func() error {
		mm := lower()
		s, _, err := msl.Compile(mm, mslOptions(o, mm))
		if err == nil && s == "" {
			return fmt.Errorf("empty output without error")
		}
		return err
	})
	multi := len(m.EntryPoints) > 1
	for _, ep := range m.EntryPoints {
		ep := ep
		guard("glsl:"+stageOf(ep.Stage), &fails, func() error {
			mm := lower()
			s, _, err := glsl.Compile(mm, glslOptions(o, mm, ep.Name))
			if err == nil && s == "" {
				return fmt.Errorf("empty output without error")
			}
			return err
		})
		if !multi {
			continue
		}
		guard("hlsl-ep:"+stageOf(ep.Stage), &fails, func() error {
			mm := lower()
			s, _, err := hlsl.Compile(mm, hlslOptions(o, mm, ep.Name))
			if err == nil && s == "" {
				return fmt.Errorf("empty output without error")
			}
			return err
		})
		guard("msl-ep:"+stageOf(ep.Stage), &fails, func() error {
			mm := lower()
			s, _, err := msl.CompileWithPipeline(mm, mslOptions(o, mm), msl.PipelineOptions{EntryPoint: &msl.EntryPointSelector{Stage: ep.Stage, Name: ep.Name}})
			if err == nil && s == "" {
				return fmt.Errorf("empty output without error")
			}
			return err
		})
	}
	return fails, m
}

func judgeCase(c *ccase) (bool, string) {
	fails, _ := compileAll(c.WGSL, c.optSet)
	if len(fails) == 0 {
		return true, ""
	}
	return false, fails[0].String()
}

func judgeRaw(raw json.RawMessage) (bool, string) {
	var c ccase
	if err := json.Unmarshal(raw, &c); err != nil {
		return true, "unreadable case: " + err.Error()
	}
	return judgeCase(&c)
}

// ---------------------------------------------------------------------------
// Option drawing

func pick(t *rapid.T, label string, vals []string) string {
	return vals[rapid.IntRange(0, len(vals)-1).Draw(t, label)]
}

// drawOpts draws one option set.  glslVers lists the GLSL versions able to
// express the program.
func drawOpts(t *rapid.T, glslVers []string) optSet {
	var o optSet
	if rapid.IntRange(0, 9).Draw(t, "defaults") == 0 {
		// documented defaults of every backend
		ev.Class("opt:all-defaults")
		o.GlslVersion = pick(t, "glslv", glslVers)
		return o
	}
	b := func(label string) bool { return rapid.Bool().Draw(t, label) }
	o.SpvVersion = pick(t, "spvv", spvVersionNames)
	o.SpvDebug = b("spvdbg")
	o.SpvLoopBound = b("spvlb")
	o.HlslSM = pick(t, "hlslsm", hlslSMNames)
	o.HlslBindings = pick(t, "hlslb", []string{"fake", "map"})
	o.HlslRestrict = b("hlslri")
	o.HlslLoopBound = b("hlsllb")
	o.HlslZeroInit = b("hlslzi")
	o.MslVersion = pick(t, "mslv", mslVersionNames)
	o.MslBindings = pick(t, "mslb", []string{"fake", "map", "auto"})
	o.MslIndex = rapid.IntRange(0, 2).Draw(t, "mslbi")
	o.MslBuffer = rapid.IntRange(0, 2).Draw(t, "mslbb")
	o.MslImage = rapid.IntRange(0, 2).Draw(t, "mslbim")
	o.MslZeroInit = b("mslzi")
	o.MslLoopBound = b("msllb")
	o.GlslVersion = pick(t, "glslv", glslVers)
	// WriterFlags: any subset of the six exported flag bits (bit 0 is unused by the iota layout)
	o.GlslFlags = uint32(rapid.IntRange(0, 63).Draw(t, "glslflags")) << 1
	o.GlslBindingMap = b("glslbm")
	o.GlslHighp = b("glslhp")
	o.GlslImageLoad = rapid.IntRange(0, 2).Draw(t, "glslil")
	o.GlslImageStore = rapid.IntRange(0, 2).Draw(t, "glslis")
	return o
}

func classOpts(o optSet) {
	if o.SpvVersion != "" {
		ev.Class("opt:spv:" + o.SpvVersion)
		ev.Class(fmt.Sprintf("opt:spv:debug=%v", o.SpvDebug))
		ev.Class(fmt.Sprintf("opt:spv:loopbound=%v", o.SpvLoopBound))
		ev.Class("opt:hlsl:sm" + o.HlslSM)
		ev.Class("opt:hlsl:bindings=" + o.HlslBindings)
		ev.Class(fmt.Sprintf("opt:hlsl:restrict=%v", o.HlslRestrict))
		ev.Class(fmt.Sprintf("opt:hlsl:loopbound=%v", o.HlslLoopBound))
		ev.Class(fmt.Sprintf("opt:hlsl:zeroinit=%v", o.HlslZeroInit))
		ev.Class("opt:msl:" + o.MslVersion)
		ev.Class("opt:msl:bindings=" + o.MslBindings)
		ev.Class(fmt.Sprintf("opt:msl:bounds=%d%d%d", o.MslIndex, o.MslBuffer, o.MslImage))
		ev.Class(fmt.Sprintf("opt:msl:zeroinit=%v", o.MslZeroInit))
		ev.Class(fmt.Sprintf("opt:msl:loopbound=%v", o.MslLoopBound))
		for i, n := range []string{"explicit-types", "debug-info", "minify", "adjust-coord", "force-point-size", "texture-shadow-lod"} {
			if o.GlslFlags&(2<<i) != 0 {
				ev.Class("opt:glsl:flag:" + n)
			}
		}
		ev.Class(fmt.Sprintf("opt:glsl:bindingmap=%v", o.GlslBindingMap))
		ev.Class(fmt.Sprintf("opt:glsl:highp=%v", o.GlslHighp))
		ev.Class(fmt.Sprintf("opt:glsl:imagebounds=%d%d", o.GlslImageLoad, o.GlslImageStore))
	}
	ev.Class("opt:glsl:" + o.GlslVersion)
}

// ---------------------------------------------------------------------------
// Features naga does not document as supported (README "Supported WGSL
// Features", ROADMAP, CHANGELOG, corpus): switched off, not reported.  See
// NOTES.md for the reasons.
var undocumented = map[string]bool{}

func featureOff(tag string) bool {
	// triage aid: C08_FORCE_OFF=tag1,tag2 switches these constructs off even under VERIF_NO_EXCLUDE
	if fo := os.Getenv("C08_FORCE_OFF"); fo != "" {
		for _, x := range strings.Split(fo, ",") {
			if x == tag {
				return true
			}
		}
	}
	if os.Getenv("VERIF_NO_EXCLUDE") == "" && undocumented[tag] {
		ev.Class("undocumented-off:" + tag)
		return true
	}
	return ev.Excluded(tag)
}

// ---------------------------------------------------------------------------
// Rejection buckets (triage aid: C08_BUCKETS=<dir> turns failures into a
// histogram and keeps the smallest sample per bucket instead of failing).

var (
	reNum   = regexp.MustCompile(`[0-9]+`)
	reIdent = regexp.MustCompile(`\b(v|p|m|C|S|U|R|pv|ix|fn_|b|al|ar|nb)[0-9]+\b`)
	reQuote = regexp.MustCompile(`'[^']*'|"[^"]*"`)
)

func bucketKey(f failure) string {
	s := f.Msg
	if i := strings.IndexByte(s, '\n'); i >= 0 {
		s = s[:i]
	}
	for _, drop := range []string{"left operand: ", "right operand: ", "SPIR-V generation error: "} {
		s = strings.ReplaceAll(s, drop, "")
	}
	if i := strings.Index(s, " (and "); i >= 0 {
		s = s[:i]
	}
	s = reIdent.ReplaceAllString(s, "_")
	s = reQuote.ReplaceAllString(s, "'_'")
	s = reNum.ReplaceAllString(s, "N")
	if len(s) > 150 {
		s = s[:150]
	}
	st := f.Stage
	if i := strings.IndexByte(st, ':'); i >= 0 {
		st = st[:i]
	}
	return st + ": " + s
}

type bucket struct {
	n      int
	sample string
	msg    string
}

var buckets = map[string]*bucket{}

func bucketDir() string { return os.Getenv("C08_BUCKETS") }

func addBuckets(src string, fails []failure) {
	seen := map[string]bool{}
	for _, f := range fails {
		k := bucketKey(f)
		if f.Stage == "compile" && len(fails) > 1 {
			continue // the one-call API repeats a front-end / SPIR-V rejection
		}
		if seen[k] {
			continue
		}
		seen[k] = true
		b := buckets[k]
		if b == nil {
			b = &bucket{}
			buckets[k] = b
		}
		b.n++
		if b.sample == "" || len(src) < len(b.sample) {
			b.sample, b.msg = src, f.String()
		}
	}
}

func dumpBuckets(name string, total, rejected int) {
	dir := bucketDir()
	if dir == "" {
		return
	}
	_ = os.MkdirAll(dir, 0o755)
	var keys []string
	for k := range buckets {
		keys = append(keys, k)
	}
	sort.Slice(keys, func(i, j int) bool {
		if buckets[keys[i]].n != buckets[keys[j]].n {
			return buckets[keys[i]].n > buckets[keys[j]].n
		}
		return keys[i] < keys[j]
	})
	fmt.Printf("%s: generated %d rejected %d (%.1f%%)\n", name, total, rejected, 100*float64(rejected)/float64(max(total, 1)))
	for i, k := range keys {
		b := buckets[k]
		fmt.Printf("BUCKET %5d  #%02d %s\n", b.n, i, k)
		_ = os.WriteFile(filepath.Join(dir, fmt.Sprintf("%s-%02d.wgsl", name, i)), []byte("// "+strings.ReplaceAll(b.msg, "\n", "\n// ")+"\n"+b.sample), 0o644)
	}
	buckets = map[string]*bucket{}
}

// ---------------------------------------------------------------------------
// Non-triviality

type traits struct {
	helper, nest2, multiEP, texOrAtomic, structIO bool
}

func (tr traits) count() int {
	n := 0
	for _, b := range []bool{tr.helper, tr.nest2, tr.multiEP, tr.texOrAtomic, tr.structIO} {
		if b {
			n++
		}
	}
	return n
}

func (tr traits) classes() {
	for n, b := range map[string]bool{"trait:helper": tr.helper, "trait:nesting>=2": tr.nest2, "trait:multi-entry": tr.multiEP,
		"trait:texture-or-atomic": tr.texOrAtomic, "trait:struct-io": tr.structIO} {
		if b {
			ev.Class(n)
		}
	}
}

// nesting returns the maximal control-flow nesting depth of a statement list.
func nesting(l []wgen.Stmt) int {
	d := 0
	up := func(n int) {
		if n > d {
			d = n
		}
	}
	for _, s := range l {
		switch x := s.(type) {
		case *wgen.If:
			up(1 + max(nesting(x.Then), nesting(x.Else)))
		case *wgen.Switch:
			for _, c := range x.Cases {
				up(1 + nesting(c.Body))
			}
		case *wgen.Loop:
			up(1 + max(nesting(x.Body), nesting(x.Continuing)))
		case *wgen.For:
			up(1 + nesting(x.Body))
		case *wgen.While:
			up(1 + nesting(x.Body))
		case *wgen.Block:
			up(nesting(x.Body))
		}
	}
	return d
}

func execTraits(c *wgen.ExecCase) traits {
	var tr traits
	for _, f := range c.Mod.Funcs() {
		if f.Stage == "" {
			tr.helper = true
		}
		if nesting(f.Body) >= 2 {
			tr.nest2 = true
		}
	}
	tr.multiEP = len(c.Mod.EntryPoints()) >= 2
	for _, cl := range c.Classes {
		if strings.HasPrefix(cl, "atomic:") {
			tr.texOrAtomic = true
		}
	}
	return tr
}

// ---------------------------------------------------------------------------
// TestPropExec

func execFeatures() wgen.Features {
	f := wgen.DefaultFeatures()
	f.ConstOK = wref.ConstOK
	f.Off = featureOff
	return f
}

const ruleText = "non-trivial = program has >= 2 of {helper function, control-flow nesting >= 2, >= 2 entry points, texture or atomic use, struct IO}; distinct = hash(WGSL text + option set)"

func runCase(t *rapid.T, src string, o optSet, tr traits, classes []string, total, rejected *int) {
	fails, _ := compileAll(src, o)
	oj, _ := json.Marshal(o)
	ev.Eval(ev.HashS(src, string(oj)), tr.count() >= 2)
	tr.classes()
	classOpts(o)
	for _, c := range classes {
		ev.Class(c)
	}
	*total++
	if len(fails) == 0 {
		ev.Class("outcome:accepted")
		return
	}
	*rejected++
	for _, f := range fails {
		if strings.HasPrefix(f.Msg, "panic:") {
			ev.Class("outcome:panic")
		}
	}
	if bucketDir() != "" {
		addBuckets(src, fails)
		return
	}
	c := &ccase{WGSL: src, Stage: fails[0].Stage, optSet: o}
	msg := fails[0].String()
	ev.Fail(checkName, c, msg)
	t.Fatalf("valid program rejected — %s\n%s", msg, src)
}

func TestPropExec(t *testing.T) {
	ev.Rule("exec: wgen.GenExec compute programs (valid by construction; constructs covered by an open known finding or by an undocumented-feature tag are switched off and counted) x one drawn option set per backend (10% all-defaults); " + ruleText)
	ev.Assume("validity of generated programs rests on the generator's construction (typed AST, wref.ConstOK for constant expressions), not on naga accepting them")
	total, rejected := 0, 0
	rapid.Check(t, func(t *rapid.T) {
		c := wgen.GenExec(t, execFeatures())
		o := drawOpts(t, glslComputeVersions)
		if ev.WantSample("exec") {
			ev.Sample("exec", &ccase{WGSL: c.Src, optSet: o})
		}
		runCase(t, c.Src, o, execTraits(c), c.Classes, &total, &rejected)
	})
	dumpBuckets("exec", total, rejected)
}

// TestShrinkRej is a triage aid: with C08_MATCH=<substring> rapid shrinks a
// generated exec program one of whose rejections contains the substring.
func TestShrinkRej(t *testing.T) {
	match := os.Getenv("C08_MATCH")
	if match == "" {
		t.Skip("triage aid; set C08_MATCH")
	}
	rapid.Check(t, func(t *rapid.T) {
		c := wgen.GenExec(t, execFeatures())
		var o optSet
		o.GlslVersion = "450"
		fails, _ := compileAll(c.Src, o)
		for _, f := range fails {
			if strings.Contains(f.String(), match) {
				t.Fatalf("%s\n%s", f, c.Src)
			}
		}
	})
}
