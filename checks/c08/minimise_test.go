package c08

import (
	"fmt"
	"os"
	"strings"
	"testing"
)

// TestMinimise is a triage aid: C08_MIN_FILE=<wgsl file> C08_MATCH=<substring>
// greedily deletes lines / brace-balanced line ranges while some rejection of
// the program still contains the substring, and prints the result.
func TestMinimise(t *testing.T) {
	file, match := os.Getenv("C08_MIN_FILE"), os.Getenv("C08_MATCH")
	if file == "" || match == "" {
		t.Skip("triage aid; set C08_MIN_FILE and C08_MATCH")
	}
	b, err := os.ReadFile(file)
	if err != nil {
		t.Fatal(err)
	}
	var lines []string
	for _, l := range strings.Split(string(b), "\n") {
		if strings.HasPrefix(l, "//") || strings.TrimSpace(l) == "" {
			continue
		}
		lines = append(lines, l)
	}
	fails := func(ls []string) bool {
		var o optSet
		fs, _ := compileAll(strings.Join(ls, "\n")+"\n", o)
		for _, f := range fs {
			if strings.Contains(f.String(), match) {
				return true
			}
		}
		return false
	}
	if !fails(lines) {
		t.Fatalf("input does not fail with %q", match)
	}
	// range end for a line opening a block
	blockEnd := func(ls []string, i int) int {
		depth := 0
		for j := i; j < len(ls); j++ {
			depth += strings.Count(ls[j], "{") - strings.Count(ls[j], "}")
			if depth <= 0 {
				return j
			}
		}
		return i
	}
	for changed := true; changed; {
		changed = false
		for i := 0; i < len(lines); i++ {
			ends := []int{i}
			if e := blockEnd(lines, i); e > i {
				ends = []int{e, i}
			}
			for _, e := range ends {
				cand := append(append([]string{}, lines[:i]...), lines[e+1:]...)
				if e > i && e-i >= 2 {
					// also try unwrapping the block (keep its body)
					un := append(append(append([]string{}, lines[:i]...), lines[i+1:e]...), lines[e+1:]...)
					if fails(un) {
						lines, changed = un, true
						i--
						break
					}
				}
				if fails(cand) {
					lines, changed = cand, true
					i--
					break
				}
			}
		}
	}
	fmt.Println("---- minimised ----")
	fmt.Println(strings.Join(lines, "\n"))
}
