// ovprobe prints what the MSL / GLSL backends emit for a WGSL file with
// pipeline constants:  ovprobe <msl|glsl|process-msl|process-glsl> file.wgsl key=value ...
package main

import (
	"fmt"
	"os"
	"strconv"
	"strings"

	"github.com/gogpu/naga"
	"github.com/gogpu/naga/glsl"
	"github.com/gogpu/naga/hlsl"
	"github.com/gogpu/naga/ir"
	"github.com/gogpu/naga/msl"
)

func main() {
	b, _ := os.ReadFile(os.Args[2])
	ast, err := naga.Parse(string(b))
	if err != nil {
		panic(err)
	}
	m, err := naga.LowerWithSource(ast, string(b))
	if err != nil {
		panic(err)
	}
	pc := map[string]float64{}
	for _, kv := range os.Args[3:] {
		i := strings.Index(kv, "=")
		v, _ := strconv.ParseFloat(kv[i+1:], 64)
		pc[kv[:i]] = v
	}
	route := os.Args[1]
	if strings.HasPrefix(route, "process-") {
		m = ir.CloneModuleForOverrides(m)
		if err := ir.ProcessOverrides(m, pc); err != nil {
			fmt.Println("ProcessOverrides error:", err)
			return
		}
		pc = nil
		route = route[len("process-"):]
	}
	switch route {
	case "msl":
		o := msl.DefaultOptions()
		o.FakeMissingBindings = true
		o.PipelineConstants = pc
		s, _, err := msl.Compile(m, o)
		fmt.Println(s, err)
	case "hlsl":
		o := hlsl.DefaultOptions()
		o.FakeMissingBindings = true
		s, _, err := hlsl.Compile(m, o)
		fmt.Println(s, err)
	case "glsl":
		o := glsl.DefaultOptions()
		o.PipelineConstants = pc
		o.EntryPoint = "main"
		s, _, err := glsl.Compile(m, o)
		fmt.Println(s, err)
	}
}
