// spvcheck compiles a WGSL file to SPIR-V with default options (overrides resolved to their defaults) and prints the
// issues of the structural validator (exit 1 when there are any; exit 2 when
// the program is rejected):  spvcheck file.wgsl [substring-an-issue-must-contain]
package main

import (
	"fmt"
	"os"
	"strings"

	"github.com/gogpu/naga"
	"github.com/gogpu/naga/ir"
	"github.com/gogpu/naga/spirv"

	"verif/internal/spv"
)

func main() {
	b, err := os.ReadFile(os.Args[1])
	if err != nil {
		panic(err)
	}
	src := string(b)
	ast, err := naga.Parse(src)
	if err != nil {
		fmt.Println("parse:", err)
		os.Exit(2)
	}
	m, err := naga.LowerWithSource(ast, src)
	if err != nil {
		fmt.Println("lower:", err)
		os.Exit(2)
	}
	if strings.Contains(src, "override ") {
		if err := ir.ProcessOverrides(m, nil); err != nil {
			fmt.Println("overrides:", err)
			os.Exit(2)
		}
	}
	bin, err := naga.GenerateSPIRV(m, spirv.Options{Version: spirv.Version{Major: 1, Minor: 0}})
	if err != nil {
		fmt.Println("spirv:", err)
		os.Exit(2)
	}
	mod, err := spv.Parse(bin)
	if err != nil {
		fmt.Println("unparsable:", err)
		os.Exit(1)
	}
	bad := false
	for _, i := range spv.Validate(mod) {
		s := fmt.Sprintf("[%s] %s", i.Rule, i.Msg)
		if len(os.Args) > 2 && !strings.Contains(s, os.Args[2]) {
			continue
		}
		fmt.Println(s)
		bad = true
	}
	if bad {
		os.Exit(1)
	}
}
