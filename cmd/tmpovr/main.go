package main

import (
	"fmt"
	"os"

	"github.com/gogpu/naga"
	"github.com/gogpu/naga/ir"
	"github.com/gogpu/naga/spirv"
	"verif/internal/spv"
)

func main() {
	b, _ := os.ReadFile(os.Args[1])
	ast, err := naga.Parse(string(b))
	if err != nil {
		panic(err)
	}
	m, err := naga.LowerWithSource(ast, string(b))
	if err != nil {
		panic(err)
	}
	if err := ir.ProcessOverrides(m, nil); err != nil {
		panic(err)
	}
	bin, err := naga.GenerateSPIRV(m, spirv.Options{Version: spirv.Version1_3})
	if err != nil {
		panic(err)
	}
	mod, _ := spv.Parse(bin)
	if len(os.Args) > 2 {
		fmt.Print(mod.Disassemble())
	}
	for _, i := range spv.Validate(mod) {
		fmt.Println("ISSUE", i.Inst, i.Rule, i.Msg)
	}
}
