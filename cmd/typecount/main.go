package main

import (
	"fmt"
	"os"

	"github.com/gogpu/naga"
)

func main() {
	b, _ := os.ReadFile(os.Args[1])
	ast, err := naga.Parse(string(b))
	if err != nil {
		fmt.Println("parse-err")
		return
	}
	m, err := naga.LowerWithSource(ast, string(b))
	if err != nil {
		fmt.Println("lower-err", err)
		return
	}
	n := 0
	for i := range m.EntryPoints {
		n += len(m.EntryPoints[i].Function.Expressions)
	}
	for i := range m.Functions {
		n += len(m.Functions[i].Expressions)
	}
	fmt.Println(len(m.Types), len(m.Constants), len(m.GlobalExpressions), len(m.Functions), n)
}
