package main
import ("fmt";"os";"github.com/gogpu/naga";"github.com/gogpu/naga/hlsl";"github.com/gogpu/naga/msl")
func main(){ b,_:=os.ReadFile(os.Args[1]); ast,err:=naga.Parse(string(b)); if err!=nil{panic(err)}; m,err:=naga.LowerWithSource(ast,string(b)); if err!=nil{panic(err)}
 o:=hlsl.DefaultOptions(); o.FakeMissingBindings=true; o.RestrictIndexing=true; s,_,err:=hlsl.Compile(m,o); fmt.Println(s,err)
 if len(os.Args)>2 { mo:=msl.DefaultOptions(); mo.FakeMissingBindings=true; mo.BoundsCheckPolicies=msl.BoundsCheckPolicies{Index:msl.BoundsCheckRestrict,Buffer:msl.BoundsCheckRestrict}; t,_,err:=msl.Compile(m,mo); fmt.Println(t,err)}
}
