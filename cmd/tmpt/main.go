package main
import ("fmt";"os";"strings";"time";"strconv";"github.com/gogpu/naga";"github.com/gogpu/naga/spirv";"github.com/gogpu/naga/hlsl";"github.com/gogpu/naga/msl";"github.com/gogpu/naga/glsl";"github.com/gogpu/naga/dxil")
func main(){
 kind:=os.Args[1]
 for _,a:=range os.Args[2:]{ n,_:=strconv.Atoi(a)
  var src string
  switch kind{
  case "idx": src="fn f(a: array<i32, 4>) -> i32 { return a" + strings.Repeat("[0]", n) + "; }"
  }
  tm:=func(name string,f func()){t:=time.Now();f();fmt.Printf("%d %s %v\n",n,name,time.Since(t))}
  t:=time.Now(); a2,err:=naga.Parse(src); fmt.Println(n,"parse",time.Since(t),err); if err!=nil{continue}
  t=time.Now(); m,err:=naga.LowerWithSource(a2,src); fmt.Println(n,"lower",time.Since(t),err); if err!=nil{continue}
  tm("validate",func(){naga.Validate(m)})
  tm("spirv",func(){_,e:=spirv.NewBackend(spirv.Options{Version:spirv.Version1_3}).Compile(m);if e!=nil{fmt.Println(e.Error())}})
  tm("msl",func(){o:=msl.DefaultOptions();o.FakeMissingBindings=true;_,_,e:=msl.Compile(m,o);if e!=nil{fmt.Println(e.Error())}})
  tm("glsl",func(){_,_,e:=glsl.Compile(m,glsl.Options{LangVersion:glsl.Version{Major:4,Minor:50}});if e!=nil{fmt.Println(e.Error())}})
  tm("dxil",func(){_,e:=dxil.Compile(m,dxil.DefaultOptions());if e!=nil{fmt.Println(e.Error())}})
  tm("hlsl",func(){o:=hlsl.DefaultOptions();o.FakeMissingBindings=true;_,_,e:=hlsl.Compile(m,o);if e!=nil{fmt.Println(e.Error())}})
 }
}
