package main

import (
	"fmt"
	"os"
	"time"

	"github.com/gogpu/naga"
	"github.com/gogpu/naga/glsl"
	"github.com/gogpu/naga/hlsl"
	"github.com/gogpu/naga/msl"
	"github.com/gogpu/naga/dxil"
	"github.com/gogpu/naga/spirv"
)

func main() {
	b, _ := os.ReadFile(os.Args[1])
	t := time.Now()
	lap := func(s string) { fmt.Println(s, time.Since(t)); t = time.Now() }
	ast, err := naga.Parse(string(b))
	lap("parse")
	if err != nil { panic(err) }
	m, err := naga.LowerWithSource(ast, string(b))
	lap("lower")
	if err != nil { panic(err) }
	naga.Validate(m)
	lap("validate")
	naga.GenerateSPIRV(m, spirv.Options{Version: spirv.Version1_3})
	lap("spirv")
	ho := hlsl.DefaultOptions(); ho.FakeMissingBindings = true
	hlsl.Compile(m, ho)
	lap("hlsl")
	mo := msl.DefaultOptions(); mo.FakeMissingBindings = true
	msl.Compile(m, mo)
	lap("msl")
	g := glsl.DefaultOptions(); g.EntryPoint = "main"
	glsl.Compile(m, g)
	lap("glsl")
	dxil.Compile(m, dxil.DefaultOptions())
	lap("dxil")
}
