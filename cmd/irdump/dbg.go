package main

import (
	"fmt"

	"github.com/gogpu/naga/ir"
)

func litType(k ir.ExpressionKind) string {
	if l, ok := k.(ir.Literal); ok {
		return fmt.Sprintf("%T", l.Value)
	}
	return ""
}
