// irdump prints the expressions and body of every function of a WGSL file,
// optionally after ir.ProcessOverrides on a clone:  irdump [-process] file.wgsl
package main

import (
	"fmt"
	"os"

	"github.com/gogpu/naga"
	"github.com/gogpu/naga/ir"
)

func dumpBlock(b ir.Block, ind string) {
	for _, s := range b {
		fmt.Printf("%s%T %+v\n", ind, s.Kind, s.Kind)
	}
}

func main() {
	args := os.Args[1:]
	process := false
	if args[0] == "-process" {
		process = true
		args = args[1:]
	}
	b, _ := os.ReadFile(args[0])
	ast, err := naga.Parse(string(b))
	if err != nil {
		panic(err)
	}
	m, err := naga.LowerWithSource(ast, string(b))
	if err != nil {
		panic(err)
	}
	if process {
		m = ir.CloneModuleForOverrides(m)
		if err := ir.ProcessOverrides(m, nil); err != nil {
			panic(err)
		}
	}
	dump := func(name string, f *ir.Function) {
		fmt.Println("== fn", name)
		for i, e := range f.Expressions {
			var ty any
			if i < len(f.ExpressionTypes) {
				ty = f.ExpressionTypes[i]
			}
			fmt.Printf("  e%d %T %+v :: %+v\n", i, e.Kind, e.Kind, ty)
		}
		fmt.Println("  named:", f.NamedExpressions)
		dumpBlock(f.Body, "  ")
	}
	for i, t := range m.Types {
		fmt.Printf("t%d %q %T %+v\n", i, t.Name, t.Inner, t.Inner)
	}
	for i, c := range m.Constants {
		fmt.Printf("c%d %+v\n", i, c)
	}
	for i, g := range m.GlobalVariables {
		fmt.Printf("g%d %s ty=%d init=%v\n", i, g.Name, g.Type, g.Init)
	}
	for i, e := range m.GlobalExpressions {
		fmt.Printf("ge%d %T %#v %s\n", i, e.Kind, e.Kind, litType(e.Kind))
	}
	for i := range m.Functions {
		dump(m.Functions[i].Name, &m.Functions[i])
	}
	for i := range m.EntryPoints {
		dump(m.EntryPoints[i].Name, &m.EntryPoints[i].Function)
	}
}
