// showtext prints what a backend emits for the program of a replay file.
//   showtext <spirv|glsl|hlsl|msl> <replay.json> [grep-substring]
package main

import (
	"encoding/json"
	"fmt"
	"os"
	"strings"

	"verif/internal/ev"
	"verif/internal/xrun"
)

func main() {
	var c xrun.Case
	if strings.HasSuffix(os.Args[2], ".wgsl") {
		b, err := os.ReadFile(os.Args[2])
		if err != nil {
			panic(err)
		}
		c = xrun.Case{WGSL: string(b), Entry: "main", NumWG: [3]uint32{1, 1, 1}, WGSize: [3]int{1, 1, 1}, RefSteps: 1000, Opts: map[string]string{}}
	} else {
		r, err := ev.LoadReplay(os.Args[2])
		if err != nil {
			panic(err)
		}
		var w struct {
			X *xrun.Case `json:"x"`
		}
		if json.Unmarshal(r.Case, &w) == nil && w.X != nil {
			c = *w.X
		} else if err := json.Unmarshal(r.Case, &c); err != nil {
			panic(err)
		}
	}
	xrun.SkipModuleUnchanged = true
	var o xrun.Outcome
	switch os.Args[1] {
	case "glsl":
		o = xrun.RunGLSL(&c)
	case "hlsl":
		o = xrun.RunHLSL(&c)
	case "msl":
		o = xrun.RunMSL(&c)
	default:
		o = xrun.RunSPIRV(&c)
	}
	text := o.Text
	if len(os.Args) > 3 {
		var keep []string
		for _, l := range strings.Split(text, "\n") {
			if strings.Contains(l, os.Args[3]) {
				keep = append(keep, l)
			}
		}
		text = strings.Join(keep, "\n")
	}
	fmt.Println(text)
	fmt.Printf("rejected=%q unsupported=%q invalid=%q bad=%q\n", o.Rejected, o.Unsupported, o.Invalid, o.Bad)
	if o.Buffers != nil {
		ok, msg := c.Compare(o.Buffers)
		fmt.Println("compare:", ok, msg)
	}
}
