// spvdis compiles a WGSL file with naga and prints the framework's disassembly and validation issues.
package main

import (
	"fmt"
	"os"

	"github.com/gogpu/naga"
	"github.com/gogpu/naga/spirv"
	"verif/internal/spv"
)

func main() {
	b, _ := os.ReadFile(os.Args[1])
	ast, err := naga.Parse(string(b))
	if err != nil {
		panic(err)
	}
	m, err := naga.LowerWithSource(ast, string(b))
	if err != nil {
		panic(err)
	}
	bin, err := naga.GenerateSPIRV(m, spirv.Options{Version: spirv.Version1_3, Debug: len(os.Args) > 2})
	if err != nil {
		panic(err)
	}
	mod, err := spv.Parse(bin)
	if err != nil {
		panic(err)
	}
	fmt.Print(mod.Disassemble())
	for _, i := range spv.Validate(mod) {
		fmt.Println("ISSUE", i.Rule, i.Msg)
	}
}
