package main

import (
	"encoding/binary"
	"fmt"
	"os"

	"github.com/gogpu/naga"
	"github.com/gogpu/naga/spirv"
)

func lower(f string) ([]byte, error) {
	b, _ := os.ReadFile(f)
	ast, err := naga.Parse(string(b))
	if err != nil {
		return nil, err
	}
	m, err := naga.LowerWithSource(ast, string(b))
	if err != nil {
		return nil, err
	}
	_ = m
	return nil, nil
}

func main() {
	srcA, _ := os.ReadFile(os.Args[1])
	srcB, _ := os.ReadFile(os.Args[2])
	mk := func(s []byte) interface{} { return nil }
	_ = mk
	astA, _ := naga.Parse(string(srcA))
	mA, _ := naga.LowerWithSource(astA, string(srcA))
	astB, _ := naga.Parse(string(srcB))
	mB, _ := naga.LowerWithSource(astB, string(srcB))
	be := spirv.NewBackend(spirv.Options{Version: spirv.Version1_3})
	_, errA := be.Compile(mA)
	fmt.Println("A err:", errA)
	reused, err1 := be.Compile(mB)
	fresh, err2 := spirv.NewBackend(spirv.Options{Version: spirv.Version1_3}).Compile(mB)
	fmt.Println(err1, err2, len(reused), len(fresh))
	for i := 0; i+4 <= len(reused) && i+4 <= len(fresh); i += 4 {
		a, b := binary.LittleEndian.Uint32(reused[i:]), binary.LittleEndian.Uint32(fresh[i:])
		if a != b {
			fmt.Printf("word %d: reused %08x fresh %08x\n", i/4, a, b)
			break
		}
	}
	for i := 0; i < 12 && i*4 < len(reused); i++ {
		fmt.Printf("%08x ", binary.LittleEndian.Uint32(reused[i*4:]))
	}
	fmt.Println()
	for i := 0; i < 12 && i*4 < len(fresh); i++ {
		fmt.Printf("%08x ", binary.LittleEndian.Uint32(fresh[i*4:]))
	}
	fmt.Println()
}
