// probe compiles WGSL snippets (files or stdin separated by lines "----") through
// every stage and backend and prints the outcome; development aid.
package main

import (
	"fmt"
	"os"
	"strings"

	"github.com/gogpu/naga"
	"github.com/gogpu/naga/glsl"
	"github.com/gogpu/naga/hlsl"
	"github.com/gogpu/naga/msl"
	"github.com/gogpu/naga/spirv"
)

func try(name string, f func() error) {
	defer func() {
		if r := recover(); r != nil {
			fmt.Printf("  %-8s PANIC %v\n", name, r)
		}
	}()
	if err := f(); err != nil {
		s := err.Error()
		if len(s) > 200 {
			s = s[:200]
		}
		fmt.Printf("  %-8s ERR %s\n", name, strings.ReplaceAll(s, "\n", " | "))
	} else {
		fmt.Printf("  %-8s ok\n", name)
	}
}

func main() {
	show := os.Getenv("SHOW")
	for _, file := range os.Args[1:] {
		b, err := os.ReadFile(file)
		if err != nil {
			panic(err)
		}
		for i, src := range strings.Split(string(b), "\n----\n") {
			fmt.Printf("== %s #%d: %s\n", file, i, strings.SplitN(strings.TrimSpace(src), "\n", 2)[0])
			ast, err := naga.Parse(src)
			if err != nil {
				fmt.Println("  parse ERR", err)
				continue
			}
			m, err := naga.LowerWithSource(ast, src)
			if err != nil {
				fmt.Println("  lower ERR", err)
				continue
			}
			try("validate", func() error {
				es, err := naga.Validate(m)
				if err != nil {
					return err
				}
				if len(es) > 0 {
					return fmt.Errorf("%s", es[0].Error())
				}
				return nil
			})
			try("spirv", func() error {
				_, err := naga.GenerateSPIRV(m, spirv.Options{Version: spirv.Version1_3})
				return err
			})
			try("hlsl", func() error {
				o := hlsl.DefaultOptions()
				o.FakeMissingBindings = true
				s, _, err := hlsl.Compile(m, o)
				if show == "hlsl" {
					fmt.Println(s)
				}
				return err
			})
			try("msl", func() error {
				o := msl.DefaultOptions()
				o.FakeMissingBindings = true
				s, _, err := msl.Compile(m, o)
				if show == "msl" {
					fmt.Println(s)
				}
				return err
			})
			for _, ep := range m.EntryPoints {
				try("glsl:"+ep.Name, func() error {
					s, _, err := glsl.Compile(m, glsl.Options{LangVersion: glsl.Version{Major: 4, Minor: 50}, EntryPoint: ep.Name})
					if show == "glsl" {
						fmt.Println(s)
					}
					return err
				})
			}
		}
	}
}
