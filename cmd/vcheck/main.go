// vcheck is the driver registered in MANIFEST.json (through ./check).
//
//	vcheck <ID> <quick|thorough>          run the property's check
//	vcheck <ID> --replay <file>           re-judge one replay file
//	vcheck --setup                        pre-build every check binary
//
// Exit codes: 0 property held on everything explored (KNOWN-FINDING lines
// may be printed), 1 violation (VIOLATION property=<ID> replay=<path>),
// 2 inconclusive (harness trouble; never a violation).
package main

import (
	"bytes"
	"encoding/json"
	"fmt"
	"os"
	"os/exec"
	"path/filepath"
	"regexp"
	"sort"
	"strconv"
	"strings"
	"sync"
	"time"

	"verif/internal/ev"
)

type tierCfg struct {
	Shards  int       `json:"shards"`
	Checks  int       `json:"checks"`
	Timeout int       `json:"timeout_s"` // per shard process, wall clock
	Fuzz    []fuzzCfg `json:"fuzz"`
	RaceS   int       `json:"race_s"` // seconds for the -race stage (0 = none)
}

type fuzzCfg struct {
	Target  string `json:"target"`
	Seconds int    `json:"seconds"`
}

type checkCfg struct {
	Quick    tierCfg `json:"quick"`
	Thorough tierCfg `json:"thorough"`
	Level    string  `json:"level"`
}

var root = ev.Root()

func main() {
	args := os.Args[1:]
	if len(args) == 1 && args[0] == "--setup" {
		os.Exit(setup())
	}
	if len(args) < 2 {
		fmt.Fprintln(os.Stderr, "usage: vcheck <ID> <quick|thorough> | <ID> --replay <file> | --setup")
		os.Exit(2)
	}
	id := strings.ToUpper(args[0])
	if args[1] == "--replay" {
		if len(args) < 3 {
			fmt.Fprintln(os.Stderr, "--replay needs a file")
			os.Exit(2)
		}
		os.Exit(replay(id, args[2]))
	}
	tier := args[1]
	if tier != "quick" && tier != "thorough" {
		fmt.Fprintln(os.Stderr, "tier must be quick or thorough")
		os.Exit(2)
	}
	os.Setenv("VERIF_TIER", tier)
	os.Exit(run(id, tier))
}

func loadCfg() map[string]checkCfg {
	b, err := os.ReadFile(filepath.Join(root, "checks", "config.json"))
	if err != nil {
		fmt.Fprintln(os.Stderr, "config:", err)
		os.Exit(2)
	}
	var c map[string]checkCfg
	if err := json.Unmarshal(b, &c); err != nil {
		fmt.Fprintln(os.Stderr, "config:", err)
		os.Exit(2)
	}
	return c
}

func goBin() string {
	if g := os.Getenv("VGO"); g != "" {
		return g
	}
	return "go"
}

// build compiles checks/<id> into work/<id>/<name>; extra are extra build flags.
func build(id, name string, extra ...string) (string, error) {
	dir := filepath.Join(root, ".work", id)
	if err := os.MkdirAll(dir, 0o755); err != nil {
		return "", err
	}
	out := filepath.Join(dir, name)
	args := []string{"test", "-c", "-tags", "verif", "-o", out}
	if mf := os.Getenv("VERIF_MODFILE"); mf != "" {
		args = append(args, "-modfile", mf)
	}
	args = append(args, extra...)
	args = append(args, "./checks/"+strings.ToLower(id))
	cmd := exec.Command(goBin(), args...)
	cmd.Dir = root
	var buf bytes.Buffer
	cmd.Stdout, cmd.Stderr = &buf, &buf
	if err := cmd.Run(); err != nil {
		return "", fmt.Errorf("build %s failed: %v\n%s", id, err, buf.String())
	}
	return out, nil
}

func setup() int {
	cfg := loadCfg()
	var ids []string
	for id := range cfg {
		ids = append(ids, id)
	}
	sort.Strings(ids)
	rc := 0
	for _, id := range ids {
		if _, err := os.Stat(filepath.Join(root, "checks", strings.ToLower(id))); err != nil {
			continue
		}
		if _, err := build(id, "c.test"); err != nil {
			fmt.Fprintln(os.Stderr, err)
			rc = 2
		} else {
			fmt.Println("built", id)
		}
	}
	return rc
}

type procResult struct {
	name    string
	out     []byte
	err     error
	timeout bool
	dur     time.Duration
}

func runProc(name string, timeout time.Duration, env []string, bin string, args ...string) procResult {
	cmd := exec.Command(bin, args...)
	cmd.Dir = filepath.Dir(bin)
	cmd.Env = append(os.Environ(), env...)
	var buf bytes.Buffer
	cmd.Stdout, cmd.Stderr = &buf, &buf
	start := time.Now()
	if err := cmd.Start(); err != nil {
		return procResult{name: name, err: err}
	}
	done := make(chan error, 1)
	go func() { done <- cmd.Wait() }()
	var err error
	to := false
	select {
	case err = <-done:
	case <-time.After(timeout):
		to = true
		_ = cmd.Process.Kill()
		err = <-done
	}
	return procResult{name: name, out: buf.Bytes(), err: err, timeout: to, dur: time.Since(start)}
}

func seedFor(id string, shard int) uint64 {
	base := uint64(ev.Seed())
	h := ev.HashS(id, strconv.FormatUint(base, 10), strconv.Itoa(shard))
	h &= 0x7fffffffffffffff
	if h == 0 {
		h = 0x9e3779b97f4a7c15 & 0x7fffffffffffffff
	}
	return h
}

var rePassed = regexp.MustCompile(`OK, passed (\d+) tests`)

func run(id, tier string) int {
	start := time.Now()
	cfgs := loadCfg()
	cc, ok := cfgs[id]
	if !ok {
		fmt.Fprintf(os.Stderr, "no such check %s\n", id)
		return 2
	}
	tc := cc.Quick
	if tier == "thorough" {
		tc = cc.Thorough
	}
	if tc.Shards <= 0 {
		tc.Shards = 4
	}
	if tc.Timeout <= 0 {
		tc.Timeout = 900
	}
	if s := os.Getenv("VERIF_CHECKS"); s != "" {
		if n, err := strconv.Atoi(s); err == nil {
			tc.Checks = n
		}
	}
	workDir := filepath.Join(root, ".work", id)
	outDir := filepath.Join(workDir, "out")
	os.RemoveAll(outDir)
	os.MkdirAll(outDir, 0o755)
	os.RemoveAll(filepath.Join(root, "replay", id))
	os.RemoveAll(filepath.Join(root, "checks", strings.ToLower(id), "testdata", "rapid"))

	bin, err := build(id, "c.test")
	if err != nil {
		fmt.Fprintln(os.Stderr, err)
		// A build failure of the check against the current /repo tree is harness
		// trouble unless naga itself no longer compiles; either way not a verdict.
		writeEvidence(id, tier, cc, nil, 0, []string{"build failed"}, time.Since(start), 0, tc)
		return 2
	}
	common := []string{"VERIF_OUT=" + outDir, "VERIF_TIER=" + tier, "VERIF_ROOT=" + root,
		"VERIF_SEED=" + strconv.FormatInt(ev.Seed(), 10)}
	var results []procResult
	var inconclusive []string

	// Stage 1: known findings + committed regression inputs.
	r := runProc("known", 10*time.Minute, append(common, "VERIF_STAGE=known", "VERIF_SHARD=0"), bin,
		"-test.run", "^(TestKnown|TestRegress)", "-test.count=1", "-test.timeout=0")
	results = append(results, r)

	// Stage 2: rapid properties in shards.
	var wg sync.WaitGroup
	var mu sync.Mutex
	for i := 0; i < tc.Shards; i++ {
		wg.Add(1)
		go func(i int) {
			defer wg.Done()
			env := append(common, "VERIF_STAGE=props", "VERIF_SHARD="+strconv.Itoa(i),
				"VERIF_SHARDS="+strconv.Itoa(tc.Shards))
			args := []string{"-test.run", "^TestProp", "-test.count=1", "-test.timeout=0",
				"-rapid.seed=" + strconv.FormatUint(seedFor(id, i), 10), "-rapid.nofailfile",
				"-rapid.checks=" + strconv.Itoa(tc.Checks), "-test.v"}
			r := runProc(fmt.Sprintf("shard%d", i), time.Duration(tc.Timeout)*time.Second, env, bin, args...)
			mu.Lock()
			results = append(results, r)
			mu.Unlock()
		}(i)
	}
	wg.Wait()

	// Stage 3 (optional): race-detector build.
	if tc.RaceS > 0 {
		rb, err := build(id, "c.race.test", "-race")
		if err != nil {
			inconclusive = append(inconclusive, "race build failed: "+err.Error())
		} else {
			env := append(common, "VERIF_STAGE=race", "VERIF_SHARD=0", "VERIF_RACE_S="+strconv.Itoa(tc.RaceS))
			r := runProc("race", time.Duration(tc.RaceS*4+300)*time.Second, env, rb,
				"-test.run", "^TestRace", "-test.count=1", "-test.timeout=0", "-test.v",
				"-rapid.seed="+strconv.FormatUint(seedFor(id, 99), 10), "-rapid.nofailfile")
			if bytes.Contains(r.out, []byte("WARNING: DATA RACE")) {
				// The race detector's report is the failing case.
				dir := filepath.Join(root, "replay", id)
				os.MkdirAll(dir, 0o755)
				p := filepath.Join(dir, "race-report.txt")
				os.WriteFile(p, r.out, 0o644)
				sh := ev.Shard{Property: id, Failures: []ev.ShardFailure{{Check: "race-detector", Path: p,
					Message: "Go race detector reported a data race during concurrent compilation"}}}
				jb, _ := json.Marshal(&sh)
				os.WriteFile(filepath.Join(outDir, "shard-racefail-0.json"), jb, 0o644)
				r.out = append(r.out, []byte("\nVERIF-FAIL race\n")...)
			}
			results = append(results, r)
		}
	}

	// Stage 4 (thorough): bounded native fuzz campaigns.
	for _, fz := range tc.Fuzz {
		r := runFuzz(id, fz, common)
		results = append(results, r)
	}

	// Merge.
	merged, shards := merge(outDir)
	requested := int64(0)
	violations := map[string]ev.ShardFailure{}
	for _, f := range merged.Failures {
		violations[f.Path] = f
	}
	for _, r := range results {
		if r.timeout {
			inconclusive = append(inconclusive, fmt.Sprintf("%s: wall-clock budget (%ds) hit", r.name, tc.Timeout))
			continue
		}
		if r.err != nil {
			// A failing test process must be explained by a recorded failure;
			// otherwise it is harness trouble (crash, OOM, panic outside a property).
			if !bytes.Contains(r.out, []byte("VERIF-FAIL")) {
				inconclusive = append(inconclusive, fmt.Sprintf("%s: exited %v without a recorded failure", r.name, r.err))
				tail := r.out
				if len(tail) > 6000 {
					tail = tail[len(tail)-6000:]
				}
				fmt.Fprintf(os.Stderr, "---- %s output tail ----\n%s\n", r.name, tail)
			}
		}
		if strings.HasPrefix(r.name, "shard") {
			for _, m := range rePassed.FindAllSubmatch(r.out, -1) {
				n, _ := strconv.Atoi(string(m[1]))
				if n < tc.Checks && r.err == nil {
					inconclusive = append(inconclusive, fmt.Sprintf("%s: only %d of %d cases ran", r.name, n, tc.Checks))
				}
				requested += int64(n)
			}
		}
	}
	inconclusive = append(inconclusive, merged.Inconcl...)

	for _, k := range merged.Known {
		fmt.Printf("KNOWN-FINDING: property=%s %s %s\n", id, k.ID, k.Message)
	}
	var paths []string
	for p := range violations {
		paths = append(paths, p)
	}
	sort.Strings(paths)
	for _, p := range paths {
		fmt.Printf("VIOLATION property=%s replay=%s\n", id, p)
		fmt.Printf("  check=%s: %s\n", violations[p].Check, oneLine(violations[p].Message))
	}
	wall := time.Since(start)
	writeEvidence(id, tier, cc, merged, shards, inconclusive, wall, len(paths), tc)
	fmt.Printf("%s %s: evaluations=%d distinct_nontrivial=%d violations=%d known=%d wall=%.1fs\n",
		id, tier, merged.Evaluations, len(merged.Hashes), len(paths), len(merged.Known), wall.Seconds())
	if len(paths) > 0 {
		return 1
	}
	if len(inconclusive) > 0 {
		for _, s := range inconclusive {
			fmt.Printf("INCONCLUSIVE: %s\n", oneLine(s))
		}
		return 2
	}
	return 0
}

func oneLine(s string) string {
	s = strings.ReplaceAll(s, "\n", " | ")
	if len(s) > 400 {
		s = s[:400] + "…"
	}
	return s
}

func runFuzz(id string, fz fuzzCfg, common []string) procResult {
	// Native fuzzing needs `go test` (not a pre-built binary) so that the
	// coverage-instrumented build and the worker protocol are set up.
	args := []string{"test", "-tags", "verif", "-run", "^$", "-fuzz", "^" + fz.Target + "$",
		"-fuzztime", strconv.Itoa(fz.Seconds) + "s",
		"./checks/" + strings.ToLower(id)}
	if mf := os.Getenv("VERIF_MODFILE"); mf != "" {
		args = append(args[:1], append([]string{"-modfile", mf}, args[1:]...)...)
	}
	cmd := exec.Command(goBin(), args...)
	cmd.Dir = root
	cmd.Env = append(os.Environ(), append(common, "VERIF_STAGE=fuzz-"+fz.Target, "VERIF_SHARD=0")...)
	var buf bytes.Buffer
	cmd.Stdout, cmd.Stderr = &buf, &buf
	start := time.Now()
	err := cmd.Run()
	res := procResult{name: "fuzz-" + fz.Target, out: buf.Bytes(), err: err, dur: time.Since(start)}
	// Fuzz workers are separate processes; failures are reported by `go test`
	// as a crasher file under testdata/fuzz/<Target>/.  Convert to VIOLATION via
	// a replay run of that input through the normal test path.
	if err != nil {
		re := regexp.MustCompile(`testdata/fuzz/` + fz.Target + `/([0-9a-f]+)`)
		if m := re.FindSubmatch(buf.Bytes()); m != nil {
			src := filepath.Join(root, "checks", strings.ToLower(id), "testdata", "fuzz", fz.Target, string(m[1]))
			dstDir := filepath.Join(root, "replay", id)
			os.MkdirAll(dstDir, 0o755)
			dst := filepath.Join(dstDir, "fuzz-"+fz.Target+"-"+string(m[1]))
			if b, e := os.ReadFile(src); e == nil {
				os.WriteFile(dst, b, 0o644)
				os.Remove(src)
				// record as a failure in a shard file so merge() sees it
				sh := ev.Shard{Property: id, Failures: []ev.ShardFailure{{Check: "fuzz:" + fz.Target, Path: dst,
					Message: "native fuzz crasher: " + tailStr(buf.Bytes(), 1500)}}}
				jb, _ := json.Marshal(&sh)
				os.WriteFile(filepath.Join(root, ".work", id, "out", "shard-fuzzfail-"+fz.Target+"-0.json"), jb, 0o644)
				res.out = append(res.out, []byte("\nVERIF-FAIL fuzz crasher\n")...)
			}
		}
	}
	return res
}

func tailStr(b []byte, n int) string {
	if len(b) > n {
		b = b[len(b)-n:]
	}
	return string(b)
}

func merge(outDir string) (*ev.Shard, int) {
	m := &ev.Shard{Classes: map[string]int64{}}
	files, _ := filepath.Glob(filepath.Join(outDir, "shard-*.json"))
	sort.Strings(files)
	hs := map[uint64]struct{}{}
	seenKnown := map[string]bool{}
	for _, f := range files {
		b, err := os.ReadFile(f)
		if err != nil {
			continue
		}
		var s ev.Shard
		if json.Unmarshal(b, &s) != nil {
			continue
		}
		m.Evaluations += s.Evaluations
		for _, h := range s.Hashes {
			hs[h] = struct{}{}
		}
		for k, v := range s.Classes {
			m.Classes[k] += v
		}
		if len(m.Samples) < 12 {
			for _, sm := range s.Samples {
				if len(m.Samples) < 12 {
					m.Samples = append(m.Samples, sm)
				}
			}
		}
		m.Failures = append(m.Failures, s.Failures...)
		for _, k := range s.Known {
			if !seenKnown[k.ID] {
				seenKnown[k.ID] = true
				m.Known = append(m.Known, k)
			}
		}
		for _, r := range s.Rules {
			m.Rules = appendUniq(m.Rules, r)
		}
		for _, r := range s.Assumptions {
			m.Assumptions = appendUniq(m.Assumptions, r)
		}
		for _, r := range s.Inconcl {
			m.Inconcl = appendUniq(m.Inconcl, r)
		}
	}
	for h := range hs {
		m.Hashes = append(m.Hashes, h)
	}
	return m, len(files)
}

func appendUniq(l []string, s string) []string {
	for _, x := range l {
		if x == s {
			return l
		}
	}
	return append(l, s)
}

func writeEvidence(id, tier string, cc checkCfg, m *ev.Shard, shards int, inconcl []string, wall time.Duration, nviol int, tc tierCfg) {
	if m == nil {
		m = &ev.Shard{Classes: map[string]int64{}}
	}
	level := cc.Level
	if level == "" {
		level = "exploration"
	}
	samples := make([]any, 0, len(m.Samples))
	for _, s := range m.Samples {
		samples = append(samples, json.RawMessage(truncateJSON(s)))
	}
	known := []string{}
	for _, k := range m.Known {
		known = append(known, k.ID+": "+k.Message)
	}
	cov := map[string]any{
		"evaluations":         m.Evaluations,
		"distinct_nontrivial": len(m.Hashes),
		"rule":                strings.Join(m.Rules, " || "),
		"samples":             samples,
		"classes":             m.Classes,
		"requested_per_shard": tc.Checks,
		"shards":              tc.Shards,
		"known_findings":      known,
		"inconclusive":        inconcl,
	}
	doc := map[string]any{
		"property_id": id,
		"tier":        tier,
		"seed":        ev.Seed(),
		"level":       level,
		"coverage":    cov,
		"assumptions": nonNil(m.Assumptions),
		"wall_s":      wall.Seconds(),
		"violations":  nviol,
	}
	b, _ := json.MarshalIndent(doc, "", " ")
	os.MkdirAll(filepath.Join(root, "evidence"), 0o755)
	os.WriteFile(filepath.Join(root, "evidence", id+".json"), b, 0o644)
}

// truncateJSON keeps samples readable: long strings inside are cut.
func truncateJSON(raw json.RawMessage) []byte {
	var v any
	if json.Unmarshal(raw, &v) != nil {
		return raw
	}
	v = trunc(v)
	b, err := json.Marshal(v)
	if err != nil {
		return raw
	}
	return b
}

func trunc(v any) any {
	switch x := v.(type) {
	case string:
		if len(x) > 1500 {
			return x[:1500] + fmt.Sprintf("…(+%d bytes)", len(x)-1500)
		}
		return x
	case []any:
		if len(x) > 40 {
			x = append(x[:40:40], fmt.Sprintf("…(+%d items)", len(x)-40))
		}
		for i := range x {
			x[i] = trunc(x[i])
		}
		return x
	case map[string]any:
		for k := range x {
			x[k] = trunc(x[k])
		}
		return x
	}
	return v
}

func replay(id, file string) int {
	bin, err := build(id, "c.test")
	if err != nil {
		fmt.Fprintln(os.Stderr, err)
		return 2
	}
	abs, _ := filepath.Abs(file)
	r := runProc("replay", 10*time.Minute, []string{"VERIF_REPLAY=" + abs, "VERIF_ROOT=" + root, "VERIF_STAGE=replay"},
		bin, "-test.run", "^TestReplay$", "-test.count=1", "-test.v")
	os.Stdout.Write(r.out)
	if r.err != nil {
		if bytes.Contains(r.out, []byte("VERIF-FAIL")) || bytes.Contains(r.out, []byte("replay fails")) {
			fmt.Printf("VIOLATION property=%s replay=%s\n", id, abs)
			return 1
		}
		return 2
	}
	return 0
}

func nonNil(s []string) []string {
	if s == nil {
		return []string{}
	}
	return s
}
