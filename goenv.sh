# source this: resolves the Go toolchain for building naga (needs go >= 1.25) offline
_mc="${GOMODCACHE:-$HOME/go/pkg/mod}"
if [ -x "$_mc/golang.org/toolchain@v0.0.1-go1.25.0.linux-amd64/bin/go" ]; then
  VGO="$_mc/golang.org/toolchain@v0.0.1-go1.25.0.linux-amd64/bin/go"
elif command -v go1.26.8 >/dev/null 2>&1; then
  VGO="$(command -v go1.26.8)"
else
  VGO="$(command -v go)"
fi
export VGO
export GOTOOLCHAIN=local GOFLAGS=-mod=mod GOPROXY=off
