#!/bin/sh
# tools/mutant_mod.sh <seeded-dir-or-patch> <ID> [tier] [seeds...]
# Like tools/mutant.sh but without touching /repo: the change is applied to a scratch worktree of /repo's HEAD
# (removed afterwards) and the check is built against it through VERIF_MODFILE, from a scratch worktree of /verif's
# HEAD (committed state), so that it can run next to other checks.  Exit 0 caught, 3 missed, 2 trouble.
p="$1"; id="$2"; tier="${3:-quick}"; shift 3 2>/dev/null || shift $#
seeds="${*:-1}"
[ -d "$p" ] && p="$p/patch.diff"; p=$(readlink -f "$p")
wt=$(mktemp -d /tmp/verif-mut.XXXXXX)
git -C /repo worktree add -q --detach "$wt/naga" HEAD || exit 2
trap 'git -C /repo worktree remove --force "$wt/naga" >/dev/null 2>&1; git -C /verif worktree remove --force "$wt/verif" >/dev/null 2>&1; rm -rf "$wt"' EXIT INT TERM
git -C "$wt/naga" apply "$p" || { echo "patch does not apply"; exit 2; }
git -C /verif worktree add -q --detach "$wt/verif" HEAD || exit 2
sed "s|=> /repo|=> $wt/naga|" /verif/go.mod > "$wt/go.mod"; cp /verif/go.sum "$wt/go.sum"
caught=3
for s in $seeds; do
  out=$(VERIF_MODFILE="$wt/go.mod" VERIF_SEED=$s "$wt/verif/check" "$id" "$tier" 2>&1); rc=$?
  echo "$out" | grep -E "^VIOLATION|^$id (quick|thorough)|INCONCLUSIVE" | cut -c1-240 | head -4
  echo "$out" | grep -A1 "^VIOLATION" | grep "check=" | cut -c1-300 | head -3
  echo "seed=$s exit=$rc"
  if [ $rc -eq 1 ]; then caught=0; break; fi
done
exit $caught
