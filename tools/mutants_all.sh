#!/bin/sh
# tools/mutants_all.sh [seeds...] : runs every seeded change against its property's quick check; one line per change in seeded/RESULTS.txt
seeds="${*:-1 2}"
out=/verif/seeded/RESULTS.txt
: > $out.tmp
for d in /verif/seeded/C*-m*; do
  n=$(basename $d); id=${n%%-*}
  r=$(/verif/tools/mutant.sh $d $id quick $seeds 2>&1)
  rc=$?
  why=$(echo "$r" | grep "check=" | head -1 | cut -c1-160)
  seed=$(echo "$r" | grep "exit=1" | head -1)
  case $rc in 0) v=caught;; 3) v=missed;; *) v=trouble;; esac
  echo "$n $id $v [$seed] $why" >> $out.tmp
done
mv $out.tmp $out
