#!/usr/bin/env python3
"""Writes KNOWN_FINDINGS.md (plain-text view of known_findings.json: one line per entry)."""
import json,os
R=os.path.dirname(os.path.dirname(os.path.abspath(__file__)))
d=json.load(open(os.path.join(R,'known_findings.json')))['findings']
out=["# Known findings (generated from known_findings.json by tools/mkfindings.py; the JSON file is what the checks read)","",
"Open entries: the listed input (known/<id>.json) still violates the property; the check prints `KNOWN-FINDING: property=<id> ...` and",
"generated search avoids the tagged construct.  Fixed entries suppress nothing: their input is a regression case.",""]
for f in d:
    if f['status'].startswith('fixed'):
        out.append("fixed: property=%s %s %s — %s (replay %s)"%(f['property'],f['status'].split(':')[1].strip(),f['id'],f['what'],f['replay']))
for f in d:
    if not f['status'].startswith('fixed'):
        out.append("open: property=%s %s — %s (replay %s; exclusion tags: %s)"%(f['property'],f['id'],f['what'],f['replay'],', '.join(f.get('tags') or []) or 'none'))
open(os.path.join(R,'KNOWN_FINDINGS.md'),'w').write('\n'.join(out)+'\n')
print(len(d),'entries')
