#!/bin/sh
# tools/sweep.sh <tier> <seed> [ids...] : runs the checks one after the other, one summary line each
tier="$1"; seed="$2"; shift 2
ids="${*:-C01 C02 C03 C04 C05 C06 C07 C08 C09 C10 C11 C12 C13 C14 C15 C16 C17 C18 C19}"
mkdir -p /tmp/q/sweep
for id in $ids; do
  VERIF_SEED=$seed /verif/check $id $tier > /tmp/q/sweep/$id.$tier.$seed.log 2>&1; rc=$?
  echo "$id seed=$seed exit=$rc $(grep -E "^$id $tier:" /tmp/q/sweep/$id.$tier.$seed.log) $(grep -c '^VIOLATION' /tmp/q/sweep/$id.$tier.$seed.log) viol"
  if [ $rc -ne 0 ]; then mkdir -p /tmp/q/sweep/replays; rm -rf /tmp/q/sweep/replays/$id.$tier.$seed; cp -r /verif/replay/$id /tmp/q/sweep/replays/$id.$tier.$seed 2>/dev/null; fi
done
