#!/bin/sh
# tools/mutant.sh <seeded-dir-or-patch> <ID> [tier] [seeds...]
# Applies a seeded change to /repo, runs ./check <ID> <tier> for each seed, prints the outcome, and ALWAYS restores /repo.
# Exit 0 = caught (some run exited 1 with a VIOLATION line), 3 = missed, 2 = inconclusive/trouble.
p="$1"; id="$2"; tier="${3:-quick}"; shift 3 2>/dev/null || shift $#
seeds="${*:-1}"
[ -d "$p" ] && p="$p/patch.diff"; p=$(readlink -f "$p")
[ -f "$p" ] || { echo "no patch $p"; exit 2; }
if [ -n "$(git -C /repo status --porcelain)" ]; then echo "/repo is dirty; refusing"; exit 2; fi
exec 9>/tmp/verif-mutant.lock; flock 9
git -C /repo apply "$p" || { echo "patch does not apply"; exit 2; }
trap 'git -C /repo checkout -- . ; git -C /repo clean -fdq' EXIT INT TERM
caught=3
for s in $seeds; do
  out=$(VERIF_SEED=$s /verif/check "$id" "$tier" 2>&1); rc=$?
  echo "$out" | grep -E "^VIOLATION|^$id (quick|thorough)|INCONCLUSIVE" | cut -c1-240 | head -6
  echo "$out" | grep -A1 "^VIOLATION" | grep "check=" | cut -c1-300 | head -3
  echo "seed=$s exit=$rc"
  if [ $rc -eq 1 ]; then caught=0; break; fi
done
exit $caught
