#!/usr/bin/env python3
"""addfinding.py <ID> "<what>" <tag1,tag2|-> [replay-file]  — copies the (latest) replay file to known/<ID>.json and appends an open entry."""
import json,sys,glob,os,shutil
fid,what,tags=sys.argv[1],sys.argv[2],sys.argv[3]
prop=fid.split('-')[0]
src=sys.argv[4] if len(sys.argv)>4 else sorted(glob.glob('/verif/replay/%s/*.json'%prop), key=os.path.getmtime)[-1]
dst='/verif/known/%s.json'%fid
if os.path.abspath(src)!=dst: shutil.copy(src,dst)
p='/verif/known_findings.json'
d=json.load(open(p))
assert not any(f["id"]==fid for f in d["findings"]), "id exists: "+fid
d['findings'].append({"id":fid,"property":prop,"status":"open","what":what,"replay":"known/%s.json"%fid,"tags":[] if tags=='-' else tags.split(',')})
json.dump(d,open(p,'w'),indent=1)
print('added',fid,'from',src)
