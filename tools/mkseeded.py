#!/usr/bin/env python3
"""Writes seeded/README.md from seeded/*/meta.json, seeded/RESULTS.txt and the notes below."""
import json,glob,os
R='/verif/seeded'
notes={
'C01-m3':"round 2: caught",
'C02-m3':"round 2: caught",
'C03-m3':"round 2: caught after wgen got uniform members that are (nested) arrays of matrices",
'C04-m3':"round 2: caught after the C04-1 exclusion was narrowed to scalar-condition selects (it had switched every select off for MSL)",
'C05-m3':"round 2: caught after wgen got a ptr<workgroup> helper for the workgroup slot write",
'C07-m3':"round 2: caught",
'C13-m3':"round 2: caught; a re-run of every change on the final tree missed it at five seeds (the generator stream had moved), so C13 got a hand-written switch-group-call template, which catches it on every run",
'C17-m3':"round 2: caught after C17 got an oracle for the HLSL prologue that rebuilds the WGSL arguments from the generated input struct",
'C06-m3':"round 3: missed at first (no cross() in constant expressions); the constant generator now draws dot / cross and more vector-typed roots",
'C08-m3':"round 3: caught",
'C09-m3':"round 3: missed at first; C09 now has a source-level oracle for @location / @interpolate / @blend_src (own attribute scanner), attributes in either order and dual-source fragment outputs",
'C10-m3':"round 3: missed at first (no recursive input); C10 now has call-cycle families. The author's remarks on the unchanged tree led to findings C10-9..13 and the exhaustive no-value sweep",
'C11-m3':"round 3: caught",
'C12-m3':"round 3: caught",
'C14-m3':"round 3: caught",
'C15-m3':"round 3: missed at first; the exec generator now declares a workgroup variable that only a helper names, called from then / else / switch positions",
'C16-m3':"round 3: missed at first: `linear` had been classed as a contextual HLSL word; it is a keyword in Microsoft's table and is now one in the pool and in the HLSL front end",
'C18-m3':"round 3: caught",
'C19-m3':"round 3: missed at first; C19 now adds / drops the parentheses of the left group of an operator chain (paren.assoc, unparen.assoc per operator family) and mgen writes && / || chains",
'C01-m1':"missed by the first quick runs (the thorough tier caught it in 8 min); wgen now observes block-local variables at block end and emits a loop-local accumulator idiom; caught at seed 1 since",
'C02-m1':"missed at first: no generated helper was reachable only from a continuing block; wgen now emits step helpers called only from continuing / for-update that also own a private variable",
'C02-m2':"missed at first: non-square transpose was switched off by open finding C08-10; that defect was repaired in /repo (fix 925d909) and the construct is generated again",
'C03-m2':"MISSED: the executors model bool/i32/u32/f32 only; 64-bit integer vectors are outside the generator's and interpreters' domain (see DESIGN 8.6)",
'C08-m1':"missed at first; wgen now puts if / switch / nested loops inside continuing blocks (which also exposed the genuine validator defect C08-20, fixed)",
'C08-m2':"missed at first: module-scope shadowing was off because of open finding C08-15 in the same function; C08-15 was repaired in /repo and the full generator now emits `var x = x;` shadowing",
'C09-m1':"missed at first; the C09 generator now draws run-time column indices on matrices (references and values)",
'C10-m1':"missed at first; C10 got a builtin-arity family and an exhaustive (builtin x texture kind x argument count) sweep, which also exposed the genuine panics C10-6 / C10-7 (fixed)",
'C10-m2':"missed at first; diamond-shaped amplifier families (call-diamond, let-diamond, const-diamond) were added; they exposed the genuine exponential paths C10-4 (fixed) and C10-5 (open: dxil inlining)",
'C11-m2':"missed at first; mgen now declares a helper at the end of the module that is called only from a continuing block",
'C12-m1':"caught on 1 of 2 seeds at first, reliably after the generator extensions",
'C12-m2':"missed at first: no source sampled one texture through two samplers; C12 now draws full-profile modules (second sampler added to genfull) and repeats each compilation up to 5 times",
'C13-m1':"missed at first; caught since wgen emits helpers called only from loop update clauses",
'C13-m2':"MISSED: the shape (local updated in a single-block loop nested in an if, read afterwards) is exactly what open finding C13-3 mis-promotes, so such modules are skipped (skip:known:c13-mem2reg-single-block-in-loop); an earlier 'caught' was a harness false alarm (DESIGN 8.4) that has been corrected",
'C14-m1':"MISSED: masked by open finding C14-1 (the clone already shares nested blocks and handle pointers with the caller, so the module-unchanged oracle is off; deepening the clone breaks the MSL override goldens, verified); an earlier 'caught' was a value mismatch from finding C14-3's float64 folding at INT_MIN, since excluded",
'C15-m2':"MISSED: needs Index policy != Buffer policy; read-zero-skip-write is off while C04-3 is open, which leaves restrict/restrict",
'C17-m1':"missed at first; IO attributes are now printed in both orders",
'C17-m2':"missed at first: a fake binding without [[user(fake0)]] was only counted; it is now a failure (it never occurs on the unchanged tree)",
'C18-m2':"NOT FLAGGED by design: LLVM 3.7's reader truncates the decoded relative id to 32 bits (InstNum - (unsigned)decodeSignRotatedValue), so the non-canonical encoding still resolves to the intended value; the independent reader follows LLVM here",
'C19-m1':"missed at first; comment text now contains balanced nested comments whose delimiters touch '/' and '*' (/*/ */)",
'C19-m2':"missed at first; fresh names are now also drawn with builtin-like prefixes (mat, vec, texture_, ...), which exposed the genuine defect C19-7 (fixed)",
}
res={}
p=os.path.join(R,'RESULTS.txt')
if os.path.exists(p):
    for l in open(p):
        a=l.split(' ',3)
        if len(a)>=3: res[a[0]]=(a[2], a[3].strip() if len(a)>3 else '')
out=["# Independently written changes that break a property (seeded mutants)","",
"Each directory holds `patch.diff` (apply with `git -C /repo apply`), the author's demonstration `demo_test.go`, its `README.md` and `meta.json`.",
"All 57 (38 in round 1, two per property; 8 in round 2; 11 in round 3) were confirmed in a scratch worktree (suite passes with the change, demonstration fails with it and passes without it) before being kept.",
"`tools/mutants_all.sh` re-runs every change against its property's quick check at seeds 1 and 2 (results: `RESULTS.txt`); `tools/mutant.sh` runs one.","",
"| change | property | what it needs | quick check (seeds 1,2) | notes |","|---|---|---|---|---|"]
c=m=0
for d in sorted(glob.glob(R+'/C*-m*')):
    k=os.path.basename(d); meta=json.load(open(d+'/meta.json'))
    v,why=res.get(k,('not run',''))
    if v=='caught': c+=1
    elif v=='missed': m+=1
    out.append("| %s | %s | %s | %s | %s |"%(k,meta['property'],meta['needs_to_manifest'],v,notes.get(k,'')))
out+=["","Caught by the quick tier: %d of %d; missed: %d (each explained in the notes column)."%(c,c+m,m)]
open(R+'/README.md','w').write('\n'.join(out)+'\n')
print(c,m)
