#!/usr/bin/env python3
import json,sys,glob,os
fs=sorted(glob.glob(sys.argv[1]), key=os.path.getmtime)
d=json.load(open(fs[-1]))
print(fs[-1]); print(d['message'][:600])
c=d['case']
print({k:c.get(k) for k in ('opts','num_workgroups','workgroup_size')})
src=c['wgsl']
full=len(sys.argv)>2
if full: print(src)
else:
    i=src.index('@compute'); j=src.find('\n}\n',i)
    print(src[i:j+3])
    print('\n'.join(l for l in src.split('\n') if l.startswith('var<') or l.startswith('@group') or l.startswith('const')))
print('buffers',c.get('buffers'))
