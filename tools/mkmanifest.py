#!/usr/bin/env python3
"""Regenerates /verif/MANIFEST.json from the table below (kept next to the code so the
manifest stays valid while checks are added)."""
import json, os, sys
ROOT = os.path.dirname(os.path.dirname(os.path.abspath(__file__)))

# id -> (technique, level text, level note, design ref)
CHECKS = {
 "C07": ("property-based testing (rapid): generated type trees vs independent WGSL layout calculator",
         "Generated host-shareable type trees (storage/uniform/workgroup, @align/@size in every spelling, f16, runtime tails) are lowered and every offset/span/stride/size in the IR is compared with an independent implementation of the WGSL layout rules; exploration only, absence is not shown.",
         "Trusted: verif/internal/wgen layout code (written from the WGSL spec tables).", "DESIGN.md §4 C07"),
}
CHECKS["C12"] = ("property-based testing (rapid state machine over compile histories) + fresh-process differential + race-detector stress",
         "Generated histories of lowerings and backend invocations (incl. one reused spirv.Backend, dxil, ProcessOverrides on a clone) over corpus and generated programs; after every step the output digest must equal that of a fresh pipeline and the deep hash of the pooled module must be unchanged; corpus compiled in several fresh processes must give identical digests; concurrent compilations run under the Go race detector. Exploration: schedules are sampled, not enumerated.",
         "Trusted: irx.Hash completeness; SHA-256 digests; the race detector only sees executed paths.", "DESIGN.md §4 C12")
CHECKS["C19"] = ("metamorphic property-based testing (rapid) + native fuzzing: meaning-neutral source edits",
         "Sequences of neutral edits (blankspace and comment insertion/removal at token boundaries incl. hostile comment text, CR/LF variants, exotic blankspace, template-close adjacency, redundant parentheses, trailing commas, consistent renaming) are applied to corpus and generated programs by an independent WGSL tokenizer; acceptance must be unchanged and the lowered module (deep hash modulo names) and every backend's output must be identical (modulo names for renamings). Exploration only.",
         "Trusted: verif/internal/meta tokenizer and its judgement of which edits are neutral per the WGSL grammar; irx.HashNoNames.", "DESIGN.md §4 C19")
CHECKS["C11"] = ("property-based testing (rapid): rule-breaking edits at generated sites",
         "(valid program, rule, site) triples: one of eleven rule-breaking edits is applied at a drawn applicable site of a corpus or generated program; the edited program must be rejected by Parse/Lower/Compile with no output, and the reported position must lie in the text (exact first offending token for syntax edits, inside the enclosing declaration for semantic ones). Exploration only.",
         "Trusted: verif/internal/meta structural pass (declaration spans, identifier roles) and that each edit breaks only its rule.", "DESIGN.md §4 C11")
CHECKS["C18"] = ("property-based testing (rapid): generated programs vs independent DXBC container + LLVM 3.7 bitstream reader",
         "Corpus and generated vertex/fragment/compute programs (up to thousands of instructions, hundreds of blocks) x shader models 6.0-6.6 x binding maps x hash mode are compiled by dxil.Compile; every returned container is parsed by an independent reader (part table, sizes, retail/bypass hash, HASH part, program header, ISG1/OSG1/PSG1, PSV0, bitstream blocks/abbrevs/alignment, type/value/metadata operand indices and LLVM-reader type agreement) and recompiled to check determinism. Exploration only.",
         "Trusted: verif/internal/dxbc (hash cross-validated on two real DXC containers shipped in the repository).", "DESIGN.md §4 C18")
CHECKS["C09"] = ("property-based testing (rapid): generated + corpus programs vs independent strict IR validator and typifier",
         "Every module returned by lowering for corpus files and generated programs is judged by an independent implementation of the stated IR contract (handle order, no abstract kinds, type dedup, recorded type = independently inferred type, emit discipline on every path, returns, stores, calls, entry-point and global bindings) plus naga's own validator. Exploration only.",
         "Trusted: verif/internal/irx (typifier and validator written from the WGSL / upstream-naga typing rules; rules relaxed where naga-go's conventions legitimately differ are listed in the agent report and DESIGN.md).", "DESIGN.md §4 C09")
CHECKS["C08"] = ("property-based testing (rapid): valid-by-construction programs must be accepted by every stage and backend",
         "Programs from two typed generators (exec profile: compute over scalars/vectors/matrices/arrays/structs/pointers/control flow/builtins; full profile: 1-4 entry points of mixed stages, IO structs, textures/samplers, shared and aliased bindings, shadowing, forward references, overrides, atomics) and the corpus are run through Parse, Lower, Validate, the one-call Compile API and the SPIR-V/HLSL/MSL/GLSL backends under drawn option sets; any error or panic is a violation unless it maps to a listed finding. Exploration only.",
         "Trusted: validity by construction of the generators (own AST and typing); documented-feature scope taken from README/CHANGELOG/corpus.", "DESIGN.md §4 C08")
CHECKS["C10"] = ("property-based testing (rapid) in an isolated worker process: hostile and amplified inputs, crash/hang/memory oracle",
         "Arbitrary bytes, token soups, token-level mutations of corpus and generated programs 34 amplifier families (nesting, chains, diamond-shaped call / let / const graphs, long tokens, unterminated constructs; sizes doubled up to 16/64 KiB), a builtin-arity family and an exhaustive (texture builtin x texture kind x argument count) sweep are run through tokenize/parse/lower/validate/compile and all five backends in a sandboxed worker; a recovered panic, a fatal runtime error, live heap above 1.5 GB, allocation growing faster than n^3.5 or a missing answer within 120 s is a violation. Exploration only; polynomial bounds are approximated by fixed limits.",
         "Trusted: the worker attribution (one request in flight); time is only used for extreme cases because wall-clock varies with heap state.", "DESIGN.md §4 C10")
CHECKS["C06"] = ("property-based testing (rapid): generated constant-expression trees x placement sites, three-way differential",
         "Constant-expression trees over abstract/concrete literals and named constants are placed at eleven kinds of site; the value observed by executing the compiled program (independent SPIR-V interpreter, GLSL interpreter as second opinion) must equal the value of an independent WGSL const-evaluator, fully concrete trees must agree with their run-time twin (leaves loaded from a buffer), and expressions WGSL makes an error (integer division by zero, unrepresentable value) must be rejected. Exploration only.",
         "Trusted: verif/internal/wref const-evaluation (abstract ints in 64 bits, floats in binary64, WGSL conversion rank); float results compared with tolerance; concrete overflow, over-wide shifts, cancellation-sensitive float sums are not judged.", "DESIGN.md §4 C06")
CHECKS["C15"] = ("property-based testing (rapid): hostile data and unguarded indices vs trapping interpreters of the emitted code",
         "Generated compute programs biased to the hardened constructs (integer division/remainder by zero and INT_MIN/-1, negation/abs of INT_MIN, float->int of infinite/out-of-range values, reads of uninitialised variables, unguarded dynamic indices from 32-bit boundary values) are compiled with each backend's protective options (SPIR-V defaults; HLSL RestrictIndexing; MSL Index and Buffer policies drawn independently, restrict only while finding C04-3 keeps read-zero-skip-write unusable; GLSL zero-init only) and executed by interpreters that trap on any out-of-object access and report any use of an undefined value; results must equal the WGSL-defined values under the policy. Exploration only.",
         "Trusted: target interpreters' undefined-behaviour rules (verif/internal/spv, verif/internal/ctext); restrict accepts either clamping convention for negative indices.", "DESIGN.md §4 C15")

EXEC_NOTE = "Trusted: verif/internal/wref (WGSL reference evaluator) and the target interpreter in verif/internal/%s, both written from the specifications and sharing no code with naga; textures, derivatives, subgroup and ray-query operations are outside the executors; constructs hit by an open finding are excluded by tag and counted."
CHECKS["C01"] = ("differential property-based testing (rapid): WGSL reference evaluator vs SPIR-V interpreter on the emitted binary",
         "Generated exec-profile compute programs (scalars/vectors/matrices/arrays/structs/pointers, helpers, all statement kinds, builtins, atomics, workgroup memory) x boundary-biased buffer contents x spirv options (version 1.0-1.6, debug, loop bounding, one-call Compile API) are compiled to SPIR-V; an independent SPIR-V interpreter executes the binary (poison for anything SPIR-V leaves undefined, traps on out-of-object access) and every non-padding output byte must equal what an independent WGSL reference evaluator computes. Exploration only: absence of defects is not shown.",
         EXEC_NOTE % "spv", "DESIGN.md §4 C01")
CHECKS["C02"] = ("property-based testing (rapid): generated + corpus modules x option sets vs independent SPIR-V structural validator",
         "Generated exec- and full-profile modules and the 172-file corpus x SPIR-V versions 1.0-1.6 x option sets (debug, ForcePointSize, AdjustCoordinateSpace, ForceLoopBounding, 16-bit IO, bounds-check policies) are compiled; every returned binary is parsed and judged by an independent implementation of the universal SPIR-V rules (header/bound, section order, single definition and dominance, type uniqueness, per-opcode operand kinds and type relations, block termination, structured control flow, entry-point interfaces, Vulkan layout/interface decorations, capabilities and extensions). Exploration only.",
         "Trusted: verif/internal/spv reader and validator (rules limited to those its author is certain are universal; opcodes outside its operand table are counted as unchecked, never flagged).", "DESIGN.md §4 C02")
CHECKS["C03"] = ("differential property-based testing (rapid): WGSL reference evaluator vs HLSL front end + interpreter on the emitted text",
         "Same programs and inputs as C01 x hlsl options (SM 5.1/6.0/6.2/6.6, RestrictIndexing, ForceLoopBounding, explicit BindingMap or FakeMissingBindings); the emitted text must parse and type-check as HLSL and, executed by an independent HLSL interpreter (byte-address Load/Store at the literal offsets, cbuffer packing, row/column conventions, intrinsic definitions), leave the buffers the WGSL reference evaluator computes. Exploration only.",
         EXEC_NOTE % "ctext (HLSL dialect)", "DESIGN.md §4 C03-C05")
CHECKS["C04"] = ("differential property-based testing (rapid): WGSL reference evaluator vs MSL (C++14 subset) front end + interpreter on the emitted text",
         "Same programs and inputs as C01 x msl options (LangVersion 1.2-3.1, index/buffer bounds policies, ForceLoopBounding, auto / fake / explicit per-entry-point binding maps); the emitted text must parse and type-check as MSL and, executed by an independent interpreter (struct layout from Metal's size/alignment table and the explicit padding, packed vectors, array wrappers, references, as_type, metal:: intrinsics, _mslBufferSizes contract), leave the buffers the reference evaluator computes. Exploration only.",
         EXEC_NOTE % "ctext (MSL dialect)", "DESIGN.md §4 C03-C05")
CHECKS["C05"] = ("differential property-based testing (rapid): WGSL reference evaluator vs GLSL front end + interpreter on the emitted text",
         "Same programs and inputs as C01 x glsl options (430/450/460, ES 310/320, binding map or reflection-based binding), one Compile per entry point; the emitted text must be valid GLSL of the requested version and, executed by an independent interpreter (std430/std140 placement, constructor/operator/builtin rules), leave the buffers the reference evaluator computes; executions with integer division by zero or out-of-range float->int conversion are outside the property's domain and discarded (counted). Exploration only.",
         EXEC_NOTE % "ctext (GLSL dialect)", "DESIGN.md §4 C03-C05")
CHECKS["C13"] = ("differential + metamorphic property-based testing (rapid): IR interpreter before vs after each pass, strict validator, idempotence",
         "Generated compute programs with inputs, hand-written control-flow kernels and the corpus x drawn pass sequences (CompactUnused/Constants/Expressions/Types, ReorderTypes, DeduplicateEmits, InlineUserFunctions with drawn policy, and the DXIL pipeline prefixes prepare/+sroa/+mem2reg/+dce through the verif hook): an independent IR interpreter must compute bit-identical buffers before and after (ordinary IR additionally through SPIR-V and the SPIR-V interpreter), the strict IR validator must report nothing new, re-applying the pass must leave the deep hash unchanged, and prepareModule must not touch its argument. Exploration only.",
         "Trusted: verif/internal/irx interpreter (itself cross-checked against the WGSL reference evaluator on lowered modules), irx.StrictValidate, irx.Hash; hook dxil/verif_export.go only re-exports existing functions.", "DESIGN.md §4 C13")
CHECKS["C14"] = ("differential property-based testing (rapid): reference evaluator with bound override values vs executed output of every override route",
         "Generated compute programs with 1-4 overrides (bool/i32/u32/f32, with/without @id, literal or computed defaults over earlier overrides, or none) x value maps (absent, by id, by name, boundary values) x routes (ir.ProcessOverrides on a clone + SPIR-V/HLSL/MSL/GLSL, glsl PipelineConstants, msl PipelineConstants): the route's output is executed and must equal the reference evaluator's result with each override bound to its supplied or default value; a used override without value and default must be an error from every route; complete assignments must not be rejected by resolution; the caller's module hash must be unchanged. Exploration only.",
         "Trusted: wref const-evaluation of defaults; supplied values are representable in the override's type; override-expressions whose evaluation is an error in WGSL (division by zero, overflow) are outside the domain and discarded; the SPIR-V route is off while finding C01-8 is open.", "DESIGN.md §4 C14")
CHECKS["C16"] = ("metamorphic property-based testing (rapid): adversarial renamings vs target-language front ends, alpha-equivalence and execution",
         "(program, injective renaming of user names into an adversarial pool, text backend): the pool holds keywords / reserved words / builtin names of HLSL, MSL-C++14 and GLSL from independent lists, naga helper and temporary patterns, case variants, digit/underscore families, names colliding after sanitisation and non-ASCII identifiers. The renamed program's output must parse and resolve as the target language, declare no reserved spelling, be alpha-equivalent to the baseline output, give the baseline execution result for exec programs, and EntryPointNames must name existing functions. Exploration only.",
         "Trusted: verif/internal/ctext front ends; keyword tables list only words that are certainly illegal as identifiers; everything is judged relative to the baseline output of the same program.", "DESIGN.md §4 C16")
CHECKS["C17"] = ("property-based testing (rapid): generated multi-entry-point modules x binding maps vs independent readers of every output",
         "Generated modules with 1-4 entry points of mixed stages (shared / unshared / aliased resources, IO structs and bare IO, every builtin valid per stage, locations 0-15, interpolation, invariant, workgroup sizes) x drawn binding maps per backend: SPIR-V DescriptorSet/Binding/storage class/Location/BuiltIn/interpolation decorations, execution model/modes and exact interface lists; HLSL registers/spaces/semantics/numthreads and RegisterBindings; MSL argument slots and attributes; GLSL layout qualifiers and the reflection data (Uniforms, TextureMappings, EntryPointNames) are read back by independent parsers and compared with the expectation computed from the generator's own record and the maps; absent entries must error without FakeMissingBindings. Exploration only.",
         "Trusted: the generator's record of what it wrote; verif/internal/spv reader and the per-backend text scanners in checks/c17.", "DESIGN.md §4 C17")
PENDING = {}  # filled below

def main():
    props = [json.loads(l) for l in open(os.path.join(ROOT, "properties.jsonl"))]
    checks, na = [], []
    for p in props:
        pid = p["id"]
        if pid in CHECKS and os.path.isdir(os.path.join(ROOT, "checks", pid.lower())):
            tech, text, note, ref = CHECKS[pid]
            checks.append({
                "property_id": pid,
                "quick_cmd": "./check %s quick" % pid,
                "thorough_cmd": "./check %s thorough" % pid,
                "evidence_file": "/verif/evidence/%s.json" % pid,
                "replay_cmd_template": "./check %s --replay {path}" % pid,
                "engine": "vcheck",
                "level_claimed": {"category": "exploration", "text": text, "design_ref": ref},
                "level_note": note,
                "technique": tech,
            })
        else:
            na.append({"property_id": pid, "reason": "check not finished yet in this revision (generated-input check designed in DESIGN.md §4; not claimed until its machinery is committed and silent on the unchanged tree)"})
    m = {
        "version": 1,
        "setup_cmd": "./check --setup",
        "hooks": {
            "guard": "verif",
            "enable": "go test -tags verif (checks build /repo through the replace directive in /verif/go.mod)",
            "baseline_off_cmd": json.load(open("/root/.vp/BASELINE.json"))["cmd"] if os.path.exists("/root/.vp/BASELINE.json") else "go test ./...",
            "source_commits": HOOK_COMMITS,
            "add_only": True,
        },
        "engines": ENGINES,
        "checks": checks,
        "notes": "All checks are property-based tests / fuzzers driven by ./check (cmd/vcheck). Exit 0 held, 1 violation, 2 inconclusive. Known findings: known_findings.json.",
        "not_applicable": na,
    }
    json.dump(m, open(os.path.join(ROOT, "MANIFEST.json"), "w"), indent=1)
    print("checks:", [c["property_id"] for c in checks])

HOOK_COMMITS = ["e7bc752"]
ENGINES = [
 {"name": "vcheck", "path": "cmd/vcheck", "serves_properties": [], "kind_free_text": "driver: builds checks/<id> against /repo, shards rapid runs, merges evidence"},
 {"name": "wgen", "path": "internal/wgen", "serves_properties": ["C01","C02","C03","C04","C05","C06","C07","C08","C12","C13","C14","C15","C16","C17"], "kind_free_text": "generators of valid-by-construction WGSL (own AST, printer, WGSL layout): exec, full, types, constexpr, override profiles"},
 {"name": "wref", "path": "internal/wref", "serves_properties": ["C01","C03","C04","C05","C06","C13","C14","C15","C16"], "kind_free_text": "independent WGSL reference evaluator and const-evaluator"},
 {"name": "spv", "path": "internal/spv", "serves_properties": ["C01","C02","C06","C07","C13","C15","C17"], "kind_free_text": "SPIR-V reader, structural validator and interpreter (poison / trap semantics)"},
 {"name": "ctext", "path": "internal/ctext", "serves_properties": ["C03","C04","C05","C06","C07","C14","C15","C16"], "kind_free_text": "front ends and interpreters for the emitted HLSL, MSL and GLSL text"},
 {"name": "irx", "path": "internal/irx", "serves_properties": ["C09","C12","C13","C19"], "kind_free_text": "strict IR validator, typifier, IR interpreter, deep hash / diff of ir.Module"},
 {"name": "dxbc", "path": "internal/dxbc", "serves_properties": ["C18"], "kind_free_text": "DXBC container, PSV0 / signature parts, LLVM 3.7 bitstream reader, retail hash"},
 {"name": "meta", "path": "internal/meta", "serves_properties": ["C09","C10","C11","C16","C19"], "kind_free_text": "WGSL tokenizer, neutral and rule-breaking source edits, adversarial name pools, mgen program generator"},
 {"name": "sandbox", "path": "internal/sandbox", "serves_properties": ["C10","C12"], "kind_free_text": "isolated worker processes with heap watchdog and time budgets"},
 {"name": "xrun", "path": "internal/xrun", "serves_properties": ["C01","C03","C04","C05","C13","C14","C15","C16"], "kind_free_text": "compile-and-execute runners per backend, buffer comparison with padding / tolerance masks"},
]
if __name__ == "__main__":
    main()
