#!/usr/bin/env python3
"""Regenerates /verif/MANIFEST.json from the table below (kept next to the code so the
manifest stays valid while checks are added)."""
import json, os, sys
ROOT = os.path.dirname(os.path.dirname(os.path.abspath(__file__)))

# id -> (technique, level text, level note, design ref)
CHECKS = {
 "C07": ("property-based testing (rapid): generated type trees vs independent WGSL layout calculator",
         "Generated host-shareable type trees (storage/uniform/workgroup, @align/@size in every spelling, f16, runtime tails) are lowered and every offset/span/stride/size in the IR is compared with an independent implementation of the WGSL layout rules; exploration only, absence is not shown.",
         "Trusted: verif/internal/wgen layout code (written from the WGSL spec tables).", "DESIGN.md §4 C07"),
}
CHECKS["C12"] = ("property-based testing (rapid state machine over compile histories) + fresh-process differential + race-detector stress",
         "Generated histories of lowerings and backend invocations (incl. one reused spirv.Backend, dxil, ProcessOverrides on a clone) over corpus and generated programs; after every step the output digest must equal that of a fresh pipeline and the deep hash of the pooled module must be unchanged; corpus compiled in several fresh processes must give identical digests; concurrent compilations run under the Go race detector. Exploration: schedules are sampled, not enumerated.",
         "Trusted: irx.Hash completeness; SHA-256 digests; the race detector only sees executed paths.", "DESIGN.md §4 C12")
CHECKS["C19"] = ("metamorphic property-based testing (rapid) + native fuzzing: meaning-neutral source edits",
         "Sequences of neutral edits (blankspace and comment insertion/removal at token boundaries incl. hostile comment text, CR/LF variants, exotic blankspace, template-close adjacency, redundant parentheses, trailing commas, consistent renaming) are applied to corpus and generated programs by an independent WGSL tokenizer; acceptance must be unchanged and the lowered module (deep hash modulo names) and every backend's output must be identical (modulo names for renamings). Exploration only.",
         "Trusted: verif/internal/meta tokenizer and its judgement of which edits are neutral per the WGSL grammar; irx.HashNoNames.", "DESIGN.md §4 C19")
CHECKS["C11"] = ("property-based testing (rapid): rule-breaking edits at generated sites",
         "(valid program, rule, site) triples: one of eleven rule-breaking edits is applied at a drawn applicable site of a corpus or generated program; the edited program must be rejected by Parse/Lower/Compile with no output, and the reported position must lie in the text (exact first offending token for syntax edits, inside the enclosing declaration for semantic ones). Exploration only.",
         "Trusted: verif/internal/meta structural pass (declaration spans, identifier roles) and that each edit breaks only its rule.", "DESIGN.md §4 C11")
CHECKS["C18"] = ("property-based testing (rapid): generated programs vs independent DXBC container + LLVM 3.7 bitstream reader",
         "Corpus and generated vertex/fragment/compute programs (up to thousands of instructions, hundreds of blocks) x shader models 6.0-6.6 x binding maps x hash mode are compiled by dxil.Compile; every returned container is parsed by an independent reader (part table, sizes, retail/bypass hash, HASH part, program header, ISG1/OSG1/PSG1, PSV0, bitstream blocks/abbrevs/alignment, type/value/metadata operand indices and LLVM-reader type agreement) and recompiled to check determinism. Exploration only.",
         "Trusted: verif/internal/dxbc (hash cross-validated on two real DXC containers shipped in the repository).", "DESIGN.md §4 C18")
CHECKS["C09"] = ("property-based testing (rapid): generated + corpus programs vs independent strict IR validator and typifier",
         "Every module returned by lowering for corpus files and generated programs is judged by an independent implementation of the stated IR contract (handle order, no abstract kinds, type dedup, recorded type = independently inferred type, emit discipline on every path, returns, stores, calls, entry-point and global bindings) plus naga's own validator. Exploration only.",
         "Trusted: verif/internal/irx (typifier and validator written from the WGSL / upstream-naga typing rules; rules relaxed where naga-go's conventions legitimately differ are listed in the agent report and DESIGN.md).", "DESIGN.md §4 C09")
CHECKS["C08"] = ("property-based testing (rapid): valid-by-construction programs must be accepted by every stage and backend",
         "Programs from two typed generators (exec profile: compute over scalars/vectors/matrices/arrays/structs/pointers/control flow/builtins; full profile: 1-4 entry points of mixed stages, IO structs, textures/samplers, shared and aliased bindings, shadowing, forward references, overrides, atomics) and the corpus are run through Parse, Lower, Validate, the one-call Compile API and the SPIR-V/HLSL/MSL/GLSL backends under drawn option sets; any error or panic is a violation unless it maps to a listed finding. Exploration only.",
         "Trusted: validity by construction of the generators (own AST and typing); documented-feature scope taken from README/CHANGELOG/corpus.", "DESIGN.md §4 C08")
CHECKS["C10"] = ("property-based testing (rapid) in an isolated worker process: hostile and amplified inputs, crash/hang/memory oracle",
         "Arbitrary bytes, token soups, token-level mutations of corpus and generated programs and 30 amplifier families (nesting, chains, long tokens, unterminated constructs; sizes doubled up to 16/64 KiB) are run through tokenize/parse/lower/validate/compile and all five backends in a sandboxed worker; a recovered panic, a fatal runtime error, live heap above 1.5 GB, allocation growing faster than n^3.5 or a missing answer within 120 s is a violation. Exploration only; polynomial bounds are approximated by fixed limits.",
         "Trusted: the worker attribution (one request in flight); time is only used for extreme cases because wall-clock varies with heap state.", "DESIGN.md §4 C10")
CHECKS["C06"] = ("property-based testing (rapid): generated constant-expression trees x placement sites, three-way differential",
         "Constant-expression trees over abstract/concrete literals and named constants are placed at eleven kinds of site; the value observed by executing the compiled program (independent SPIR-V interpreter, GLSL interpreter as second opinion) must equal the value of an independent WGSL const-evaluator, fully concrete trees must agree with their run-time twin (leaves loaded from a buffer), and expressions WGSL makes an error (integer division by zero, unrepresentable value) must be rejected. Exploration only.",
         "Trusted: verif/internal/wref const-evaluation (abstract ints in 64 bits, floats in binary64, WGSL conversion rank); float results compared with tolerance; concrete overflow, over-wide shifts, cancellation-sensitive float sums are not judged.", "DESIGN.md §4 C06")
CHECKS["C15"] = ("property-based testing (rapid): hostile data and unguarded indices vs trapping interpreters of the emitted code",
         "Generated compute programs biased to the hardened constructs (integer division/remainder by zero and INT_MIN/-1, negation/abs of INT_MIN, float->int of infinite/out-of-range values, reads of uninitialised variables, unguarded dynamic indices from 32-bit boundary values) are compiled with each backend's protective options (SPIR-V defaults; HLSL RestrictIndexing; MSL restrict / read-zero-skip-write, enabled by checks/c15/ENABLE_MSL; GLSL zero-init only) and executed by interpreters that trap on any out-of-object access and report any use of an undefined value; results must equal the WGSL-defined values under the policy. Exploration only.",
         "Trusted: target interpreters' undefined-behaviour rules (verif/internal/spv, verif/internal/ctext); restrict accepts either clamping convention for negative indices.", "DESIGN.md §4 C15")
PENDING = {}  # filled below

def main():
    props = [json.loads(l) for l in open(os.path.join(ROOT, "properties.jsonl"))]
    checks, na = [], []
    for p in props:
        pid = p["id"]
        if pid in CHECKS and os.path.isdir(os.path.join(ROOT, "checks", pid.lower())):
            tech, text, note, ref = CHECKS[pid]
            checks.append({
                "property_id": pid,
                "quick_cmd": "./check %s quick" % pid,
                "thorough_cmd": "./check %s thorough" % pid,
                "evidence_file": "/verif/evidence/%s.json" % pid,
                "replay_cmd_template": "./check %s --replay {path}" % pid,
                "engine": "vcheck",
                "level_claimed": {"category": "exploration", "text": text, "design_ref": ref},
                "level_note": note,
                "technique": tech,
            })
        else:
            na.append({"property_id": pid, "reason": "check not finished yet in this revision (generated-input check designed in DESIGN.md §4; not claimed until its machinery is committed and silent on the unchanged tree)"})
    m = {
        "version": 1,
        "setup_cmd": "./check --setup",
        "hooks": {
            "guard": "verif",
            "enable": "go test -tags verif (checks build /repo through the replace directive in /verif/go.mod)",
            "baseline_off_cmd": json.load(open("/root/.vp/BASELINE.json"))["cmd"] if os.path.exists("/root/.vp/BASELINE.json") else "go test ./...",
            "source_commits": HOOK_COMMITS,
            "add_only": True,
        },
        "engines": ENGINES,
        "checks": checks,
        "notes": "All checks are property-based tests / fuzzers driven by ./check (cmd/vcheck). Exit 0 held, 1 violation, 2 inconclusive. Known findings: known_findings.json.",
        "not_applicable": na,
    }
    json.dump(m, open(os.path.join(ROOT, "MANIFEST.json"), "w"), indent=1)
    print("checks:", [c["property_id"] for c in checks])

HOOK_COMMITS = []
ENGINES = [
 {"name": "vcheck", "path": "cmd/vcheck", "serves_properties": [], "kind_free_text": "driver: builds checks/<id> against /repo, shards rapid runs, merges evidence"},
 {"name": "wgen", "path": "internal/wgen", "serves_properties": ["C01","C03","C04","C05","C06","C07","C08","C13","C14","C15"], "kind_free_text": "generators of valid-by-construction WGSL (own AST, printer, WGSL layout)"},
 {"name": "wref", "path": "internal/wref", "serves_properties": ["C01","C03","C04","C05","C06","C13","C14","C15"], "kind_free_text": "independent WGSL reference evaluator"},
]
if __name__ == "__main__":
    main()
