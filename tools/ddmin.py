#!/usr/bin/env python3
"""ddmin.py <file.wgsl> <shell predicate using @F@ for the file>  — greedy line-block reduction keeping the predicate true (exit 0)."""
import subprocess,sys,os
path=sys.argv[1]; pred=sys.argv[2]
lines=open(path).read().split('\n')
tmp=path+'.dd.wgsl'
def ok(ls):
    open(tmp,'w').write('\n'.join(ls))
    return subprocess.call(pred.replace("@F@",tmp),shell=True,stdout=subprocess.DEVNULL,stderr=subprocess.DEVNULL)==0
assert ok(lines), "predicate false on the original"
n=len(lines)
size=max(1,n//2)
while size>=1:
    i=0; changed=False
    while i<len(lines):
        cand=lines[:i]+lines[i+size:]
        if cand and ok(cand):
            lines=cand; changed=True
        else:
            i+=size
    if not changed or size==1:
        if size==1 and not changed: break
        size=max(1,size//2) if size>1 else 1
        if size==1 and not changed: continue
    else:
        continue
open(path+'.min.wgsl','w').write('\n'.join(lines))
print('\n'.join(lines))
