#!/bin/sh
# tools/confirm_mutant.sh <mutant-dir> <worktree> [demo-dest-dir-relative-to-worktree]
# Confirms an independently written change: (1) patch applies, full suite passes with it, (2) demo fails with it, (3) demo passes without it.
d="$1"; wt="$2"; dest="${3:-.}"
export GOTOOLCHAIN=local GOPROXY=off GOFLAGS=
GO=/root/go/pkg/mod/golang.org/toolchain@v0.0.1-go1.25.0.linux-amd64/bin/go
cd "$wt" || exit 2
git checkout -q -- . ; git clean -fdq
git apply "$d/patch.diff" || { echo "APPLY FAILED"; exit 2; }
if $GO test -vet=off -count=1 ./... > "$d/confirm_suite.log" 2>&1; then echo "suite_with_patch=pass"; else echo "suite_with_patch=FAIL"; fi
cp "$d/demo_test.go" "$dest/zz_demo_test.go"
if (cd "$dest" && $GO test -tags verif -vet=off -count=1 -run 'Test' . > "$d/confirm_demo_patched.log" 2>&1); then echo "demo_with_patch=pass(BAD)"; else echo "demo_with_patch=fail(ok)"; fi
rm -f "$dest/zz_demo_test.go"
git checkout -q -- . ; git clean -fdq
cp "$d/demo_test.go" "$dest/zz_demo_test.go"
if (cd "$dest" && $GO test -tags verif -vet=off -count=1 -run 'Test' . > "$d/confirm_demo_clean.log" 2>&1); then echo "demo_clean=pass(ok)"; else echo "demo_clean=FAIL(BAD)"; fi
rm -f "$dest/zz_demo_test.go"
git checkout -q -- . ; git clean -fdq
