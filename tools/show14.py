#!/usr/bin/env python3
import json,sys,glob
for f in sorted(glob.glob(sys.argv[1])):
    c=json.load(open(f)); x=c['case']['x']
    print('=====',f); print('MSG:',c['message'][:400]); print('DESC:',c['case']['description'],'| route',x['opts'].get('route'),'| ov',x.get('overrides'), '| must_reject', c['case']['must_reject'])
    if len(sys.argv)>2:
        print(x['wgsl'])
    else:
        for l in x['wgsl'].split('\n'):
            if 'ov' in l and ('override' in l or any(('ov%d'%i) in l for i in range(100))): print('   ',l[:200])
