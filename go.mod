module verif

go 1.25

require (
	github.com/gogpu/naga v0.0.0
	pgregory.net/rapid v1.3.0
)

replace github.com/gogpu/naga => /repo
